#!/bin/bash
# check.sh <PROPERTY> quick|thorough  -- decide one property on /repo's current working tree.
# check.sh replay <file>             -- re-decide the one obligation recorded in a replay file (VIOLATION ... replay=<file>).
# The analyzer is rebuilt from /verif/kvcheck when its sources are newer than the binary.
set -u
cd "$(dirname "$0")"
export GOFLAGS=-mod=mod GOPROXY=off GOSUMDB=off GOTOOLCHAIN=local GOWORK=off CGO_ENABLED=0
PROP=${1:?property id}
TIER=${2:-${VERIF_TIER:-quick}}
if [ ! -x bin/kvcheck ] || [ -n "$(find kvcheck -name '*.go' -newer bin/kvcheck 2>/dev/null | head -1)" ]; then
  KV_SKIP_UNIT=1 ./setup.sh >/dev/null 2>&1 || { echo "VIOLATION property=$PROP replay=- undecided: analyzer does not build"; exit 1; }
fi
if [ "$PROP" = replay ]; then
  exec ./bin/kvcheck -replay "${2:?replay file}" -repo "${KV_REPO:-/repo}" -verif "$(pwd)"
fi
exec ./bin/kvcheck -prop "$PROP" -tier "$TIER" -repo "${KV_REPO:-/repo}" -verif "$(pwd)"
