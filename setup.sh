#!/bin/bash
# builds the analyzer offline from the module cache (golang.org/x/tools v0.29.0) and runs the unit tests of
# its analyses (small self-contained programs; a failing analysis makes every verdict untrustworthy)
set -e
cd "$(dirname "$0")/kvcheck"
export GOFLAGS=-mod=mod GOPROXY=off GOSUMDB=off GOTOOLCHAIN=local GOWORK=off CGO_ENABLED=0
mkdir -p ../bin ../evidence/replay
go build -o ../bin/kvcheck .
if [ -z "${KV_SKIP_UNIT:-}" ]; then
  if ! go test ./engine/ ./rules/ > /tmp/kvcheck-unit.$$ 2>&1; then cat /tmp/kvcheck-unit.$$; rm -f /tmp/kvcheck-unit.$$; echo "unit tests of the analyses failed"; exit 1; fi
  tail -3 /tmp/kvcheck-unit.$$; rm -f /tmp/kvcheck-unit.$$
fi
echo "kvcheck built"
