#!/bin/bash
# builds the analyzer offline from the module cache (golang.org/x/tools v0.29.0)
set -e
cd "$(dirname "$0")/kvcheck"
export GOFLAGS=-mod=mod GOPROXY=off GOSUMDB=off GOTOOLCHAIN=local GOWORK=off CGO_ENABLED=0
mkdir -p ../bin ../evidence/replay
go build -o ../bin/kvcheck .
go vet ./... >/dev/null 2>&1 || true
echo "kvcheck built"
