package engine

import (
	"fmt"
	"go/types"
	"sort"

	"golang.org/x/tools/go/ssa"
)

// Must-hold lock sets. A lock is identified by the struct field (or local variable) holding the
// mutex, not by the object instance. Lock/RLock add, Unlock/RUnlock remove, a deferred Unlock keeps
// the lock until the function returns. Unexported functions inherit the locks held at ALL their
// static call sites (fixed point); closures inherit nothing (they may run later or concurrently).

type LockSet map[string]bool

type lockInfo struct {
	in map[*ssa.BasicBlock]LockSet
}

func lockKeyOf(addr ssa.Value) string {
	switch a := addr.(type) {
	case *ssa.FieldAddr:
		f := FieldOf(a)
		if f.Embedded() || isMutexType(f.Type()) {
			owner := a.X.Type()
			if pt, ok := owner.Underlying().(*types.Pointer); ok {
				owner = pt.Elem()
			}
			return types.TypeString(owner, nil) + "." + f.Name()
		}
	case *ssa.Alloc:
		return fmt.Sprintf("local %s@%p", a.Comment, a)
	case *ssa.FreeVar:
		return "captured " + a.Name()
	case *ssa.Global:
		return "global " + a.Name()
	}
	return ""
}

func isMutexType(t types.Type) bool {
	n, ok := t.(*types.Named)
	if !ok || n.Obj().Pkg() == nil || n.Obj().Pkg().Path() != "sync" {
		return false
	}
	return n.Obj().Name() == "Mutex" || n.Obj().Name() == "RWMutex"
}

// lockOp classifies a call: +1 acquire, -1 release, 0 other; and returns the lock key.
func lockOp(c *ssa.CallCommon) (int, string) {
	o := CalleeObj(c)
	if o == nil || o.Pkg() == nil || o.Pkg().Path() != "sync" || len(c.Args) == 0 {
		return 0, ""
	}
	sig := o.Type().(*types.Signature)
	if sig.Recv() == nil {
		return 0, ""
	}
	k := lockKeyOf(c.Args[0])
	if k == "" {
		return 0, ""
	}
	switch o.Name() {
	case "Lock", "RLock":
		return +1, k
	case "Unlock", "RUnlock":
		return -1, k
	}
	return 0, ""
}

func (p *Prog) lockInfoOf(fn *ssa.Function, entry LockSet) *lockInfo {
	li := &lockInfo{in: map[*ssa.BasicBlock]LockSet{}}
	if len(fn.Blocks) == 0 {
		return li
	}
	copySet := func(s LockSet) LockSet {
		r := LockSet{}
		for k := range s {
			r[k] = true
		}
		return r
	}
	out := map[*ssa.BasicBlock]LockSet{}
	li.in[fn.Blocks[0]] = copySet(entry)
	// blocks that cannot be reached from the entry (dead branches) must not weaken the intersection
	reach := map[*ssa.BasicBlock]bool{}
	var mark func(b *ssa.BasicBlock)
	mark = func(b *ssa.BasicBlock) {
		if reach[b] {
			return
		}
		reach[b] = true
		for _, s := range b.Succs {
			mark(s)
		}
	}
	mark(fn.Blocks[0])
	changed := true
	for iter := 0; changed && iter < 50; iter++ {
		changed = false
		for _, b := range fn.Blocks {
			var in LockSet
			if b.Index == 0 {
				in = copySet(entry)
			} else {
				first := true
				for _, pr := range b.Preds {
					if !reach[pr] {
						continue
					}
					po, ok := out[pr]
					if !ok {
						continue // not yet computed: optimistic
					}
					if first {
						in = copySet(po)
						first = false
					} else {
						for k := range in {
							if !po[k] {
								delete(in, k)
							}
						}
					}
				}
				if !reach[b] {
					li.in[b] = LockSet{}
					continue
				}
				if first {
					// no predecessor evaluated yet: stay optimistic (⊤) and come back
					changed = true
					continue
				}
			}
			li.in[b] = in
			cur := copySet(in)
			for _, ins := range b.Instrs {
				if call, ok := ins.(*ssa.Call); ok {
					switch op, k := lockOp(call.Common()); op {
					case +1:
						cur[k] = true
					case -1:
						delete(cur, k)
					}
				}
			}
			if old, ok := out[b]; !ok || !sameSet(old, cur) {
				out[b] = cur
				changed = true
			}
		}
	}
	return li
}

func sameSet(a, b LockSet) bool {
	if len(a) != len(b) {
		return false
	}
	for k := range a {
		if !b[k] {
			return false
		}
	}
	return true
}

// HeldAt returns the locks certainly held when instruction 'at' executes.
func (p *Prog) HeldAt(at ssa.Instruction) LockSet {
	fn := at.Parent()
	entry := p.entryLocks(fn, map[*ssa.Function]bool{})
	li := p.lockInfoOf(fn, entry)
	cur := LockSet{}
	for k := range li.in[at.Block()] {
		cur[k] = true
	}
	for _, ins := range at.Block().Instrs {
		if ins == at {
			break
		}
		if call, ok := ins.(*ssa.Call); ok {
			switch op, k := lockOp(call.Common()); op {
			case +1:
				cur[k] = true
			case -1:
				delete(cur, k)
			}
		}
	}
	return cur
}

// entryLocks: locks held at every static call site of an unexported, non-closure function.
func (p *Prog) entryLocks(fn *ssa.Function, stack map[*ssa.Function]bool) LockSet {
	if fn.Parent() != nil || stack[fn] {
		return LockSet{}
	}
	if o, ok := fn.Object().(*types.Func); !ok || o.Exported() {
		return LockSet{}
	}
	stack[fn] = true
	defer delete(stack, fn)
	var res LockSet
	sites := 0
	for _, caller := range p.Funcs {
		for _, b := range caller.Blocks {
			for _, in := range b.Instrs {
				ci, ok := in.(ssa.CallInstruction)
				if !ok {
					continue
				}
				if ci.Common().StaticCallee() != fn {
					// used as a value somewhere: unknown callers
					for _, op := range in.Operands(nil) {
						if *op == ssa.Value(fn) {
							return LockSet{}
						}
					}
					continue
				}
				if _, isGo := in.(*ssa.Go); isGo {
					return LockSet{}
				}
				sites++
				entry := p.entryLocks(caller, stack)
				li := p.lockInfoOf(caller, entry)
				cur := LockSet{}
				for k := range li.in[b] {
					cur[k] = true
				}
				for _, ins := range b.Instrs {
					if ins == in {
						break
					}
					if call, ok := ins.(*ssa.Call); ok {
						switch op, k := lockOp(call.Common()); op {
						case +1:
							cur[k] = true
						case -1:
							delete(cur, k)
						}
					}
				}
				if res == nil {
					res = cur
				} else {
					for k := range res {
						if !cur[k] {
							delete(res, k)
						}
					}
				}
			}
		}
	}
	if sites == 0 || res == nil {
		return LockSet{}
	}
	return res
}

// Names lists a lock set.
func (s LockSet) Names() []string {
	var out []string
	for k := range s {
		out = append(out, k)
	}
	sort.Strings(out)
	return out
}

// LockOp classifies a call for rules: +1 acquire, -1 release, 0 other; with the key identifying the mutex.
func LockOp(c *ssa.CallCommon) (int, string) { return lockOp(c) }
