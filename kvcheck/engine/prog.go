package engine

import (
	"fmt"
	"go/types"
	"strings"

	"golang.org/x/tools/go/ssa"
)

// problem records an unresolved anchor; the run is then "undecided".
func (p *Prog) problem(format string, a ...interface{}) {
	p.Problems = append(p.Problems, fmt.Sprintf(format, a...))
}

// Problem lets rules record a reason for "undecided".
func (p *Prog) Problem(format string, a ...interface{}) { p.problem(format, a...) }

func full(pkg string) string {
	if strings.HasPrefix(pkg, "pkg/") || strings.HasPrefix(pkg, "cmd/") {
		return ModPath + "/" + pkg
	}
	return pkg
}

// TypesPkg returns the types.Package for a kvass-relative ("pkg/shard") or absolute import path.
func (p *Prog) TypesPkg(pkg string) *types.Package {
	path := full(pkg)
	if sp := p.SSAPkgs[path]; sp != nil {
		return sp.Pkg
	}
	// an imported, non-root package
	for _, pk := range p.Pkgs {
		for ip, imp := range pk.Imports {
			if ip == path && imp.Types != nil {
				return imp.Types
			}
		}
	}
	// search transitively through types imports
	seen := map[*types.Package]bool{}
	var walk func(t *types.Package) *types.Package
	walk = func(t *types.Package) *types.Package {
		if t == nil || seen[t] {
			return nil
		}
		seen[t] = true
		if t.Path() == path {
			return t
		}
		for _, i := range t.Imports() {
			if r := walk(i); r != nil {
				return r
			}
		}
		return nil
	}
	for _, pk := range p.Pkgs {
		if r := walk(pk.Types); r != nil {
			return r
		}
	}
	p.problem("anchor package %s not found", path)
	return nil
}

// Named resolves a named type.
func (p *Prog) Named(pkg, name string) *types.Named {
	tp := p.TypesPkg(pkg)
	if tp == nil {
		return nil
	}
	o := tp.Scope().Lookup(name)
	tn, ok := o.(*types.TypeName)
	if !ok {
		p.problem("anchor type %s.%s not found", pkg, name)
		return nil
	}
	n, _ := tn.Type().(*types.Named)
	if n == nil {
		p.problem("anchor type %s.%s is not a named type", pkg, name)
	}
	return n
}

// Field resolves a struct field object (including promoted through embedding is NOT followed).
func (p *Prog) Field(pkg, typ, field string) *types.Var {
	n := p.Named(pkg, typ)
	if n == nil {
		return nil
	}
	st, ok := n.Underlying().(*types.Struct)
	if !ok {
		p.problem("anchor %s.%s is not a struct", pkg, typ)
		return nil
	}
	for i := 0; i < st.NumFields(); i++ {
		if st.Field(i).Name() == field {
			return st.Field(i)
		}
	}
	p.problem("anchor field %s.%s.%s not found", pkg, typ, field)
	return nil
}

// Method resolves a method's types.Func (pointer or value receiver, or interface method).
func (p *Prog) Method(pkg, typ, method string) *types.Func {
	n := p.Named(pkg, typ)
	if n == nil {
		return nil
	}
	obj, _, _ := types.LookupFieldOrMethod(types.NewPointer(n), true, n.Obj().Pkg(), method)
	if f, ok := obj.(*types.Func); ok {
		return f
	}
	obj, _, _ = types.LookupFieldOrMethod(n, true, n.Obj().Pkg(), method)
	if f, ok := obj.(*types.Func); ok {
		return f
	}
	p.problem("anchor method %s.%s.%s not found", pkg, typ, method)
	return nil
}

// FuncObj resolves a package-level function object.
func (p *Prog) FuncObj(pkg, name string) *types.Func {
	tp := p.TypesPkg(pkg)
	if tp == nil {
		return nil
	}
	f, ok := tp.Scope().Lookup(name).(*types.Func)
	if !ok {
		p.problem("anchor func %s.%s not found", pkg, name)
		return nil
	}
	return f
}

// Object resolves any package-level object (const, var).
func (p *Prog) Object(pkg, name string) types.Object {
	tp := p.TypesPkg(pkg)
	if tp == nil {
		return nil
	}
	o := tp.Scope().Lookup(name)
	if o == nil {
		p.problem("anchor object %s.%s not found", pkg, name)
	}
	return o
}

// SSAFunc returns the SSA function with a body for a types.Func, or nil.
func (p *Prog) SSAFunc(f *types.Func) *ssa.Function {
	if f == nil {
		return nil
	}
	return p.SSA.FuncValue(f)
}

// InPkg reports whether fn belongs to the kvass-relative package.
func InPkg(fn *ssa.Function, pkg string) bool {
	for fn.Parent() != nil {
		fn = fn.Parent()
	}
	return fn.Pkg != nil && fn.Pkg.Pkg.Path() == full(pkg)
}

// PkgOf returns the package path of a (possibly anonymous) function.
func PkgOf(fn *ssa.Function) string {
	for fn.Parent() != nil {
		fn = fn.Parent()
	}
	if fn.Pkg == nil {
		return ""
	}
	return fn.Pkg.Pkg.Path()
}

// Outermost returns the named function enclosing fn.
func Outermost(fn *ssa.Function) *ssa.Function {
	for fn.Parent() != nil {
		fn = fn.Parent()
	}
	return fn
}

// FuncName is a readable, stable name for reports: "(*Coordinator).gcTargets" or "pkg.f$1".
func FuncName(fn *ssa.Function) string {
	s := fn.String()
	s = strings.ReplaceAll(s, ModPath+"/", "")
	return s
}

// CallsTo enumerates every call/go/defer instruction in kvass functions whose callee
// (static, or interface method) is the given types.Func.
func (p *Prog) CallsTo(target *types.Func) []ssa.CallInstruction {
	var out []ssa.CallInstruction
	if target == nil {
		return nil
	}
	for _, fn := range p.Funcs {
		for _, b := range fn.Blocks {
			for _, in := range b.Instrs {
				ci, ok := in.(ssa.CallInstruction)
				if !ok {
					continue
				}
				if CalleeObj(ci.Common()) == target {
					out = append(out, ci)
				}
			}
		}
	}
	return out
}

// CalleeObj returns the called function object: static callee, interface method, or nil for dynamic calls.
func CalleeObj(c *ssa.CallCommon) *types.Func {
	if c.IsInvoke() {
		return c.Method
	}
	if sc := c.StaticCallee(); sc != nil {
		if o, ok := sc.Object().(*types.Func); ok {
			return o
		}
		return nil
	}
	return nil
}

// CalleeIs reports whether the call's callee is pkgpath.name (function) or pkgpath.(T).name (method; T without *).
func CalleeIs(c *ssa.CallCommon, pkgpath, recv, name string) bool {
	o := CalleeObj(c)
	if o == nil || o.Name() != name || o.Pkg() == nil || o.Pkg().Path() != pkgpath {
		return false
	}
	sig := o.Type().(*types.Signature)
	if recv == "" {
		return sig.Recv() == nil
	}
	if sig.Recv() == nil {
		return false
	}
	t := sig.Recv().Type()
	if pt, ok := t.(*types.Pointer); ok {
		t = pt.Elem()
	}
	n, ok := t.(*types.Named)
	return ok && n.Obj().Name() == recv
}

// FieldOf returns the struct field object selected by a FieldAddr or Field instruction.
func FieldOf(v ssa.Value) *types.Var {
	switch v := v.(type) {
	case *ssa.FieldAddr:
		t := v.X.Type().Underlying().(*types.Pointer).Elem().Underlying().(*types.Struct)
		return t.Field(v.Field)
	case *ssa.Field:
		t := v.X.Type().Underlying().(*types.Struct)
		return t.Field(v.Field)
	}
	return nil
}
