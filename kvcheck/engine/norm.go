package engine

// Normalisation: calls of functions that the reference tree does not have are expanded at their call
// sites before the rules look at the program. The rules were written and confirmed on the reference
// tree; a later change that moves a condition, a loop body or a few statements into a new helper (or
// splits a long function) leaves the behaviour as it is but hides the construct a rule reasons about
// behind a call. Expanding exactly the helpers that are new brings the program back to the vocabulary
// of the reference tree; functions of the reference tree are never expanded (rules anchor on them).
//
// The expansion is done on the syntax tree (the type-checked program is printed again and re-loaded
// through an overlay; nothing is written to the repository). It is deliberately conservative: a call is
// expanded only in statement positions where evaluation order is evident, only for callees without
// defer/recover/labels/variadic parameters, and if the re-loaded program does not type-check the
// un-normalised program is analysed instead (recorded in the evidence).

import (
	"bytes"
	_ "embed"
	"fmt"
	"go/ast"
	"go/parser"
	"go/printer"
	"go/token"
	"go/types"
	"reflect"
	"sort"
	"strings"

	"golang.org/x/tools/go/ast/astutil"
	"golang.org/x/tools/go/packages"
)

//go:embed reference_funcs.txt
var referenceFuncsTxt string

// ReferenceFuncs is the set of functions and methods of the reference tree ("pkgpath.Name" or "pkgpath.(Recv).Name").
func ReferenceFuncs() map[string]bool {
	m := map[string]bool{}
	for k := range referenceTable().funcs {
		m[k] = true
	}
	return m
}

// refTable: the declarations of the reference tree: functions and methods with their signatures, struct fields with
// their types. Lines of reference_funcs.txt: "func <key> <signature>" and "field <pkg>.<Type>.<name> <type>".
type refTable struct {
	funcs  map[string]string
	fields map[string]string
}

func referenceTable() *refTable {
	t := &refTable{funcs: map[string]string{}, fields: map[string]string{}}
	for _, l := range strings.Split(referenceFuncsTxt, "\n") {
		l = strings.TrimSpace(l)
		if l == "" || strings.HasPrefix(l, "#") {
			continue
		}
		parts := strings.SplitN(l, "\t", 3)
		switch {
		case len(parts) == 3 && parts[0] == "func":
			t.funcs[parts[1]] = parts[2]
		case len(parts) == 3 && parts[0] == "field":
			t.fields[parts[1]] = parts[2]
		case len(parts) == 1:
			t.funcs[parts[0]] = ""
		}
	}
	return t
}

// TypeKey renders a type with full package paths (the form used in reference_funcs.txt).
func TypeKey(t types.Type) string {
	return types.TypeString(t, func(p *types.Package) string { return p.Path() })
}

// ReferenceLines lists the declarations of the loaded packages in the form of reference_funcs.txt.
func ReferenceLines(pkgs []*packages.Package) []string {
	var out []string
	for _, pk := range pkgs {
		for _, f := range pk.Syntax {
			for _, d := range f.Decls {
				switch x := d.(type) {
				case *ast.FuncDecl:
					sig := ""
					if obj, ok := pk.TypesInfo.Defs[x.Name].(*types.Func); ok {
						s := obj.Type().(*types.Signature)
						sig = TypeKey(types.NewSignatureType(nil, nil, nil, s.Params(), s.Results(), s.Variadic()))
					}
					out = append(out, "func\t"+FuncKey(pk.PkgPath, x)+"\t"+sig)
				case *ast.GenDecl:
					for _, sp := range x.Specs {
						ts, ok := sp.(*ast.TypeSpec)
						if !ok {
							continue
						}
						st, ok := ts.Type.(*ast.StructType)
						if !ok {
							continue
						}
						for _, fl := range st.Fields.List {
							for _, nm := range fl.Names {
								if obj := pk.TypesInfo.Defs[nm]; obj != nil {
									out = append(out, "field\t"+pk.PkgPath+"."+ts.Name.Name+"."+nm.Name+"\t"+TypeKey(obj.Type()))
								}
							}
						}
					}
				}
			}
		}
	}
	sort.Strings(out)
	return out
}

// undoRenames gives declarations that were renamed since the reference tree their reference names back: a function
// (method, struct field) of the reference tree that is missing while exactly one new function of the same package and
// receiver (field of the same struct) has its signature (type) - and that new one matches no other missing one.
// It returns the renames applied ("new -> reference").
func (n *normalizer) undoRenames(pkgs []*packages.Package, ref *refTable) []string {
	var applied []string
	type decl struct {
		group, name, sig string
		obj              types.Object
		pk               *packages.Package
	}
	var cur []decl
	for _, pk := range pkgs {
		for _, f := range pk.Syntax {
			for _, d := range f.Decls {
				switch x := d.(type) {
				case *ast.FuncDecl:
					obj, ok := pk.TypesInfo.Defs[x.Name].(*types.Func)
					if !ok {
						continue
					}
					s := obj.Type().(*types.Signature)
					key := FuncKey(pk.PkgPath, x)
					cur = append(cur, decl{group: "func " + strings.TrimSuffix(key, x.Name.Name), name: x.Name.Name,
						sig: TypeKey(types.NewSignatureType(nil, nil, nil, s.Params(), s.Results(), s.Variadic())), obj: obj, pk: pk})
				case *ast.GenDecl:
					for _, sp := range x.Specs {
						ts, ok := sp.(*ast.TypeSpec)
						if !ok {
							continue
						}
						st, ok := ts.Type.(*ast.StructType)
						if !ok {
							continue
						}
						for _, fl := range st.Fields.List {
							for _, nm := range fl.Names {
								if obj := pk.TypesInfo.Defs[nm]; obj != nil {
									cur = append(cur, decl{group: "field " + pk.PkgPath + "." + ts.Name.Name + ".", name: nm.Name, sig: TypeKey(obj.Type()), obj: obj, pk: pk})
								}
							}
						}
					}
				}
			}
		}
	}
	have := map[string]bool{}
	for _, d := range cur {
		have[d.group+d.name] = true
	}
	// missing reference declarations per group
	missing := map[string][][2]string{} // group -> (name, sig)
	add := func(kind string, m map[string]string) {
		for k, sig := range m {
			i := strings.LastIndex(k, ".")
			if i < 0 {
				continue
			}
			group, name := kind+" "+k[:i+1], k[i+1:]
			if !have[group+name] && sig != "" {
				missing[group] = append(missing[group], [2]string{name, sig})
			}
		}
	}
	add("func", ref.funcs)
	add("field", ref.fields)
	inRef := func(d decl) bool {
		k := strings.SplitN(d.group, " ", 2)[1] + d.name
		if strings.HasPrefix(d.group, "func ") {
			_, ok := ref.funcs[k]
			return ok
		}
		_, ok := ref.fields[k]
		return ok
	}
	renames := map[types.Object]string{}
	for group, ms := range missing {
		for _, m := range ms {
			var cands []decl
			for _, d := range cur {
				if d.group == group && d.sig == m[1] && !inRef(d) {
					cands = append(cands, d)
				}
			}
			if len(cands) != 1 {
				continue
			}
			// the candidate must not fit another missing declaration of the group as well
			fits := 0
			for _, m2 := range ms {
				if m2[1] == cands[0].sig {
					fits++
				}
			}
			if fits != 1 {
				continue
			}
			renames[cands[0].obj] = m[0]
			applied = append(applied, strings.SplitN(group, " ", 2)[1]+cands[0].name+" -> "+m[0])
		}
	}
	if len(renames) == 0 {
		return nil
	}
	for _, pk := range pkgs {
		for _, f := range pk.Syntax {
			ch := false
			ast.Inspect(f, func(nd ast.Node) bool {
				id, ok := nd.(*ast.Ident)
				if !ok {
					return true
				}
				obj := pk.TypesInfo.Defs[id]
				if obj == nil {
					obj = pk.TypesInfo.Uses[id]
				}
				if nn, ok := renames[obj]; ok && obj != nil {
					id.Name = nn
					ch = true
				}
				return true
			})
			if ch {
				n.changed[f] = true
			}
		}
	}
	sort.Strings(applied)
	return applied
}

// FuncKey names a declared function the way reference_funcs.txt does.
func FuncKey(pkgPath string, d *ast.FuncDecl) string {
	if d.Recv != nil && len(d.Recv.List) == 1 {
		t := d.Recv.List[0].Type
		if s, ok := t.(*ast.StarExpr); ok {
			t = s.X
		}
		if ix, ok := t.(*ast.IndexExpr); ok {
			t = ix.X
		}
		if id, ok := t.(*ast.Ident); ok {
			return pkgPath + ".(" + id.Name + ")." + d.Name.Name
		}
	}
	return pkgPath + "." + d.Name.Name
}

type normDecl struct {
	body *ast.BlockStmt // copy of the body as written (the declaration itself is rewritten in place)
	decl *ast.FuncDecl
	pkg  *packages.Package
	file *ast.File
	key  string
}

type normalizer struct {
	fset    *token.FileSet
	known   map[string]bool
	decls   map[*types.Func]*normDecl
	origOf  map[ast.Node]ast.Node
	counter int
	curPkg  *packages.Package
	curFile *ast.File
	changed map[*ast.File]bool
	curDecl *normDecl           // the declaration whose body is being rewritten
	encl    []ast.Stmt          // enclosing for/range/switch/select statements of the statement being rewritten
	labels  map[ast.Stmt]string // statements that must carry a label (a moved break/continue refers to them)
	Inlined map[string]int
	Skipped map[string]string
}

// normalize returns an overlay (file name -> new content) for the files in which something was expanded.
func normalize(pkgs []*packages.Package, fset *token.FileSet, known map[string]bool, ref *refTable) (ov map[string][]byte, inlined map[string]int, skipped map[string]string, err error) {
	defer func() {
		if r := recover(); r != nil {
			ov, err = nil, fmt.Errorf("normalisation failed: %v", r)
		}
	}()
	n := &normalizer{fset: fset, known: known, decls: map[*types.Func]*normDecl{}, origOf: map[ast.Node]ast.Node{}, changed: map[*ast.File]bool{}, labels: map[ast.Stmt]string{}, Inlined: map[string]int{}, Skipped: map[string]string{}}
	if ref != nil {
		for _, rn := range n.undoRenames(pkgs, ref) {
			n.Skipped["renamed back: "+rn] = "declaration of the reference tree under a new name"
		}
	}
	unknown := len(n.changed)
	for _, pk := range pkgs {
		for _, f := range pk.Syntax {
			for _, d := range f.Decls {
				fd, ok := d.(*ast.FuncDecl)
				if !ok || fd.Body == nil {
					continue
				}
				obj, _ := pk.TypesInfo.Defs[fd.Name].(*types.Func)
				if obj == nil {
					continue
				}
				k := FuncKey(pk.PkgPath, fd)
				n.decls[obj] = &normDecl{decl: fd, pkg: pk, file: f, key: k}
				if !known[k] {
					unknown++
				}
			}
		}
	}
	if unknown == 0 {
		return nil, nil, nil, nil
	}
	for _, d := range n.decls {
		d.body = n.clone(d.decl.Body).(*ast.BlockStmt)
	}
	for _, pk := range pkgs {
		for _, f := range pk.Syntax {
			n.curPkg, n.curFile = pk, f
			for _, d := range f.Decls {
				fd, ok := d.(*ast.FuncDecl)
				if !ok || fd.Body == nil {
					continue
				}
				obj, _ := pk.TypesInfo.Defs[fd.Name].(*types.Func)
				stack := map[*types.Func]bool{}
				if obj != nil {
					stack[obj] = true
				}
				n.curDecl = n.decls[obj]
				fd.Body.List = n.stmts(fd.Body.List, pk.TypesInfo, stack, 0)
			}
		}
	}
	// helpers whose every use was expanded are dropped (rules must not see an orphan copy of the code)
	for _, d := range n.decls {
		if n.known[d.key] || n.Inlined[d.key] == 0 {
			continue
		}
		name := d.decl.Name.Name
		used := false
		for _, pk := range pkgs {
			if pk != d.pkg && !ast.IsExported(name) {
				continue
			}
			for _, f := range pk.Syntax {
				for _, dd := range f.Decls {
					if dd == ast.Decl(d.decl) {
						continue
					}
					ast.Inspect(dd, func(nd ast.Node) bool {
						if id, ok := nd.(*ast.Ident); ok && id.Name == name {
							used = true
						}
						return !used
					})
				}
			}
		}
		if used {
			continue
		}
		for i, dd := range d.file.Decls {
			if dd == ast.Decl(d.decl) {
				d.file.Decls = append(d.file.Decls[:i:i], d.file.Decls[i+1:]...)
				n.changed[d.file] = true
				break
			}
		}
	}
	ov = map[string][]byte{}
	for _, pk := range pkgs {
		for i, f := range pk.Syntax {
			if !n.changed[f] {
				continue
			}
			// imports that only a dropped helper used
			for _, im := range append([]*ast.ImportSpec(nil), f.Imports...) {
				path := strings.Trim(im.Path.Value, `"`)
				if im.Name != nil && (im.Name.Name == "_" || im.Name.Name == ".") {
					continue
				}
				local := ""
				if im.Name != nil {
					local = im.Name.Name
				} else if ip := pk.Imports[path]; ip != nil {
					local = ip.Name
				}
				if local == "" {
					continue
				}
				used := false
				ast.Inspect(f, func(nd ast.Node) bool {
					if sel, ok := nd.(*ast.SelectorExpr); ok {
						if id, ok := sel.X.(*ast.Ident); ok && id.Name == local {
							used = true
						}
					}
					return !used
				})
				if !used {
					if im.Name != nil {
						astutil.DeleteNamedImport(fset, f, im.Name.Name, path)
					} else {
						astutil.DeleteImport(fset, f, path)
					}
				}
			}
			f.Comments = nil
			var buf bytes.Buffer
			cfg := printer.Config{Mode: printer.UseSpaces | printer.TabIndent | printer.SourcePos, Tabwidth: 8}
			if err := cfg.Fprint(&buf, fset, f); err != nil {
				return nil, nil, nil, fmt.Errorf("print %s: %v", pk.CompiledGoFiles[i], err)
			}
			ov[pk.CompiledGoFiles[i]] = buf.Bytes()
		}
	}
	return ov, n.Inlined, n.Skipped, nil
}

func (n *normalizer) orig(x ast.Node) ast.Node {
	for {
		o, ok := n.origOf[x]
		if !ok {
			return x
		}
		x = o
	}
}

func (n *normalizer) typeOf(info *types.Info, e ast.Expr) types.Type {
	if tv, ok := info.Types[n.orig(e).(ast.Expr)]; ok {
		return tv.Type
	}
	return nil
}

func unparen(e ast.Expr) ast.Expr {
	for {
		p, ok := e.(*ast.ParenExpr)
		if !ok {
			return e
		}
		e = p.X
	}
}

// callee resolves a static call to a declared kvass function that is not part of the reference tree.
func (n *normalizer) callee(info *types.Info, call *ast.CallExpr) (*types.Func, *normDecl) {
	var obj types.Object
	switch f := unparen(call.Fun).(type) {
	case *ast.Ident:
		obj = info.Uses[n.orig(f).(*ast.Ident)]
	case *ast.SelectorExpr:
		if sel, ok := info.Selections[n.orig(f).(*ast.SelectorExpr)]; ok {
			if sel.Kind() != types.MethodVal || len(sel.Index()) != 1 {
				return nil, nil
			}
			if _, isIface := sel.Recv().Underlying().(*types.Interface); isIface {
				return nil, nil
			}
			obj = sel.Obj()
		} else {
			obj = info.Uses[n.orig(f.Sel).(*ast.Ident)]
		}
	}
	fn, _ := obj.(*types.Func)
	if fn == nil {
		return nil, nil
	}
	d := n.decls[fn]
	if d == nil || n.known[d.key] {
		return nil, nil
	}
	return fn, d
}

// stmts rewrites a statement list; nested lists first.
func (n *normalizer) stmts(list []ast.Stmt, info *types.Info, stack map[*types.Func]bool, depth int) []ast.Stmt {
	var out []ast.Stmt
	for i := 0; i < len(list); i++ {
		list[i] = n.exprInline(list[i], info, stack)
		s := list[i]
		// "v, err := helper(..)" directly followed by "if <test of v or err> { .. }"
		if as, ok := s.(*ast.AssignStmt); ok && i+1 < len(list) && depth <= 3 {
			if is, ok := list[i+1].(*ast.IfStmt); ok && is.Init == nil && n.labels[is] == "" && testsOnly(is.Cond, as.Lhs) {
				if len(as.Rhs) == 1 {
					// helper calls among the arguments come first (the expansion below needs the call itself)
					out = append(out, n.hoistArgs(as.Rhs[0], info, stack, depth)...)
					if call, isCall := unparen(as.Rhs[0]).(*ast.CallExpr); isCall {
						if fn, _ := n.callee(info, call); fn != nil {
							n.nested(is, info, stack, depth)
							if rep, ok := n.assignThenIf(as, is, false, info, stack, depth); ok {
								out = append(out, rep...)
								i++
								continue
							}
							// the if statement was normalised already; emit the assignment and it the ordinary way
							out = append(out, n.stmt(as, info, stack, depth)...)
							rep := n.stmt(is, info, stack, depth)
							if lb := n.labels[is]; lb != "" {
								for k, r := range rep {
									if r == ast.Stmt(is) {
										rep[k] = &ast.LabeledStmt{Label: ast.NewIdent(lb), Colon: is.Pos(), Stmt: is}
									}
								}
							}
							out = append(out, rep...)
							i++
							continue
						}
					}
				}
			}
		}
		n.nested(s, info, stack, depth)
		rep := n.stmt(s, info, stack, depth)
		if lb := n.labels[s]; lb != "" {
			for i, r := range rep {
				if r == s {
					rep[i] = &ast.LabeledStmt{Label: ast.NewIdent(lb), Colon: s.Pos(), Stmt: s}
				}
			}
		}
		out = append(out, rep...)
	}
	return out
}

// exprInline replaces, anywhere in the statement, calls of helpers whose body is a single "return <expression>" by
// that expression (arguments substituted). Only with plain operands as arguments - they may be repeated or dropped
// without changing what is evaluated - and only for helpers whose expression calls nothing (so that evaluating it in
// place, possibly not at all under && / ||, has no effect that could be missed).
func (n *normalizer) exprInline(s ast.Stmt, info *types.Info, stack map[*types.Func]bool) ast.Stmt {
	res := astutil.Apply(s, nil, func(c *astutil.Cursor) bool {
		call, ok := c.Node().(*ast.CallExpr)
		if !ok {
			return true
		}
		fn, d := n.callee(info, call)
		if fn == nil || stack[fn] || d.pkg != n.curPkg || call.Ellipsis.IsValid() {
			return true
		}
		if len(d.body.List) != 1 || d.decl.Type.TypeParams != nil {
			return true
		}
		ret, ok := d.body.List[0].(*ast.ReturnStmt)
		if !ok || len(ret.Results) != 1 {
			return true
		}
		sig := fn.Type().(*types.Signature)
		if sig.Variadic() || sig.Results().Len() != 1 {
			return true
		}
		pure := true
		ast.Inspect(ret.Results[0], func(nd ast.Node) bool {
			switch nd.(type) {
			case *ast.CallExpr, *ast.FuncLit:
				pure = false
			}
			return pure
		})
		if !pure {
			return true
		}
		// parameters -> arguments
		dinfo := d.pkg.TypesInfo
		subst := map[types.Object]ast.Expr{}
		var pn []*ast.Ident
		if d.decl.Type.Params != nil {
			for _, f := range d.decl.Type.Params.List {
				if len(f.Names) == 0 {
					pn = append(pn, nil)
				}
				pn = append(pn, f.Names...)
			}
		}
		if len(pn) != len(call.Args) {
			return true
		}
		for i, a := range call.Args {
			if !pureOperand(a) {
				return true
			}
			if pn[i] != nil && pn[i].Name != "_" {
				if obj := dinfo.Defs[pn[i]]; obj != nil {
					subst[obj] = a
				}
			}
		}
		if d.decl.Recv != nil {
			selx, ok := unparen(call.Fun).(*ast.SelectorExpr)
			if !ok || !pureOperand(selx.X) || len(d.decl.Recv.List) != 1 {
				return true
			}
			xt := n.typeOf(info, selx.X)
			if xt == nil || !types.Identical(xt, sig.Recv().Type()) {
				return true // an implicit & or * would be needed
			}
			if len(d.decl.Recv.List[0].Names) == 1 && d.decl.Recv.List[0].Names[0].Name != "_" {
				if obj := dinfo.Defs[d.decl.Recv.List[0].Names[0]]; obj != nil {
					subst[obj] = selx.X
				}
			}
		}
		e := n.clone(ret.Results[0]).(ast.Expr)
		bad := false
		e = astutil.Apply(e, nil, func(c2 *astutil.Cursor) bool {
			id, ok := c2.Node().(*ast.Ident)
			if !ok {
				return true
			}
			oid, _ := n.orig(id).(*ast.Ident)
			if oid == nil {
				return true
			}
			obj := dinfo.Uses[oid]
			if obj == nil {
				return true
			}
			if a, ok := subst[obj]; ok {
				c2.Replace(&ast.ParenExpr{X: n.clone(a).(ast.Expr), Lparen: id.Pos(), Rparen: id.End()})
				return true
			}
			if pk, isPkg := obj.(*types.PkgName); isPkg {
				name, good := n.ensureImport(pk.Imported())
				if !good {
					bad = true
				}
				id.Name = name
			}
			return true
		}).(ast.Expr)
		if bad {
			return true
		}
		c.Replace(&ast.ParenExpr{X: e, Lparen: call.Pos(), Rparen: call.End()})
		n.Inlined[d.key]++
		n.changed[n.curFile] = true
		return true
	})
	if st, ok := res.(ast.Stmt); ok {
		return st
	}
	return s
}

// labelOf returns the label of an enclosing statement, giving it one if it has none yet.
func (n *normalizer) labelOf(s ast.Stmt) string {
	if lb := n.labels[s]; lb != "" {
		return lb
	}
	n.counter++
	n.labels[s] = fmt.Sprintf("E_i%d", n.counter)
	return n.labels[s]
}

// enclosing returns the innermost enclosing loop, and the innermost enclosing statement a plain break leaves.
func (n *normalizer) enclosing() (loop, breakable ast.Stmt) {
	for i := len(n.encl) - 1; i >= 0; i-- {
		switch n.encl[i].(type) {
		case *ast.ForStmt, *ast.RangeStmt:
			if loop == nil {
				loop = n.encl[i]
			}
		}
		if breakable == nil {
			breakable = n.encl[i]
		}
	}
	return
}

// nested normalises the statement lists inside s (and function literals in its expressions).
func (n *normalizer) nested(s ast.Stmt, info *types.Info, stack map[*types.Func]bool, depth int) {
	switch x := s.(type) {
	case *ast.BlockStmt:
		x.List = n.stmts(x.List, info, stack, depth)
	case *ast.IfStmt:
		x.Body.List = n.stmts(x.Body.List, info, stack, depth)
		switch e := x.Else.(type) {
		case *ast.BlockStmt:
			e.List = n.stmts(e.List, info, stack, depth)
		case *ast.IfStmt:
			n.nested(e, info, stack, depth)
			if rep := n.stmt(e, info, stack, depth); len(rep) != 1 || rep[0] != ast.Stmt(e) {
				x.Else = &ast.BlockStmt{List: rep}
			}
		}
	case *ast.ForStmt:
		n.encl = append(n.encl, x)
		x.Body.List = n.stmts(x.Body.List, info, stack, depth)
		n.encl = n.encl[:len(n.encl)-1]
	case *ast.RangeStmt:
		n.encl = append(n.encl, x)
		x.Body.List = n.stmts(x.Body.List, info, stack, depth)
		n.encl = n.encl[:len(n.encl)-1]
	case *ast.SwitchStmt:
		n.encl = append(n.encl, x)
		for _, c := range x.Body.List {
			cc := c.(*ast.CaseClause)
			cc.Body = n.stmts(cc.Body, info, stack, depth)
		}
		n.encl = n.encl[:len(n.encl)-1]
	case *ast.TypeSwitchStmt:
		n.encl = append(n.encl, x)
		for _, c := range x.Body.List {
			cc := c.(*ast.CaseClause)
			cc.Body = n.stmts(cc.Body, info, stack, depth)
		}
		n.encl = n.encl[:len(n.encl)-1]
	case *ast.SelectStmt:
		n.encl = append(n.encl, x)
		for _, c := range x.Body.List {
			cc := c.(*ast.CommClause)
			cc.Body = n.stmts(cc.Body, info, stack, depth)
		}
		n.encl = n.encl[:len(n.encl)-1]
	case *ast.LabeledStmt:
		if lb := x.Label.Name; lb != "" {
			n.labels[x.Stmt] = "" // already labelled in the source: handled by keeping the statement inside its LabeledStmt
		}
		n.nested(x.Stmt, info, stack, depth)
	}
	// function literals anywhere in the statement's own expressions
	ast.Inspect(s, func(nd ast.Node) bool {
		switch y := nd.(type) {
		case *ast.FuncLit:
			save := n.encl
			n.encl = nil
			y.Body.List = n.stmts(y.Body.List, info, stack, depth)
			n.encl = save
			return false
		case *ast.BlockStmt:
			return nd == ast.Node(s) // nested statement lists were handled above
		case *ast.CaseClause, *ast.CommClause:
			return false
		}
		return true
	})
}

// pureOperand: evaluating the expression neither has an effect nor can be affected by a call evaluated after it.
func pureOperand(e ast.Expr) bool {
	switch x := e.(type) {
	case *ast.Ident, *ast.BasicLit:
		return true
	case *ast.ParenExpr:
		return pureOperand(x.X)
	case *ast.SelectorExpr:
		return pureOperand(x.X)
	case *ast.UnaryExpr:
		return (x.Op == token.AND || x.Op == token.NOT || x.Op == token.SUB) && pureOperand(x.X)
	case *ast.StarExpr:
		return pureOperand(x.X)
	}
	return false
}

// hoistArgs expands helper calls among the operands that the statement's expression evaluates first: arguments of
// its call, elements of a composite literal, in order, as long as everything evaluated before is a plain operand
// (so that the order of evaluation is kept).
func (n *normalizer) hoistArgs(top ast.Expr, info *types.Info, stack map[*types.Func]bool, depth int) []ast.Stmt {
	var pre []ast.Stmt
	var walk func(slot *ast.Expr, isTop bool) bool // false: stop, something opaque was evaluated
	walk = func(slot *ast.Expr, isTop bool) bool {
		switch x := (*slot).(type) {
		case *ast.ParenExpr:
			return walk(&x.X, isTop)
		case *ast.UnaryExpr:
			if x.Op == token.AND {
				if _, isLit := unparen(x.X).(*ast.CompositeLit); isLit {
					return walk(&x.X, false)
				}
			}
			if x.Op == token.NOT {
				return walk(&x.X, isTop)
			}
			return pureOperand(x)
		case *ast.IndexExpr:
			if !pureOperand(x.X) {
				return false
			}
			return walk(&x.Index, false)
		case *ast.BinaryExpr:
			if !walk(&x.X, false) {
				return false
			}
			if x.Op == token.LAND || x.Op == token.LOR {
				return false // the right operand is not always evaluated
			}
			return walk(&x.Y, false)
		case *ast.CompositeLit:
			for i := range x.Elts {
				if kv, ok := x.Elts[i].(*ast.KeyValueExpr); ok {
					if !walk(&kv.Value, false) {
						return false
					}
				} else if !walk(&x.Elts[i], false) {
					return false
				}
			}
			return true
		case *ast.CallExpr:
			if fn, _ := n.callee(info, x); fn != nil && !isTop && fn.Type().(*types.Signature).Results().Len() == 1 {
				for i := range x.Args {
					if !walk(&x.Args[i], false) {
						return false
					}
				}
				if p2, res, ok := n.inline(x, info, stack, depth, false); ok && len(res) == 1 {
					pre = append(pre, p2...)
					*slot = res[0]
					return true
				}
				return false
			}
			if !pureOperand(x.Fun) {
				return false
			}
			if tv, ok := info.Types[n.orig(x.Fun).(ast.Expr)]; ok && tv.IsType() {
				// a conversion: its operand is the thing evaluated
				if len(x.Args) == 1 {
					return walk(&x.Args[0], false)
				}
				return false
			}
			for i := range x.Args {
				if !walk(&x.Args[i], false) {
					return false
				}
			}
			return false // the call itself is opaque for whatever follows
		default:
			return pureOperand(x)
		}
	}
	e := top
	walk(&e, true)
	return pre
}

// stmt expands the call that s evaluates first, if it is one of the supported shapes.
func (n *normalizer) stmt(s ast.Stmt, info *types.Info, stack map[*types.Func]bool, depth int) []ast.Stmt {
	if depth > 3 {
		return []ast.Stmt{s}
	}
	// helper calls among the arguments of the statement's call
	var top ast.Expr
	switch x := s.(type) {
	case *ast.ExprStmt:
		top = x.X
	case *ast.AssignStmt:
		if len(x.Rhs) == 1 {
			top = x.Rhs[0]
		}
	case *ast.ReturnStmt:
		if len(x.Results) == 1 {
			top = x.Results[0]
		}
	case *ast.IfStmt:
		if x.Init == nil {
			top = x.Cond
		}
	}
	if top != nil {
		if pre := n.hoistArgs(top, info, stack, depth); len(pre) > 0 {
			return append(pre, n.stmt(s, info, stack, depth)...)
		}
	}
	switch x := s.(type) {
	case *ast.ExprStmt:
		if call, ok := unparen(x.X).(*ast.CallExpr); ok {
			if pre, _, ok := n.inline(call, info, stack, depth, false); ok {
				return pre
			}
		}
	case *ast.AssignStmt:
		if len(x.Rhs) == 1 && (x.Tok == token.ASSIGN || x.Tok == token.DEFINE) {
			if call, ok := unparen(x.Rhs[0]).(*ast.CallExpr); ok {
				simple := true
				for _, l := range x.Lhs {
					if !simpleLvalue(l) {
						simple = false
					}
				}
				if fn, _ := n.callee(info, call); fn != nil && simple {
					sig := fn.Type().(*types.Signature)
					var decls []ast.Stmt
					okDecl := sig.Results().Len() == len(x.Lhs)
					if okDecl && x.Tok == token.DEFINE {
						for i, l := range x.Lhs {
							id, isID := l.(*ast.Ident)
							if !isID || id.Name == "_" {
								continue
							}
							oid, _ := n.orig(id).(*ast.Ident)
							if oid == nil || info.Defs[oid] == nil {
								continue // already declared: plain assignment
							}
							te, good := n.typeExpr(sig.Results().At(i).Type())
							if !good {
								okDecl = false
								break
							}
							decls = append(decls, &ast.DeclStmt{Decl: &ast.GenDecl{Tok: token.VAR, TokPos: x.Pos(), Specs: []ast.Spec{&ast.ValueSpec{Names: []*ast.Ident{ast.NewIdent(id.Name)}, Type: te}}}})
						}
					}
					if okDecl {
						if pre, _, ok := n.inline(call, info, stack, depth, false, &retSink{assignTo: x.Lhs}); ok {
							return append(decls, pre...)
						}
					}
				}
			}
		}
		if len(x.Rhs) == 1 {
			if call, ok := unparen(x.Rhs[0]).(*ast.CallExpr); ok {
				if pre, res, ok := n.inline(call, info, stack, depth, false); ok && len(res) == len(x.Lhs) {
					x.Rhs = res
					return append(pre, x)
				} else if ok && len(res) != len(x.Lhs) {
					panic("result count mismatch")
				}
			}
		}
	case *ast.ReturnStmt:
		if len(x.Results) == 1 {
			if call, ok := unparen(x.Results[0]).(*ast.CallExpr); ok {
				if fn, _ := n.callee(info, call); fn != nil && fn.Type().(*types.Signature).Results().Len() > 0 {
					if pre, _, ok := n.inline(call, info, stack, depth, true, &retSink{ret: true}); ok {
						return pre
					}
				}
			}
		}
		if len(x.Results) == 1 {
			if call, ok := unparen(x.Results[0]).(*ast.CallExpr); ok {
				if pre, res, ok := n.inline(call, info, stack, depth, true); ok && len(res) > 0 {
					x.Results = res
					return append(pre, x)
				}
			}
		}
	case *ast.GoStmt:
		// "go helper(args)": the arguments are evaluated now, the body runs in the new goroutine
		if fn, _ := n.callee(info, x.Call); fn != nil {
			if pre, res, ok := n.inline(x.Call, info, stack, depth, false, &retSink{lit: true}); ok && len(res) == 1 {
				x.Call = res[0].(*ast.CallExpr)
				return append(pre, x)
			}
		}
	case *ast.DeferStmt:
		if fn, _ := n.callee(info, x.Call); fn != nil {
			if pre, res, ok := n.inline(x.Call, info, stack, depth, false, &retSink{lit: true}); ok && len(res) == 1 {
				x.Call = res[0].(*ast.CallExpr)
				return append(pre, x)
			}
		}
	case *ast.DeclStmt:
		if gd, ok := x.Decl.(*ast.GenDecl); ok && gd.Tok == token.VAR && len(gd.Specs) == 1 {
			if vs, ok := gd.Specs[0].(*ast.ValueSpec); ok && len(vs.Values) == 1 {
				if call, ok := unparen(vs.Values[0]).(*ast.CallExpr); ok {
					if pre, res, ok := n.inline(call, info, stack, depth, false); ok && len(res) == len(vs.Names) {
						vs.Values = res
						return append(pre, x)
					}
				}
			}
		}
	case *ast.RangeStmt:
		if call, ok := unparen(x.X).(*ast.CallExpr); ok {
			if pre, res, ok := n.inline(call, info, stack, depth, false); ok && len(res) == 1 {
				x.X = res[0]
				return append(pre, x)
			}
		}
	case *ast.IfStmt:
		// "if A || helper(..) { S } else { T }" / "if A && helper(..) { S } else { T }": the helper is evaluated only when A
		// does not decide; split the test so that the helper's call becomes a condition of its own (expanded below)
		if x.Init == nil {
			if rep, ok := n.splitShortCircuit(x, info, stack, depth); ok {
				return rep
			}
		} else if _, isAssign := x.Init.(*ast.AssignStmt); isAssign && n.wouldSplit(x, info, stack, depth) {
			// "if v, ok := m[k]; !ok || helper(..) {": the init statement moves in front, inside a block of its own
			init := x.Init
			x.Init = nil
			if rep, ok := n.splitShortCircuit(x, info, stack, depth); ok {
				n.changed[n.curFile] = true
				return []ast.Stmt{&ast.BlockStmt{Lbrace: x.Pos(), List: append([]ast.Stmt{init}, rep...), Rbrace: x.End()}}
			}
			x.Init = init
		}
		// "if v := helper(..); cond(v) { S }": the test moves to where the helper decides what v is
		if as, ok := x.Init.(*ast.AssignStmt); ok {
			init := x.Init
			x.Init = nil
			if rep, ok := n.assignThenIf(as, x, true, info, stack, depth); ok {
				return rep
			}
			x.Init = init
		}
		// "if x := helper(..); cond {" - the init statement is a statement like any other
		if x.Init != nil {
			if rep := n.stmt(x.Init, info, stack, depth); len(rep) != 1 || rep[0] != x.Init {
				x.Init = nil
				return []ast.Stmt{&ast.BlockStmt{Lbrace: x.Pos(), List: append(rep, n.stmt(x, info, stack, depth)...), Rbrace: x.End()}}
			}
		}
		// "if helper(..) { S } else { T }" with a helper that decides inside a loop: S and T move to where it decides
		if x.Init == nil {
			cond, neg := unparen(x.Cond), false
			for {
				u, ok := cond.(*ast.UnaryExpr)
				if !ok || u.Op != token.NOT {
					break
				}
				cond, neg = unparen(u.X), !neg
			}
			if call, ok := cond.(*ast.CallExpr); ok {
				if fn, d := n.callee(info, call); fn != nil && d != nil {
					onT := x.Body.List
					var onF []ast.Stmt
					switch e := x.Else.(type) {
					case *ast.BlockStmt:
						onF = e.List
					case *ast.IfStmt:
						onF = []ast.Stmt{e}
					}
					if neg {
						onT, onF = onF, onT
					}
					var frees []*ast.BranchStmt
					collect := func(b *ast.BranchStmt) { frees = append(frees, b) }
					loop, brk := n.enclosing()
					okMove := freeBranches(onT, collect) && freeBranches(onF, collect)
					for _, b := range frees {
						if b.Tok == token.BREAK && brk == nil || b.Tok == token.CONTINUE && loop == nil {
							okMove = false
						}
					}
					if okMove {
						if why := eligible(d, false); why != "" || stack[fn] {
							okMove = false
						}
					}
					if okMove {
						// a break or continue of the moved branches still means the statement it meant before: name it
						// (done first, so that every copy of the branches carries the label)
						for _, b := range frees {
							if b.Tok == token.BREAK {
								b.Label = ast.NewIdent(n.labelOf(brk))
							} else {
								b.Label = ast.NewIdent(n.labelOf(loop))
							}
						}
						if pre, _, ok := n.inline(call, info, stack, depth, false, &retSink{cps: true, onTrue: onT, onFalse: onF}); ok {
							return pre
						}
					}
				}
			}
		}
		slot := firstEvaluated(&x.Cond)
		if slot == nil {
			break
		}
		call := unparen(*slot).(*ast.CallExpr)
		pre, res, ok := n.inline(call, info, stack, depth, false)
		if !ok || len(res) != 1 {
			break
		}
		*slot = res[0]
		if x.Init != nil {
			init := x.Init
			x.Init = nil
			return []ast.Stmt{&ast.BlockStmt{List: append(append([]ast.Stmt{init}, pre...), x)}}
		}
		return append(pre, x)
	}
	return []ast.Stmt{s}
}

// firstEvaluated returns the place of the call that a condition evaluates first: the condition itself,
// the operand of leading negations, or the leftmost operand of a chain of && / ||.
func firstEvaluated(e *ast.Expr) *ast.Expr {
	for {
		switch x := (*e).(type) {
		case *ast.ParenExpr:
			e = &x.X
		case *ast.UnaryExpr:
			if x.Op != token.NOT {
				return nil
			}
			e = &x.X
		case *ast.BinaryExpr:
			if x.Op != token.LAND && x.Op != token.LOR {
				return nil
			}
			e = &x.X
		case *ast.CallExpr:
			return e
		default:
			return nil
		}
	}
}

func (n *normalizer) skip(d *normDecl, why string) ([]ast.Stmt, []ast.Expr, bool) {
	if _, ok := n.Skipped[d.key]; !ok {
		n.Skipped[d.key] = why
	}
	return nil, nil, false
}

// eligible: a body the expansion can reproduce faithfully.
func eligible(d *normDecl, tail bool) string {
	why := ""
	if d.decl.Type.TypeParams != nil {
		return "generic"
	}
	if d.decl.Type.Params != nil {
		for _, f := range d.decl.Type.Params.List {
			if _, ok := f.Type.(*ast.Ellipsis); ok {
				return "variadic"
			}
		}
	}
	nst := 0
	ast.Inspect(d.body, func(nd ast.Node) bool {
		switch x := nd.(type) {
		case *ast.FuncLit:
			return false
		case *ast.DeferStmt:
			// deferred calls of the helper run when the calling function returns; that is the same moment only
			// when the call is the operand of a return statement
			if !tail && !defersMovable(d) {
				why = "defer"
			}
		case *ast.LabeledStmt:
			why = "label"
		case *ast.BranchStmt:
			if x.Tok == token.GOTO {
				why = "goto"
			}
		case *ast.CallExpr:
			if id, ok := x.Fun.(*ast.Ident); ok && id.Name == "recover" {
				why = "recover"
			}
		case ast.Stmt:
			nst++
		}
		return true
	})
	if why == "" && nst > 120 {
		why = "too large"
	}
	return why
}

// inline expands one call. It returns the statements that evaluate it and the expressions holding its results.
// retSink says what becomes of the helper's results. With assignTo, "return e" becomes "assignTo = e" (no temporaries);
// with cps (single boolean result tested by an if statement) the statements of the branch are placed where the
// helper decides, so that "if found(x) { S }" with a searching loop in found becomes the loop with S in it.
type retSink struct {
	lit             bool // "go helper(..)" / "defer helper(..)": the body becomes a function literal, returns stay returns
	ret             bool // the call is the operand of a return statement: the helper's returns return from the caller
	assignTo        []ast.Expr
	after           []ast.Stmt // with assignTo: statements that consume the assigned values, placed after every assignment
	cps             bool
	onTrue, onFalse []ast.Stmt
}

func (n *normalizer) inline(call *ast.CallExpr, info *types.Info, stack map[*types.Func]bool, depth int, tail bool, sinks ...*retSink) ([]ast.Stmt, []ast.Expr, bool) {
	var sink *retSink
	if len(sinks) > 0 {
		sink = sinks[0]
	}
	fn, d := n.callee(info, call)
	if fn == nil {
		return nil, nil, false
	}
	if stack[fn] {
		return n.skip(d, "recursive")
	}
	if call.Ellipsis.IsValid() {
		return n.skip(d, "spread call")
	}
	if why := eligible(d, tail || (sink != nil && sink.lit)); why != "" {
		return n.skip(d, why)
	}
	cross := d.pkg != n.curPkg
	if cross {
		if why := n.crossPackageOK(d); why != "" {
			return n.skip(d, "other package: "+why)
		}
	}
	sig := fn.Type().(*types.Signature)
	n.counter++
	suffix := fmt.Sprintf("_i%d", n.counter)
	dinfo := d.pkg.TypesInfo

	// names declared inside the callee, keyed by the position of their declaration
	rename := map[token.Pos]string{}
	collect := func(nd ast.Node) bool {
		if id, ok := nd.(*ast.Ident); ok && id.Name != "_" {
			id, _ = n.orig(id).(*ast.Ident)
			if id == nil {
				return true
			}
			if obj, isDef := dinfo.Defs[id]; isDef && id != d.decl.Name {
				if obj == nil || obj.Pos() == id.Pos() {
					if _, isField := obj.(*types.Var); !(isField && obj.(*types.Var).IsField()) {
						rename[id.Pos()] = id.Name + suffix
					}
				}
			}
		}
		return true
	}
	if d.decl.Recv != nil {
		ast.Inspect(d.decl.Recv, collect)
	}
	ast.Inspect(d.decl.Type, collect)
	ast.Inspect(d.body, collect)
	// a parameter that the helper only reads, given a plain local variable of the same type, is that variable:
	// no copy is made (a copy of a struct value would be a different object for every later analysis)
	substituted := map[int]bool{}
	derefOf := map[string]string{} // renamed pointer parameter -> the variable whose address it was given
	isLit := sink != nil && sink.lit
	// (for go/defer the arguments are evaluated when the statement runs and the body later: only variables that are
	// never assigned again in the calling function may stand for themselves)
	if d.decl.Type.Params != nil {
		i := 0
		for _, f := range d.decl.Type.Params.List {
			if len(f.Names) == 0 {
				i++
				continue
			}
			for _, nm := range f.Names {
				if i < len(call.Args) && nm.Name != "_" {
					if id, ok := unparen(call.Args[i]).(*ast.Ident); ok && id.Name != "_" && id.Name != "nil" {
						oid, _ := n.orig(id).(*ast.Ident)
						var av *types.Var
						if oid != nil {
							av, _ = info.Uses[oid].(*types.Var)
						}
						if av != nil && !av.IsField() && av.Parent() != av.Pkg().Scope() && types.Identical(av.Type(), sig.Params().At(i).Type()) &&
							n.readOnlyParam(d, dinfo.Defs[nm]) && (!isLit || (depth == 0 && n.stableVar(av))) {
							rename[nm.Pos()] = id.Name
							substituted[i] = true
						}
					}
					// "&x" of a local variable given to a pointer parameter that is only dereferenced: *p is x
					if u, ok := unparen(call.Args[i]).(*ast.UnaryExpr); ok && u.Op == token.AND {
						if id, ok := unparen(u.X).(*ast.Ident); ok {
							oid, _ := n.orig(id).(*ast.Ident)
							var av *types.Var
							if oid != nil {
								av, _ = info.Uses[oid].(*types.Var)
							}
							if av != nil && !av.IsField() && av.Parent() != av.Pkg().Scope() && n.readOnlyParam(d, dinfo.Defs[nm]) {
								derefOf[rename[nm.Pos()]] = id.Name
							}
						}
					}
				}
				i++
			}
		}
	}
	body := n.clone(d.body).(*ast.BlockStmt)
	bad := ""
	ast.Inspect(body, func(nd ast.Node) bool {
		switch x := nd.(type) {
		case *ast.SelectorExpr:
			// package qualifiers must be importable under a name in the calling file
			if id, ok := x.X.(*ast.Ident); ok {
				if pn, ok := dinfo.Uses[n.orig(id).(*ast.Ident)].(*types.PkgName); ok {
					name, ok := n.ensureImport(pn.Imported())
					if !ok {
						bad = "import of " + pn.Imported().Path() + " clashes in the calling file"
					}
					id.Name = name
				}
			}
		case *ast.Ident:
			o := n.orig(x).(*ast.Ident)
			if nn, ok := rename[o.Pos()]; ok && dinfo.Defs[o] != nil || ok && isImplicitDef(dinfo, o) {
				x.Name = nn
				return true
			}
			if obj := dinfo.Uses[o]; obj != nil {
				if nn, ok := rename[obj.Pos()]; ok && obj.Pkg() == d.pkg.Types {
					if v, isVar := obj.(*types.Var); !(isVar && v.IsField()) {
						x.Name = nn
					}
				}
			}
		}
		return true
	})
	if bad != "" {
		return n.skip(d, bad)
	}
	if len(derefOf) > 0 {
		body = astutil.Apply(body, func(c *astutil.Cursor) bool {
			if st, ok := c.Node().(*ast.StarExpr); ok {
				if id, ok := unparen(st.X).(*ast.Ident); ok {
					if x, ok := derefOf[id.Name]; ok {
						c.Replace(&ast.ParenExpr{X: ast.NewIdent(x), Lparen: st.Pos(), Rparen: st.End()})
					}
				}
			}
			return true
		}, nil).(*ast.BlockStmt)
	}

	var pre []ast.Stmt
	pos := call.Pos()
	recvSubst := ""
	declare := func(name string, t types.Type, val ast.Expr) bool {
		if name == "_" || name == "" {
			if val != nil {
				pre = append(pre, &ast.AssignStmt{Lhs: []ast.Expr{ast.NewIdent("_")}, Tok: token.ASSIGN, Rhs: []ast.Expr{val}, TokPos: pos})
			}
			return true
		}
		te, ok := n.typeExpr(t)
		if !ok {
			return false
		}
		vs := &ast.ValueSpec{Names: []*ast.Ident{ast.NewIdent(name)}, Type: te}
		if val != nil {
			vs.Values = []ast.Expr{val}
		}
		pre = append(pre, &ast.DeclStmt{Decl: &ast.GenDecl{Tok: token.VAR, TokPos: pos, Specs: []ast.Spec{vs}}})
		// a parameter may be unused in the callee; keep the compiler quiet
		pre = append(pre, &ast.AssignStmt{Lhs: []ast.Expr{ast.NewIdent("_")}, Tok: token.ASSIGN, TokPos: pos, Rhs: []ast.Expr{ast.NewIdent(name)}})
		return true
	}
	// receiver
	if sig.Recv() != nil {
		selx, ok := unparen(call.Fun).(*ast.SelectorExpr)
		if !ok {
			return n.skip(d, "method expression")
		}
		recvExpr := selx.X
		xt := n.typeOf(info, selx.X)
		_, wantPtr := sig.Recv().Type().(*types.Pointer)
		_, havePtr := xt.Underlying().(*types.Pointer)
		if xt == nil {
			return n.skip(d, "receiver type unknown")
		}
		switch {
		case wantPtr && !havePtr:
			recvExpr = &ast.UnaryExpr{Op: token.AND, X: recvExpr, OpPos: pos}
		case !wantPtr && havePtr:
			recvExpr = &ast.StarExpr{X: recvExpr, Star: pos}
		}
		name := ""
		subst := false
		if d.decl.Recv != nil && len(d.decl.Recv.List) == 1 && len(d.decl.Recv.List[0].Names) == 1 {
			rn := d.decl.Recv.List[0].Names[0]
			name = rename[rn.Pos()]
			if rn.Name == "_" {
				name = "_"
			} else if id, ok := unparen(selx.X).(*ast.Ident); ok && wantPtr == havePtr && types.Identical(xt, sig.Recv().Type()) {
				oid, _ := n.orig(id).(*ast.Ident)
				var av *types.Var
				if oid != nil {
					av, _ = info.Uses[oid].(*types.Var)
				}
				if av != nil && !av.IsField() && av.Parent() != av.Pkg().Scope() && n.readOnlyParam(d, dinfo.Defs[rn]) && (!isLit || (depth == 0 && n.stableVar(av))) {
					recvSubst = id.Name
					subst = true
				}
			}
		}
		if subst {
			// handled by renaming below
		} else if !declare(name, sig.Recv().Type(), recvExpr) {
			return n.skip(d, "receiver type not expressible in the calling file")
		}
	}
	if recvSubst != "" {
		want := rename[d.decl.Recv.List[0].Names[0].Pos()]
		ast.Inspect(body, func(nd ast.Node) bool {
			if id, ok := nd.(*ast.Ident); ok && id.Name == want {
				id.Name = recvSubst
			}
			return true
		})
	}
	// parameters, in order
	var pnames []*ast.Ident
	if d.decl.Type.Params != nil {
		for _, f := range d.decl.Type.Params.List {
			if len(f.Names) == 0 {
				pnames = append(pnames, nil)
			}
			pnames = append(pnames, f.Names...)
		}
	}
	if len(pnames) != len(call.Args) || sig.Params().Len() != len(call.Args) {
		return n.skip(d, "argument count (multi-value argument)")
	}
	for i, a := range call.Args {
		name := "_"
		if pnames[i] != nil && pnames[i].Name != "_" {
			name = rename[pnames[i].Pos()]
		}
		if substituted[i] {
			continue
		}
		if !declare(name, sig.Params().At(i).Type(), a) {
			return n.skip(d, "parameter type not expressible in the calling file")
		}
	}
	// results
	var results []ast.Expr
	var rnames []string
	if d.decl.Type.Results != nil {
		k := 0
		for _, f := range d.decl.Type.Results.List {
			cnt := len(f.Names)
			if cnt == 0 {
				cnt = 1
			}
			for j := 0; j < cnt; j++ {
				name := fmt.Sprintf("r%d%s", k, suffix)
				if len(f.Names) > 0 && f.Names[j].Name != "_" {
					name = rename[f.Names[j].Pos()]
				}
				rnames = append(rnames, name)
				k++
			}
		}
	}
	namedResults := d.decl.Type.Results != nil && len(d.decl.Type.Results.List) > 0 && len(d.decl.Type.Results.List[0].Names) > 0
	if sink != nil && sink.cps && (len(rnames) != 1 || !isBool(sig.Results().At(0).Type())) {
		return n.skip(d, "not a single boolean result")
	}
	if sink != nil && sink.ret && len(rnames) == 0 {
		return n.skip(d, "no results")
	}
	if sink != nil && sink.assignTo != nil && len(sink.assignTo) != len(rnames) {
		return n.skip(d, "result count")
	}
	for i, rn := range rnames {
		if sink == nil || namedResults {
			if !declare(rn, sig.Results().At(i).Type(), nil) {
				return n.skip(d, "result type not expressible in the calling file")
			}
		}
		results = append(results, ast.NewIdent(rn))
	}

	// expand helpers used by the helper
	stack[fn] = true
	saveOrig := info
	_ = saveOrig
	body.List = n.stmts(body.List, dinfo, stack, depth+1)
	delete(stack, fn)

	// returns
	nret, tailOnly := 0, true
	var countRet func(list []ast.Stmt, top bool)
	countRet = func(list []ast.Stmt, top bool) {
		for i, s := range list {
			if _, ok := s.(*ast.ReturnStmt); ok {
				nret++
				if !(top && i == len(list)-1) {
					tailOnly = false
				}
				continue
			}
			forEachList(s, func(l *[]ast.Stmt) { countRet(*l, false) })
		}
	}
	countRet(body.List, true)
	label := "L" + suffix
	useLabel := nret > 0 && !tailOnly && !(sink != nil && (sink.ret || sink.lit))
	failed := false
	siteNo := 0
	nonNil := map[string]bool{}
	// deferred calls of the helper (top level only, see defersMovable) run wherever it returns
	var active []*ast.CallExpr
	keepDefers := sink != nil && (sink.ret || sink.lit)
	nDefTmp := 0
	runDefers := func() []ast.Stmt {
		var out []ast.Stmt
		for i := len(active) - 1; i >= 0; i-- {
			c := n.clone(active[i]).(*ast.CallExpr)
			// "defer func() { BODY }()" with a body that does not return: BODY itself
			if fl, ok := c.Fun.(*ast.FuncLit); ok && len(c.Args) == 0 && fl.Type.Results == nil {
				hasRet := false
				ast.Inspect(fl.Body, func(nd ast.Node) bool {
					switch nd.(type) {
					case *ast.FuncLit:
						return false
					case *ast.ReturnStmt:
						hasRet = true
					}
					return true
				})
				if !hasRet {
					out = append(out, &ast.BlockStmt{Lbrace: c.Pos(), List: fl.Body.List, Rbrace: c.End()})
					continue
				}
			}
			out = append(out, &ast.ExprStmt{X: c})
		}
		return out
	}
	isTopList := true
	var rewrite func(list []ast.Stmt) []ast.Stmt
	rewrite = func(list []ast.Stmt) []ast.Stmt {
		var out []ast.Stmt
		var learned []string
		defer func() {
			for _, id := range learned {
				delete(nonNil, id)
			}
		}()
		top := isTopList
		isTopList = false
		for _, s := range list {
			if ds, isDefer := s.(*ast.DeferStmt); isDefer && top && !keepDefers {
				active = append(active, ds.Call)
				continue
			}
			ret, ok := s.(*ast.ReturnStmt)
			if !ok {
				// "a = b" with b known not to be nil
				if as, isAs := s.(*ast.AssignStmt); isAs && len(as.Lhs) == 1 && len(as.Rhs) == 1 {
					l, lok := as.Lhs[0].(*ast.Ident)
					rr, rok := unparen(as.Rhs[0]).(*ast.Ident)
					if lok && l.Name != "_" {
						if rok && nonNil[rr.Name] && !nonNil[l.Name] {
							nonNil[l.Name] = true
							learned = append(learned, l.Name)
						} else if !(rok && nonNil[rr.Name]) && nonNil[l.Name] {
							delete(nonNil, l.Name)
						}
					}
				}
				if ls, isL := s.(*ast.LabeledStmt); isL {
					if _, isRet := ls.Stmt.(*ast.ReturnStmt); isRet {
						failed = true
					}
				}
				if is, isIf := s.(*ast.IfStmt); isIf {
					// inside "if x != nil { .. }" (x not assigned there) x is not nil
					if id := testedNonNil(is.Cond); id != "" && !assignsTo(is.Body, id) && !nonNil[id] {
						nonNil[id] = true
						is.Body.List = rewrite(is.Body.List)
						delete(nonNil, id)
						if is.Else != nil {
							forEachList(is.Else, func(l *[]ast.Stmt) { *l = rewrite(*l) })
						}
						out = append(out, s)
						continue
					}
				}
				forEachList(s, func(l *[]ast.Stmt) { *l = rewrite(*l) })
				out = append(out, s)
				continue
			}
			vals := ret.Results
			if len(vals) == 0 && len(rnames) > 0 {
				for _, rn := range rnames {
					vals = append(vals, ast.NewIdent(rn))
				}
			}
			switch {
			case sink != nil && sink.lit:
				out = append(out, ret)
				continue
			case sink != nil && sink.ret:
				out = append(out, &ast.ReturnStmt{Return: ret.Pos(), Results: vals})
				continue
			case sink != nil && sink.cps:
				siteNo++
				t, f := sink.onTrue, sink.onFalse
				if siteNo > 1 {
					t, f = n.cloneStmts(t), n.cloneStmts(f)
				}
				if len(vals) != 1 {
					failed = true
					break
				}
				if len(active) > 0 {
					if id, ok := unparen(vals[0]).(*ast.Ident); !ok || (id.Name != "true" && id.Name != "false") {
						nDefTmp++
						tmp := fmt.Sprintf("c%d%s", nDefTmp, suffix)
						out = append(out, &ast.AssignStmt{Lhs: []ast.Expr{ast.NewIdent(tmp)}, Tok: token.DEFINE, TokPos: ret.Pos(), Rhs: []ast.Expr{vals[0]}})
						vals = []ast.Expr{ast.NewIdent(tmp)}
					}
					out = append(out, runDefers()...)
				}
				if id, ok := unparen(vals[0]).(*ast.Ident); ok && id.Name == "true" {
					out = append(out, t...)
				} else if ok && id.Name == "false" {
					out = append(out, f...)
				} else {
					is := &ast.IfStmt{If: ret.Pos(), Cond: vals[0], Body: &ast.BlockStmt{Lbrace: ret.Pos(), List: t, Rbrace: ret.Pos()}}
					if len(f) > 0 {
						is.Else = &ast.BlockStmt{Lbrace: ret.Pos(), List: f, Rbrace: ret.Pos()}
					}
					out = append(out, is)
				}
			case sink != nil && sink.assignTo != nil:
				if len(vals) > 0 {
					lhs := sink.assignTo
					siteNo++
					if siteNo > 1 {
						lhs = n.cloneExprs(lhs)
					}
					out = append(out, &ast.AssignStmt{Lhs: lhs, Tok: token.ASSIGN, TokPos: ret.Pos(), Rhs: vals})
					out = append(out, runDefers()...)
					if len(sink.after) > 0 {
						aft := sink.after
						if siteNo > 1 {
							aft = n.cloneStmts(aft)
						}
						out = append(out, specialise(aft, lhs, vals, nonNil)...)
					}
				}
			case len(ret.Results) > 0:
				lhs := make([]ast.Expr, len(rnames))
				for i, rn := range rnames {
					lhs[i] = ast.NewIdent(rn)
				}
				out = append(out, &ast.AssignStmt{Lhs: lhs, Tok: token.ASSIGN, TokPos: ret.Pos(), Rhs: ret.Results})
				out = append(out, runDefers()...)
			default:
				out = append(out, runDefers()...)
			}
			if useLabel {
				out = append(out, &ast.BranchStmt{Tok: token.BREAK, TokPos: ret.Pos(), Label: ast.NewIdent(label)})
			}
		}
		return out
	}
	body.List = rewrite(body.List)
	if len(active) > 0 && len(rnames) == 0 {
		endsInReturn := false
		if nl := len(d.body.List); nl > 0 {
			_, endsInReturn = d.body.List[nl-1].(*ast.ReturnStmt)
		}
		if !endsInReturn {
			body.List = append(body.List, runDefers()...)
		}
	}
	if failed {
		return n.skip(d, "labelled return")
	}
	if sink != nil && sink.lit {
		if len(rnames) > 0 {
			return n.skip(d, "go/defer of a helper with results")
		}
		lit := &ast.FuncLit{Type: &ast.FuncType{Func: pos, Params: &ast.FieldList{}}, Body: &ast.BlockStmt{Lbrace: pos, List: body.List, Rbrace: pos}}
		n.Inlined[d.key]++
		n.changed[n.curFile] = true
		return pre, []ast.Expr{&ast.CallExpr{Fun: lit, Lparen: pos, Rparen: pos}}, true
	}
	if useLabel {
		sw := &ast.SwitchStmt{Switch: pos, Body: &ast.BlockStmt{Lbrace: pos, List: []ast.Stmt{&ast.CaseClause{Case: pos, Colon: pos, Body: body.List}}}}
		pre = append(pre, &ast.LabeledStmt{Label: ast.NewIdent(label), Colon: pos, Stmt: sw})
	} else {
		pre = append(pre, &ast.BlockStmt{Lbrace: pos, List: body.List, Rbrace: pos})
	}
	n.Inlined[d.key]++
	n.changed[n.curFile] = true
	return pre, results, true
}

// stableVar: the variable of the calling function is assigned only where it is declared (so a body that runs later
// sees the value it had when the go/defer statement ran).
func (n *normalizer) stableVar(v *types.Var) bool {
	if n.curDecl == nil {
		return false
	}
	info := n.curDecl.pkg.TypesInfo
	stable := true
	ast.Inspect(n.curDecl.body, func(nd ast.Node) bool {
		check := func(e ast.Expr, define bool) {
			id, ok := unparen(e).(*ast.Ident)
			if !ok {
				return
			}
			oid, _ := n.orig(id).(*ast.Ident)
			if oid == nil {
				return
			}
			if info.Uses[oid] == types.Object(v) {
				stable = false // assigned (not declared) here
			}
			_ = define
		}
		switch x := nd.(type) {
		case *ast.AssignStmt:
			for _, l := range x.Lhs {
				check(l, x.Tok == token.DEFINE)
			}
		case *ast.IncDecStmt:
			check(x.X, false)
		case *ast.UnaryExpr:
			if x.Op == token.AND {
				check(x.X, false)
			}
		case *ast.RangeStmt:
			if x.Tok == token.ASSIGN {
				if x.Key != nil {
					check(x.Key, false)
				}
				if x.Value != nil {
					check(x.Value, false)
				}
			}
		}
		return stable
	})
	return stable
}

// readOnlyParam: the helper neither assigns the parameter, nor takes its address, nor calls a method on it that
// could write through an implicitly taken address.
func (n *normalizer) readOnlyParam(d *normDecl, obj types.Object) bool {
	if obj == nil {
		return false
	}
	info := d.pkg.TypesInfo
	typeOf := func(e ast.Expr) types.Type {
		if oe, ok := n.orig(e).(ast.Expr); ok {
			if t := info.TypeOf(oe); t != nil {
				return t
			}
		}
		return types.Typ[types.Invalid]
	}
	rooted := func(e ast.Expr) bool {
		for {
			switch x := e.(type) {
			case *ast.ParenExpr:
				e = x.X
			case *ast.SelectorExpr:
				if _, isPtr := typeOf(x.X).Underlying().(*types.Pointer); isPtr {
					return false // through a pointer: not the parameter's own storage
				}
				e = x.X
			case *ast.IndexExpr:
				if _, isArr := typeOf(x.X).Underlying().(*types.Array); !isArr {
					return false
				}
				e = x.X
			case *ast.Ident:
				ox, _ := n.orig(x).(*ast.Ident)
				return ox != nil && info.Uses[ox] == obj
			default:
				return false
			}
		}
	}
	ok := true
	ast.Inspect(d.body, func(nd ast.Node) bool {
		switch x := nd.(type) {
		case *ast.AssignStmt:
			for _, l := range x.Lhs {
				if rooted(l) {
					ok = false
				}
			}
		case *ast.IncDecStmt:
			if rooted(x.X) {
				ok = false
			}
		case *ast.UnaryExpr:
			if x.Op == token.AND && rooted(x.X) {
				ok = false
			}
		case *ast.RangeStmt:
			if x.Tok == token.ASSIGN && (x.Key != nil && rooted(x.Key) || x.Value != nil && rooted(x.Value)) {
				ok = false
			}
		case *ast.CallExpr:
			if sel, isSel := x.Fun.(*ast.SelectorExpr); isSel && rooted(sel.X) && !isPointer(typeOf(sel.X)) {
				osel, _ := n.orig(sel).(*ast.SelectorExpr)
				if s, found := info.Selections[osel]; osel != nil && found && s.Kind() == types.MethodVal {
					m := s.Obj().(*types.Func)
					if _, ptrRecv := m.Type().(*types.Signature).Recv().Type().(*types.Pointer); ptrRecv {
						if md := n.decls[m]; md == nil || !n.receiverPure(md) {
							ok = false
						}
					}
				}
			}
		}
		return true
	})
	return ok
}

// receiverPure: the method does not write through its receiver and does not hand it on.
func (n *normalizer) receiverPure(md *normDecl) bool {
	if md.decl.Recv == nil || len(md.decl.Recv.List) != 1 || len(md.decl.Recv.List[0].Names) != 1 {
		return false
	}
	info := md.pkg.TypesInfo
	recv := info.Defs[md.decl.Recv.List[0].Names[0]]
	if recv == nil {
		return false
	}
	uses := func(e ast.Node) bool {
		found := false
		ast.Inspect(e, func(nd ast.Node) bool {
			if id, ok := nd.(*ast.Ident); ok {
				if oid, _ := n.orig(id).(*ast.Ident); oid != nil && info.Uses[oid] == recv {
					found = true
				}
			}
			return true
		})
		return found
	}
	pure := true
	ast.Inspect(md.body, func(nd ast.Node) bool {
		switch x := nd.(type) {
		case *ast.AssignStmt:
			for _, l := range x.Lhs {
				if uses(l) {
					pure = false
				}
			}
		case *ast.IncDecStmt:
			if uses(x.X) {
				pure = false
			}
		case *ast.CallExpr:
			for _, a := range x.Args {
				if uses(a) {
					pure = false
				}
			}
			if sel, ok := x.Fun.(*ast.SelectorExpr); ok && uses(sel.X) {
				pure = false
			}
		case *ast.UnaryExpr:
			if x.Op == token.AND && uses(x.X) {
				pure = false
			}
		}
		return true
	})
	return pure
}

// assignThenIf handles "v, err := helper(..)" whose results are tested by the if statement that follows (or whose
// init statement it is): the test is placed at every point where the helper decides the results, so that no merged
// value (a phi of "nil on the error path" and "the real value") is left for the code after it. With scoped the
// variables live in a block of their own (if-init form), otherwise they stay visible for the statements that follow.
func (n *normalizer) assignThenIf(as *ast.AssignStmt, x *ast.IfStmt, scoped bool, info *types.Info, stack map[*types.Func]bool, depth int) ([]ast.Stmt, bool) {
	if len(as.Rhs) != 1 || (as.Tok != token.DEFINE && as.Tok != token.ASSIGN) {
		return nil, false
	}
	call, ok := unparen(as.Rhs[0]).(*ast.CallExpr)
	if !ok {
		return nil, false
	}
	for _, l := range as.Lhs {
		if _, isID := l.(*ast.Ident); !isID {
			return nil, false
		}
	}
	fn, d := n.callee(info, call)
	if fn == nil || eligible(d, false) != "" || stack[fn] {
		return nil, false
	}
	sig := fn.Type().(*types.Signature)
	var decls []ast.Stmt
	if sig.Results().Len() != len(as.Lhs) || d.namedResults() {
		return nil, false
	}
	if as.Tok == token.DEFINE {
		for i, l := range as.Lhs {
			id := l.(*ast.Ident)
			if id.Name == "_" {
				continue
			}
			oid, _ := n.orig(id).(*ast.Ident)
			if oid == nil || info.Defs[oid] == nil {
				continue
			}
			te, good := n.typeExpr(sig.Results().At(i).Type())
			if !good {
				return nil, false
			}
			decls = append(decls, &ast.DeclStmt{Decl: &ast.GenDecl{Tok: token.VAR, TokPos: x.Pos(), Specs: []ast.Spec{&ast.ValueSpec{Names: []*ast.Ident{ast.NewIdent(id.Name)}, Type: te}}}})
			if !scoped {
				decls = append(decls, &ast.AssignStmt{Lhs: []ast.Expr{ast.NewIdent("_")}, Tok: token.ASSIGN, TokPos: x.Pos(), Rhs: []ast.Expr{ast.NewIdent(id.Name)}})
			}
		}
	}
	var frees []*ast.BranchStmt
	collect := func(b *ast.BranchStmt) { frees = append(frees, b) }
	loop, brk := n.enclosing()
	okMove := freeBranches(x.Body.List, collect)
	if x.Else != nil {
		okMove = okMove && freeBranches([]ast.Stmt{x.Else}, collect)
	}
	for _, b := range frees {
		if b.Tok == token.BREAK && brk == nil || b.Tok == token.CONTINUE && loop == nil {
			okMove = false
		}
	}
	if !okMove {
		return nil, false
	}
	for _, b := range frees {
		if b.Tok == token.BREAK {
			b.Label = ast.NewIdent(n.labelOf(brk))
		} else {
			b.Label = ast.NewIdent(n.labelOf(loop))
		}
	}
	pre, _, ok := n.inline(call, info, stack, depth, false, &retSink{assignTo: as.Lhs, after: []ast.Stmt{x}})
	if !ok {
		return nil, false
	}
	if scoped {
		return []ast.Stmt{&ast.BlockStmt{Lbrace: x.Pos(), List: append(decls, pre...), Rbrace: x.End()}}, true
	}
	return append(decls, pre...), true
}

// specialise drops a test whose outcome the value just assigned decides: after "v = nil", "if v != nil { S }" is
// nothing and "if v == nil { S }" is S (likewise true/false for a boolean v).
func specialise(after []ast.Stmt, lhs, vals []ast.Expr, nonNil map[string]bool) []ast.Stmt {
	if len(after) != 1 || len(lhs) != len(vals) {
		return after
	}
	is, ok := after[0].(*ast.IfStmt)
	if !ok || is.Init != nil {
		return after
	}
	known := map[string]string{}
	for i, l := range lhs {
		li, ok1 := l.(*ast.Ident)
		vi, ok2 := unparen(vals[i]).(*ast.Ident)
		if ok1 && ok2 && li.Name != "_" && (vi.Name == "nil" || vi.Name == "true" || vi.Name == "false") {
			known[li.Name] = vi.Name
		} else if ok1 && ok2 && li.Name != "_" && nonNil[vi.Name] {
			known[li.Name] = "nonnil"
		} else if ok1 && li.Name != "_" && constructsError(vals[i], nonNil) {
			known[li.Name] = "nonnil"
		}
	}
	var eval func(e ast.Expr) (bool, bool)
	eval = func(e ast.Expr) (bool, bool) {
		switch x := unparen(e).(type) {
		case *ast.Ident:
			switch known[x.Name] {
			case "true":
				return true, true
			case "false":
				return false, true
			}
		case *ast.UnaryExpr:
			if x.Op == token.NOT {
				if v, ok := eval(x.X); ok {
					return !v, true
				}
			}
		case *ast.BinaryExpr:
			if x.Op == token.EQL || x.Op == token.NEQ {
				a, aok := unparen(x.X).(*ast.Ident)
				b, bok := unparen(x.Y).(*ast.Ident)
				if aok && bok {
					if b.Name != "nil" {
						a, b = b, a
					}
					if b.Name == "nil" && known[a.Name] == "nil" {
						return x.Op == token.EQL, true
					}
					if b.Name == "nil" && known[a.Name] == "nonnil" {
						return x.Op == token.NEQ, true
					}
				}
			}
		}
		return false, false
	}
	v, ok := eval(is.Cond)
	if !ok {
		return after
	}
	if v {
		return []ast.Stmt{is.Body}
	}
	switch e := is.Else.(type) {
	case nil:
		return nil
	default:
		return []ast.Stmt{e}
	}
}

// defersMovable: every defer of the helper is a statement of its body's top level, defers a parameterless function
// literal or a call whose operands are plain and never assigned in the helper, and the helper has no named results
// (a deferred call could change them). Such deferred calls can be run at every place where the helper returns.
// Not reproduced: that deferred calls also run when the helper panics.
func defersMovable(d *normDecl) bool {
	if d.namedResults() {
		return false
	}
	top := map[*ast.DeferStmt]bool{}
	for _, s := range d.body.List {
		if ds, ok := s.(*ast.DeferStmt); ok {
			top[ds] = true
		}
	}
	ok := true
	ast.Inspect(d.body, func(nd ast.Node) bool {
		switch x := nd.(type) {
		case *ast.FuncLit:
			return false
		case *ast.DeferStmt:
			if !top[x] {
				ok = false
				return false
			}
			if _, isLit := x.Call.Fun.(*ast.FuncLit); isLit {
				if len(x.Call.Args) != 0 {
					ok = false
				}
				return false
			}
			if !pureOperand(x.Call.Fun) {
				ok = false
			}
			for _, a := range x.Call.Args {
				if !pureOperand(a) {
					ok = false
				}
				ast.Inspect(a, func(n2 ast.Node) bool {
					if id, isID := n2.(*ast.Ident); isID && assignsTo(d.body, id.Name) {
						ok = false
					}
					return true
				})
			}
			return false
		}
		return true
	})
	return ok
}

// constructsError: the expression builds an error that cannot be nil (fmt.Errorf, errors.New, errors.Errorf, or
// errors.Wrap/Wrapf/WithMessage of something known not to be nil).
func constructsError(e ast.Expr, nonNil map[string]bool) bool {
	c, ok := unparen(e).(*ast.CallExpr)
	if !ok {
		return false
	}
	sel, ok := c.Fun.(*ast.SelectorExpr)
	if !ok {
		return false
	}
	pk, ok := sel.X.(*ast.Ident)
	if !ok {
		return false
	}
	switch pk.Name + "." + sel.Sel.Name {
	case "fmt.Errorf", "errors.New", "errors.Errorf":
		return true
	case "errors.Wrap", "errors.Wrapf", "errors.WithMessage", "errors.WithMessagef", "errors.WithStack":
		if len(c.Args) > 0 {
			if id, ok := unparen(c.Args[0]).(*ast.Ident); ok && nonNil[id.Name] {
				return true
			}
		}
	}
	return false
}

// testsOnly: the condition is built from the given variables, nil, true/false, !, ==, !=, && and || only, and
// mentions at least one of the variables.
func testsOnly(cond ast.Expr, vars []ast.Expr) bool {
	names := map[string]bool{}
	for _, v := range vars {
		if id, ok := v.(*ast.Ident); ok && id.Name != "_" {
			names[id.Name] = true
		}
	}
	mentions := false
	var ok func(e ast.Expr) bool
	ok = func(e ast.Expr) bool {
		switch x := unparen(e).(type) {
		case *ast.Ident:
			if names[x.Name] {
				mentions = true
				return true
			}
			return x.Name == "nil" || x.Name == "true" || x.Name == "false"
		case *ast.UnaryExpr:
			return x.Op == token.NOT && ok(x.X)
		case *ast.BinaryExpr:
			switch x.Op {
			case token.EQL, token.NEQ, token.LAND, token.LOR:
				return ok(x.X) && ok(x.Y)
			}
		}
		return false
	}
	return ok(cond) && mentions
}

// testedNonNil: the condition is "x != nil" (or has it as a conjunct) for a plain identifier x.
func testedNonNil(e ast.Expr) string {
	switch x := unparen(e).(type) {
	case *ast.BinaryExpr:
		if x.Op == token.LAND {
			if id := testedNonNil(x.X); id != "" {
				return id
			}
			return testedNonNil(x.Y)
		}
		if x.Op == token.NEQ {
			a, aok := unparen(x.X).(*ast.Ident)
			b, bok := unparen(x.Y).(*ast.Ident)
			if aok && bok {
				if b.Name == "nil" && a.Name != "nil" {
					return a.Name
				}
				if a.Name == "nil" && b.Name != "nil" {
					return b.Name
				}
			}
		}
	}
	return ""
}

// assignsTo: the statements may change the variable called name (assignment, inc/dec, address taken, redeclared).
func assignsTo(b ast.Node, name string) bool {
	found := false
	ast.Inspect(b, func(nd ast.Node) bool {
		switch x := nd.(type) {
		case *ast.AssignStmt:
			for _, l := range x.Lhs {
				if id, ok := l.(*ast.Ident); ok && id.Name == name {
					found = true
				}
			}
		case *ast.IncDecStmt:
			if id, ok := x.X.(*ast.Ident); ok && id.Name == name {
				found = true
			}
		case *ast.UnaryExpr:
			if id, ok := x.X.(*ast.Ident); ok && x.Op == token.AND && id.Name == name {
				found = true
			}
		case *ast.RangeStmt:
			for _, e := range []ast.Expr{x.Key, x.Value} {
				if id, ok := e.(*ast.Ident); ok && id.Name == name {
					found = true
				}
			}
		case *ast.ValueSpec:
			for _, id := range x.Names {
				if id.Name == name {
					found = true
				}
			}
		}
		return !found
	})
	return found
}

func (d *normDecl) namedResults() bool {
	return d.decl.Type.Results != nil && len(d.decl.Type.Results.List) > 0 && len(d.decl.Type.Results.List[0].Names) > 0
}

func isPointer(t types.Type) bool {
	_, ok := t.Underlying().(*types.Pointer)
	return ok
}

func isBool(t types.Type) bool {
	b, ok := t.Underlying().(*types.Basic)
	return ok && b.Kind() == types.Bool
}

func (n *normalizer) cloneStmts(l []ast.Stmt) []ast.Stmt {
	out := make([]ast.Stmt, len(l))
	for i, s := range l {
		out[i] = n.clone(s).(ast.Stmt)
	}
	return out
}

func (n *normalizer) cloneExprs(l []ast.Expr) []ast.Expr {
	out := make([]ast.Expr, len(l))
	for i, e := range l {
		out[i] = n.clone(e).(ast.Expr)
	}
	return out
}

// simpleLvalue: an identifier or a chain of field selections on one (evaluating it has no effect and does not
// depend on what the helper does to its own variables).
func simpleLvalue(e ast.Expr) bool {
	for {
		switch x := e.(type) {
		case *ast.ParenExpr:
			e = x.X
		case *ast.SelectorExpr:
			e = x.X
		case *ast.StarExpr:
			e = x.X
		case *ast.Ident:
			return true
		default:
			return false
		}
	}
}

// freeBranches visits the break and continue statements that refer to something outside of the statements.
// It returns false when the statements contain a jump that cannot be moved (labels, goto, fallthrough).
func freeBranches(list []ast.Stmt, visit func(b *ast.BranchStmt)) bool {
	movable := true
	free := false
	var walk func(s ast.Stmt, inLoop, inSwitch bool)
	walk = func(s ast.Stmt, inLoop, inSwitch bool) {
		switch x := s.(type) {
		case *ast.BranchStmt:
			switch {
			case x.Label != nil || x.Tok == token.GOTO || x.Tok == token.FALLTHROUGH:
				movable = false
			case x.Tok == token.BREAK && !inLoop && !inSwitch:
				visit(x)
			case x.Tok == token.CONTINUE && !inLoop:
				visit(x)
			}
		case *ast.LabeledStmt:
			movable = false
		case *ast.ForStmt:
			for _, b := range x.Body.List {
				walk(b, true, false)
			}
		case *ast.RangeStmt:
			for _, b := range x.Body.List {
				walk(b, true, false)
			}
		case *ast.SwitchStmt, *ast.TypeSwitchStmt, *ast.SelectStmt:
			forEachList(x, func(l *[]ast.Stmt) {
				for _, b := range *l {
					walk(b, inLoop, true)
				}
			})
		default:
			forEachList(x, func(l *[]ast.Stmt) {
				for _, b := range *l {
					walk(b, inLoop, inSwitch)
				}
			})
		}
	}
	for _, s := range list {
		walk(s, false, false)
	}
	_ = free
	return movable
}

// returnsInLoop: the helper decides inside a loop (a searching predicate).
func returnsInLoop(d *normDecl) bool {
	found := false
	var walk func(s ast.Stmt, inLoop bool)
	walk = func(s ast.Stmt, inLoop bool) {
		switch x := s.(type) {
		case *ast.ReturnStmt:
			if inLoop {
				found = true
			}
		case *ast.ForStmt:
			for _, b := range x.Body.List {
				walk(b, true)
			}
		case *ast.RangeStmt:
			for _, b := range x.Body.List {
				walk(b, true)
			}
		default:
			forEachList(x, func(l *[]ast.Stmt) {
				for _, b := range *l {
					walk(b, inLoop)
				}
			})
		}
	}
	for _, s := range d.body.List {
		walk(s, false)
	}
	return found
}

func isImplicitDef(info *types.Info, id *ast.Ident) bool {
	obj, ok := info.Defs[id]
	return ok && obj == nil
}

// forEachList visits the statement lists directly nested in s (not those of function literals).
func forEachList(s ast.Stmt, f func(l *[]ast.Stmt)) {
	switch x := s.(type) {
	case *ast.BlockStmt:
		f(&x.List)
	case *ast.IfStmt:
		f(&x.Body.List)
		if x.Else != nil {
			forEachList(x.Else, f)
		}
	case *ast.ForStmt:
		f(&x.Body.List)
	case *ast.RangeStmt:
		f(&x.Body.List)
	case *ast.SwitchStmt:
		for _, c := range x.Body.List {
			f(&c.(*ast.CaseClause).Body)
		}
	case *ast.TypeSwitchStmt:
		for _, c := range x.Body.List {
			f(&c.(*ast.CaseClause).Body)
		}
	case *ast.SelectStmt:
		for _, c := range x.Body.List {
			f(&c.(*ast.CommClause).Body)
		}
	case *ast.LabeledStmt:
		forEachList(x.Stmt, f)
	}
}

// crossPackageOK: the body of a helper of another package can be placed in the calling package only if it
// names nothing that is private to its own package.
func (n *normalizer) crossPackageOK(d *normDecl) string {
	why := ""
	info := d.pkg.TypesInfo
	ast.Inspect(d.body, func(nd ast.Node) bool {
		id, ok := nd.(*ast.Ident)
		if !ok {
			return true
		}
		id, _ = n.orig(id).(*ast.Ident)
		if id == nil {
			return true
		}
		obj := info.Uses[id]
		if obj == nil || obj.Pkg() != d.pkg.Types {
			return true
		}
		if obj.Pos() >= d.decl.Pos() && obj.Pos() <= d.decl.End() {
			return true // local
		}
		if !obj.Exported() {
			why = "uses " + obj.Name()
			return true
		}
		if obj.Parent() == d.pkg.Types.Scope() {
			why = "uses package-level " + obj.Name() + " (would need a qualifier)"
		}
		return true
	})
	return why
}

// ensureImport makes pkg importable in the current file and returns the local name to use.
func (n *normalizer) ensureImport(pkg *types.Package) (string, bool) {
	for _, im := range n.curFile.Imports {
		path := strings.Trim(im.Path.Value, `"`)
		if path != pkg.Path() {
			continue
		}
		if im.Name != nil {
			if im.Name.Name == "_" || im.Name.Name == "." {
				return "", false
			}
			return im.Name.Name, true
		}
		return pkg.Name(), true
	}
	// not imported yet: the name must be free in the file
	name := pkg.Name()
	for _, im := range n.curFile.Imports {
		local := ""
		if im.Name != nil {
			local = im.Name.Name
		} else if p := n.curPkg.Imports[strings.Trim(im.Path.Value, `"`)]; p != nil {
			local = p.Name
		}
		if local == name {
			return "", false
		}
	}
	if n.curPkg.Types.Scope().Lookup(name) != nil {
		return "", false
	}
	astutil.AddNamedImport(n.fset, n.curFile, name, pkg.Path())
	n.changed[n.curFile] = true
	return name, true
}

// typeExpr renders a type as an expression valid in the current file.
func (n *normalizer) typeExpr(t types.Type) (ast.Expr, bool) {
	ok := true
	s := types.TypeString(t, func(p *types.Package) string {
		if p == n.curPkg.Types {
			return ""
		}
		name, good := n.ensureImport(p)
		if !good {
			ok = false
		}
		return name
	})
	if !ok {
		return nil, false
	}
	// unexported names of another package cannot be written here
	if named := namedOf(t); named != nil && named.Obj().Pkg() != nil && named.Obj().Pkg() != n.curPkg.Types && !named.Obj().Exported() {
		return nil, false
	}
	e, err := parser.ParseExpr(s)
	if err != nil {
		return nil, false
	}
	return e, true
}

func namedOf(t types.Type) *types.Named {
	for {
		switch x := t.(type) {
		case *types.Pointer:
			t = x.Elem()
		case *types.Slice:
			t = x.Elem()
		case *types.Named:
			return x
		default:
			return nil
		}
	}
}

// clone copies a syntax tree, remembering for every copied node the node it was copied from.
func (n *normalizer) clone(x ast.Node) ast.Node {
	v := n.cloneValue(reflect.ValueOf(x))
	return v.Interface().(ast.Node)
}

func (n *normalizer) cloneValue(v reflect.Value) reflect.Value {
	switch v.Kind() {
	case reflect.Ptr:
		if v.IsNil() {
			return v
		}
		// objects and scopes are not part of the tree
		switch v.Interface().(type) {
		case *ast.Object, *ast.Scope:
			return reflect.Zero(v.Type())
		}
		c := reflect.New(v.Elem().Type())
		c.Elem().Set(n.cloneValue(v.Elem()))
		if nd, ok := c.Interface().(ast.Node); ok {
			n.origOf[nd] = v.Interface().(ast.Node)
		}
		return c
	case reflect.Interface:
		if v.IsNil() {
			return v
		}
		c := n.cloneValue(v.Elem())
		r := reflect.New(v.Type()).Elem()
		r.Set(c)
		return r
	case reflect.Slice:
		if v.IsNil() {
			return v
		}
		c := reflect.MakeSlice(v.Type(), v.Len(), v.Len())
		for i := 0; i < v.Len(); i++ {
			c.Index(i).Set(n.cloneValue(v.Index(i)))
		}
		return c
	case reflect.Struct:
		c := reflect.New(v.Type()).Elem()
		for i := 0; i < v.NumField(); i++ {
			if c.Field(i).CanSet() {
				c.Field(i).Set(n.cloneValue(v.Field(i)))
			}
		}
		return c
	default:
		return v
	}
}

// sortedKeys is used for deterministic reports.
func sortedKeys(m map[string]int) []string {
	var ks []string
	for k := range m {
		ks = append(ks, k)
	}
	sort.Strings(ks)
	return ks
}

// splitShortCircuit rewrites "if A op helper(..) { S } else { T }" (op one of ||, &&; the helper a function that is
// not in the reference tree and is not a one-line expression) into nested ifs with the same behaviour:
//
//	A || H:  if A { S } else if H { S } else { T }
//	A && H:  if A { if H { S } else { T } } else { T }
//
// S (or T) is duplicated, which is fine for branches without labels; break/continue inside them keep their meaning.
func (n *normalizer) splitShortCircuit(x *ast.IfStmt, info *types.Info, stack map[*types.Func]bool, depth int) ([]ast.Stmt, bool) {
	be, ok := unparen(x.Cond).(*ast.BinaryExpr)
	if !ok || (be.Op != token.LOR && be.Op != token.LAND) || depth > 3 {
		return nil, false
	}
	// the right operand starts with a call of an expandable helper
	y := be.Y
	slot := firstEvaluated(&y)
	if slot == nil {
		return nil, false
	}
	call, ok := unparen(*slot).(*ast.CallExpr)
	if !ok {
		return nil, false
	}
	fn, d := n.callee(info, call)
	if fn == nil || d == nil || stack[fn] || eligible(d, false) != "" {
		return nil, false
	}
	hasLabel := func(b ast.Node) bool {
		found := false
		if b == nil {
			return false
		}
		ast.Inspect(b, func(nd ast.Node) bool {
			if _, ok := nd.(*ast.LabeledStmt); ok {
				found = true
			}
			return !found
		})
		return found
	}
	if hasLabel(x.Body) || (x.Else != nil && hasLabel(x.Else)) {
		return nil, false
	}
	cloneBlock := func(b *ast.BlockStmt) *ast.BlockStmt { return n.clone(b).(*ast.BlockStmt) }
	cloneElse := func(e ast.Stmt) ast.Stmt {
		if e == nil {
			return nil
		}
		return n.clone(e).(ast.Stmt)
	}
	var out *ast.IfStmt
	if be.Op == token.LOR {
		inner := &ast.IfStmt{If: x.If, Cond: be.Y, Body: cloneBlock(x.Body), Else: x.Else}
		out = &ast.IfStmt{If: x.If, Cond: be.X, Body: x.Body, Else: inner}
		// the inner test is a statement of its own: expand it where it stands
		if rep := n.stmt(inner, info, stack, depth+1); len(rep) != 1 || rep[0] != ast.Stmt(inner) {
			out.Else = &ast.BlockStmt{Lbrace: x.Pos(), List: rep, Rbrace: x.End()}
		}
	} else {
		inner := &ast.IfStmt{If: x.If, Cond: be.Y, Body: x.Body, Else: cloneElse(x.Else)}
		body := &ast.BlockStmt{Lbrace: x.Body.Lbrace, List: []ast.Stmt{inner}, Rbrace: x.Body.Rbrace}
		if rep := n.stmt(inner, info, stack, depth+1); len(rep) != 1 || rep[0] != ast.Stmt(inner) {
			body.List = rep
		}
		out = &ast.IfStmt{If: x.If, Cond: be.X, Body: body, Else: x.Else}
	}
	n.changed[n.curFile] = true
	// the left operand may itself begin with a helper call
	return n.stmt(out, info, stack, depth+1), true
}

// wouldSplit: the condition of x is "A op helper(..)" with an expandable helper as the start of the right operand, and
// the init statement does not itself call an expandable helper (that case is handled as an assignment followed by a test).
func (n *normalizer) wouldSplit(x *ast.IfStmt, info *types.Info, stack map[*types.Func]bool, depth int) bool {
	be, ok := unparen(x.Cond).(*ast.BinaryExpr)
	if !ok || (be.Op != token.LOR && be.Op != token.LAND) || depth > 3 {
		return false
	}
	y := be.Y
	slot := firstEvaluated(&y)
	if slot == nil {
		return false
	}
	call, ok := unparen(*slot).(*ast.CallExpr)
	if !ok {
		return false
	}
	fn, d := n.callee(info, call)
	if fn == nil || d == nil || stack[fn] || eligible(d, false) != "" {
		return false
	}
	if as, ok := x.Init.(*ast.AssignStmt); ok && len(as.Rhs) == 1 {
		if c2, ok := unparen(as.Rhs[0]).(*ast.CallExpr); ok {
			if f2, d2 := n.callee(info, c2); f2 != nil && d2 != nil {
				return false
			}
		}
	}
	return true
}
