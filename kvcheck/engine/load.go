// Package engine holds the shared static analyses used by the kvass property rules.
package engine

import (
	"fmt"
	"go/token"
	"go/types"
	"os"
	"path/filepath"
	"sort"
	"strings"

	"golang.org/x/tools/go/packages"
	"golang.org/x/tools/go/ssa"
	"golang.org/x/tools/go/ssa/ssautil"
)

// ModPath is the module path of the analysed repository.
const ModPath = "tkestack.io/kvass"

// LoadOptions selects what is loaded.
type LoadOptions struct {
	RepoDir string            // default /repo
	Overlay map[string][]byte // absolute file name -> replacement content
	Whole   bool              // load dependencies from source too (whole-program SSA)
	GOARCH  string            // optional
	// NoNormalize analyses the program as written; by default calls of functions that the reference tree
	// does not have are expanded at their call sites first (norm.go).
	NoNormalize bool
	// KnownFuncs replaces the reference table (tests).
	KnownFuncs map[string]bool
}

// Prog is the loaded, type-checked program in SSA form.
type Prog struct {
	Fset     *token.FileSet
	Pkgs     []*packages.Package // kvass packages, sorted by path
	ByPath   map[string]*packages.Package
	SSA      *ssa.Program
	SSAPkgs  map[string]*ssa.Package
	RepoDir  string
	Funcs    []*ssa.Function // every source function of kvass packages incl. anonymous ones
	Whole    bool
	NFiles   int
	Problems []string // unresolved anchors and other reasons for "undecided"
	// Normalisation record: helpers expanded (name -> number of call sites), helpers left as calls with the reason, and
	// a note when the expanded program could not be used.
	NormInlined map[string]int
	NormSkipped map[string]string
	NormNote    string

	fiCache  map[*ssa.Function]*FuncInfo
	fiDeep   map[*ssa.Function]*FuncInfo
	modCache map[*ssa.Function]map[memKey]bool
	globals  map[*ssa.Global]*globalInit
}

func goEnv(extra ...string) []string {
	env := []string{}
	for _, e := range os.Environ() {
		k := strings.SplitN(e, "=", 2)[0]
		switch k {
		case "GOFLAGS", "GOPROXY", "GOSUMDB", "GOWORK", "GOTOOLCHAIN", "GOARCH":
			continue
		}
		env = append(env, e)
	}
	env = append(env, "GOFLAGS=-mod=mod", "GOPROXY=off", "GOSUMDB=off", "GOWORK=off", "GOTOOLCHAIN=local")
	return append(env, extra...)
}

// Load type-checks the repository and builds SSA. /repo is never written:
// go.mod and go.sum are copied to a private directory and passed with -modfile.
func Load(opt LoadOptions) (*Prog, error) {
	if opt.RepoDir == "" {
		opt.RepoDir = "/repo"
	}
	scratch, err := os.MkdirTemp("", "kvcheck-mod-")
	if err != nil {
		return nil, err
	}
	defer os.RemoveAll(scratch)
	for _, f := range []string{"go.mod", "go.sum"} {
		b, err := os.ReadFile(filepath.Join(opt.RepoDir, f))
		if err != nil {
			return nil, fmt.Errorf("read %s: %v", f, err)
		}
		if err := os.WriteFile(filepath.Join(scratch, f), b, 0644); err != nil {
			return nil, err
		}
	}
	mode := packages.NeedName | packages.NeedFiles | packages.NeedCompiledGoFiles | packages.NeedImports |
		packages.NeedTypes | packages.NeedTypesSizes | packages.NeedSyntax | packages.NeedTypesInfo | packages.NeedModule
	if opt.Whole {
		mode |= packages.NeedDeps
	}
	var extra []string
	if opt.GOARCH != "" {
		extra = append(extra, "GOARCH="+opt.GOARCH)
	}
	cfg := &packages.Config{
		Mode:       mode,
		Dir:        opt.RepoDir,
		Env:        goEnv(extra...),
		BuildFlags: []string{"-modfile=" + filepath.Join(scratch, "go.mod")},
		Tests:      false,
		Overlay:    opt.Overlay,
	}
	initial, err := packages.Load(cfg, "./...")
	if err != nil {
		return nil, fmt.Errorf("packages.Load: %v", err)
	}
	p := &Prog{ByPath: map[string]*packages.Package{}, SSAPkgs: map[string]*ssa.Package{}, RepoDir: opt.RepoDir, Whole: opt.Whole, fiCache: map[*ssa.Function]*FuncInfo{}}
	var errs []string
	for _, pk := range initial {
		if !strings.HasPrefix(pk.PkgPath, ModPath) {
			continue
		}
		for _, e := range pk.Errors {
			errs = append(errs, e.Error())
		}
		p.Pkgs = append(p.Pkgs, pk)
		p.ByPath[pk.PkgPath] = pk
		p.NFiles += len(pk.CompiledGoFiles)
	}
	if len(errs) > 0 {
		return nil, fmt.Errorf("type errors in kvass packages: %s", strings.Join(errs, "; "))
	}
	if len(p.Pkgs) == 0 {
		return nil, fmt.Errorf("no kvass packages loaded from %s", opt.RepoDir)
	}
	sort.Slice(p.Pkgs, func(i, j int) bool { return p.Pkgs[i].PkgPath < p.Pkgs[j].PkgPath })
	p.Fset = p.Pkgs[0].Fset
	if !opt.NoNormalize {
		known := opt.KnownFuncs
		var ref *refTable
		if known == nil {
			known = ReferenceFuncs()
			ref = referenceTable()
		}
		nov, inl, skipped, nerr := normalize(p.Pkgs, p.Fset, known, ref)
		if nerr != nil || len(nov) > 0 {
			// the syntax trees of this load were edited in place: load again, with or without the expansion
			o2 := opt
			o2.NoNormalize = true
			if nerr == nil {
				o2.Overlay = map[string][]byte{}
				for k, v := range opt.Overlay {
					o2.Overlay[k] = v
				}
				for k, v := range nov {
					o2.Overlay[k] = v
				}
				if p2, err2 := Load(o2); err2 == nil {
					p2.NormInlined, p2.NormSkipped = inl, skipped
					return p2, nil
				} else {
					nerr = fmt.Errorf("expanded program does not load: %v", err2)
				}
			}
			o2.Overlay = opt.Overlay
			p3, err3 := Load(o2)
			if err3 != nil {
				return nil, err3
			}
			p3.NormNote = "analysed as written (" + nerr.Error() + ")"
			p3.NormSkipped = skipped
			return p3, nil
		}
		p.NormSkipped = skipped
	}
	bmode := ssa.InstantiateGenerics
	var spkgs []*ssa.Package
	if opt.Whole {
		p.SSA, spkgs = ssautil.AllPackages(p.Pkgs, bmode)
	} else {
		p.SSA, spkgs = ssautil.Packages(p.Pkgs, bmode)
	}
	for i, sp := range spkgs {
		if sp == nil {
			return nil, fmt.Errorf("no SSA package for %s", p.Pkgs[i].PkgPath)
		}
	}
	p.SSA.Build()
	for _, sp := range p.SSA.AllPackages() {
		p.SSAPkgs[sp.Pkg.Path()] = sp
	}
	// collect all source functions of kvass packages
	seen := map[*ssa.Function]bool{}
	var add func(f *ssa.Function)
	add = func(f *ssa.Function) {
		if f == nil || seen[f] || f.Blocks == nil {
			return
		}
		seen[f] = true
		p.Funcs = append(p.Funcs, f)
		for _, a := range f.AnonFuncs {
			add(a)
		}
	}
	for _, pk := range p.Pkgs {
		sp := p.SSAPkgs[pk.PkgPath]
		if sp == nil {
			continue
		}
		for _, m := range sp.Members {
			switch m := m.(type) {
			case *ssa.Function:
				add(m)
			case *ssa.Type:
				for _, T := range []types.Type{m.Type(), types.NewPointer(m.Type())} {
					ms := p.SSA.MethodSets.MethodSet(T)
					for i := 0; i < ms.Len(); i++ {
						fn := p.SSA.MethodValue(ms.At(i))
						if fn != nil && fn.Synthetic == "" {
							add(fn)
						}
					}
				}
			}
		}
	}
	sort.Slice(p.Funcs, func(i, j int) bool { return p.Funcs[i].String() < p.Funcs[j].String() })
	return p, nil
}

// Rel returns a repository-relative file:line for a position.
func (p *Prog) Rel(pos token.Pos) string {
	if !pos.IsValid() {
		return "-"
	}
	ps := p.Fset.Position(pos)
	f := ps.Filename
	if r, err := filepath.Rel(p.RepoDir, f); err == nil && !strings.HasPrefix(r, "..") {
		f = r
	}
	return fmt.Sprintf("%s:%d", f, ps.Line)
}
