package engine

import (
	"sort"
	"strings"

	"golang.org/x/tools/go/ssa"
)

// table is a truth table over k atoms: bit m is set when assignment m satisfies the formula.
type table []uint64

func newTable(k int, fill bool) table {
	n := (1<<uint(k) + 63) / 64
	t := make(table, n)
	if fill {
		for i := range t {
			t[i] = ^uint64(0)
		}
		if k < 6 {
			t[0] = (uint64(1) << (1 << uint(k))) - 1
		}
	}
	return t
}

func (t table) and(o table) table {
	r := make(table, len(t))
	for i := range t {
		r[i] = t[i] & o[i]
	}
	return r
}
func (t table) or(o table) table {
	r := make(table, len(t))
	for i := range t {
		r[i] = t[i] | o[i]
	}
	return r
}
func (t table) empty() bool {
	for _, w := range t {
		if w != 0 {
			return false
		}
	}
	return true
}
func (t table) get(m int) bool { return t[m/64]&(1<<uint(m%64)) != 0 }
func (t table) set(m int)      { t[m/64] |= 1 << uint(m%64) }

// PCView computes path conditions of one function projected on a fixed atom set.
type PCView struct {
	fi     *FuncInfo
	atoms  []string
	idx    map[string]int
	blocks map[int]table
	axioms table
	entry  table
	from   *ssa.BasicBlock // when set: only paths starting at this block (condition true there)
	cut    map[int]bool    // blocks through which no path may pass
}

// AllAtoms returns every atom occurring in a branch condition of the function.
func (fi *FuncInfo) AllAtoms() []string {
	set := map[string]bool{}
	for _, b := range fi.Fn.Blocks {
		if len(b.Instrs) == 0 {
			continue
		}
		if iff, ok := b.Instrs[len(b.Instrs)-1].(*ssa.If); ok {
			fi.Cond(iff.Cond).collect(set)
		}
	}
	var out []string
	for a := range set {
		out = append(out, a)
	}
	sort.Strings(out)
	return out
}

func atomSym(a string) (string, bool) {
	if (strings.HasPrefix(a, "lt0(") || strings.HasPrefix(a, "eq0(")) && strings.HasSuffix(a, ")") {
		s, _ := splitConst(a[4 : len(a)-1])
		return s, true
	}
	return "", false
}

// View builds a PCView whose atom set is the atoms of r plus the function's atoms that
// share a linear symbolic part with one of them (for bound reasoning).
func (fi *FuncInfo) View(r *Formula) *PCView {
	keep := map[string]bool{}
	r.collect(keep)
	syms := map[string]bool{}
	for a := range keep {
		if s, ok := atomSym(a); ok {
			syms[s] = true
		}
	}
	chain := []*FuncInfo{fi}
	for p := fi.Parent; p != nil; p = p.Parent {
		chain = append(chain, p)
	}
	for _, f := range chain {
		for _, a := range f.AllAtoms() {
			if s, ok := atomSym(a); ok && syms[s] {
				keep[a] = true
			}
		}
	}
	var atoms []string
	for a := range keep {
		atoms = append(atoms, a)
	}
	sort.Strings(atoms)
	if len(atoms) > 18 {
		atoms = atoms[:0]
		for _, a := range r.Atoms() {
			atoms = append(atoms, a)
		}
	}
	return fi.viewOf(atoms)
}

func (fi *FuncInfo) viewOf(atoms []string) *PCView {
	v := &PCView{fi: fi, atoms: atoms, idx: map[string]int{}, blocks: map[int]table{}}
	for i, a := range atoms {
		v.idx[a] = i
	}
	v.axioms = newTable(len(atoms), true)
	for _, ax := range LinAxioms(atoms) {
		v.axioms = v.axioms.and(v.tableOf(ax))
	}
	v.entry = v.axioms
	if fi.Parent != nil && fi.MC != nil {
		pv := fi.Parent.viewOf(atoms)
		v.entry = v.entry.and(pv.Block(fi.MC.Block()))
	}
	return v
}

// tableOf evaluates f over the view's atoms, existentially quantifying its other atoms.
func (v *PCView) tableOf(f *Formula) table {
	k := len(v.atoms)
	var other []string
	for _, a := range f.Atoms() {
		if _, ok := v.idx[a]; !ok {
			other = append(other, a)
		}
	}
	t := newTable(k, false)
	if len(other) > 16 {
		return newTable(k, true) // give up: unknown
	}
	env := map[string]bool{}
	for m := 0; m < 1<<uint(k); m++ {
		for i, a := range v.atoms {
			env[a] = m&(1<<uint(i)) != 0
		}
		sat := false
		for o := 0; o < 1<<uint(len(other)) && !sat; o++ {
			for i, a := range other {
				env[a] = o&(1<<uint(i)) != 0
			}
			if f.Eval(env) {
				sat = true
			}
		}
		if sat {
			t.set(m)
		}
	}
	return t
}

// Block returns the projected path condition of b.
func (v *PCView) Block(b *ssa.BasicBlock) table {
	if t, ok := v.blocks[b.Index]; ok {
		return t
	}
	k := len(v.atoms)
	v.blocks[b.Index] = newTable(k, false)
	var t table
	if v.cut[b.Index] {
		v.blocks[b.Index] = newTable(k, false)
		return v.blocks[b.Index]
	}
	if v.from != nil && b == v.from {
		t = v.axioms
	} else if v.from == nil && b.Index == 0 {
		t = v.entry
	} else {
		t = newTable(k, false)
		for _, p := range b.Preds {
			if v.fi.IsBackEdge(p, b) {
				continue
			}
			pt := v.Block(p)
			if pt.empty() {
				continue
			}
			t = t.or(pt.and(v.tableOf(v.fi.EdgeCond(p, b))))
		}
	}
	v.blocks[b.Index] = t
	return t
}

// Implies decides PC(b) ⇒ r. The second result lists literals over the view's atoms that
// PC(b) does imply (for reports).
func (v *PCView) Implies(b *ssa.BasicBlock, r *Formula) (bool, []string) {
	pc := v.Block(b)
	rt := v.tableOf(r)
	ok := true
	if pc.empty() && v.from == nil && len(v.cut) == 0 {
		// no path reaches the construct: a vacuous "holds" would hide dead code behind a guard that can never pass
		return false, []string{"<unreachable: no feasible path to this construct>"}
	}
	for i := range pc {
		if pc[i]&^rt[i] != 0 {
			ok = false
			break
		}
	}
	return ok, v.Literals(b)
}

// ViewAll is a view over every atom of the function (and of r), so that no branch condition is
// projected away; nil when there are too many. Paths start at 'from' (nil: function entry).
func (fi *FuncInfo) ViewAll(r *Formula, from *ssa.BasicBlock) *PCView {
	keep := map[string]bool{}
	r.collect(keep)
	for _, a := range fi.AllAtoms() {
		keep[a] = true
	}
	var atoms []string
	for a := range keep {
		atoms = append(atoms, a)
	}
	sort.Strings(atoms)
	if len(atoms) > 20 {
		return nil
	}
	v := fi.viewOf(atoms)
	v.from = from
	v.cut = map[int]bool{}
	return v
}

// ImpliedBy decides r ⇒ PC(b): whenever r holds (at the view's starting point), b is reached.
// Sound only for acyclic regions between the starting point and b (back edges are not followed).
func (v *PCView) ImpliedBy(b *ssa.BasicBlock, r *Formula) bool {
	pc := v.Block(b)
	rt := v.tableOf(r)
	if v.from != nil {
		rt = rt.and(v.axioms)
	} else {
		rt = rt.and(v.entry)
	}
	for i := range rt {
		if rt[i]&^pc[i] != 0 {
			return false
		}
	}
	return true
}

// Literals lists the atoms (or negations) of the view that hold on every path to b.
func (v *PCView) Literals(b *ssa.BasicBlock) []string {
	pc := v.Block(b)
	var have []string
	if pc.empty() {
		return []string{"<unreachable>"}
	}
	for i, a := range v.atoms {
		allT, allF := true, true
		for m := 0; m < 1<<uint(len(v.atoms)); m++ {
			if !pc.get(m) {
				continue
			}
			if m&(1<<uint(i)) != 0 {
				allF = false
			} else {
				allT = false
			}
		}
		if allT {
			have = append(have, a)
		} else if allF {
			have = append(have, "¬"+a)
		}
	}
	return have
}

// Implies is the convenience form: does every path to block b satisfy r?
func (fi *FuncInfo) Implies(b *ssa.BasicBlock, r *Formula) (bool, []string) {
	ok, have := fi.View(r).Implies(b, r)
	if !ok && !fi.deep {
		// second chance: look through small helper predicates called in the guards
		if ok2, have2 := fi.Deep().View(r).Implies(b, r); ok2 {
			return true, have2
		}
	}
	return ok, have
}

// ImpliesAt is Implies for the block of an instruction.
func (fi *FuncInfo) ImpliesAt(in ssa.Instruction, r *Formula) (bool, []string) {
	return fi.Implies(in.Block(), r)
}

// Guards lists every literal (over all atoms of the function and its parents) that holds on every path to b.
func (fi *FuncInfo) Guards(b *ssa.BasicBlock) []string {
	set := map[string]bool{}
	for f := fi; f != nil; f = f.Parent {
		for _, a := range f.AllAtoms() {
			set[a] = true
		}
	}
	var out []string
	var atoms []string
	for a := range set {
		atoms = append(atoms, a)
	}
	sort.Strings(atoms)
	for _, a := range atoms {
		v := fi.viewOf([]string{a})
		out = append(out, v.Literals(b)...)
	}
	return out
}

// ViewOpt is View with path restrictions: only paths that start at 'from' (nil: function entry)
// and that avoid every block in cut.
func (fi *FuncInfo) ViewOpt(r *Formula, from *ssa.BasicBlock, cut ...*ssa.BasicBlock) *PCView {
	v := fi.View(r)
	v.from = from
	v.cut = map[int]bool{}
	for _, c := range cut {
		v.cut[c.Index] = true
	}
	v.blocks = map[int]table{}
	return v
}

// Reachable reports whether the view has any path to b.
func (v *PCView) Reachable(b *ssa.BasicBlock) bool { return !v.Block(b).empty() }

// ImpliesFrom: does every path from block 'from' to block 'to' satisfy r? (vacuously true when none)
func (fi *FuncInfo) ImpliesFrom(from, to *ssa.BasicBlock, r *Formula) (bool, []string) {
	v := fi.ViewOpt(r, from)
	ok, have := v.Implies(to, r)
	if !ok && !fi.deep {
		if ok2, have2 := fi.Deep().ViewOpt(r, from).Implies(to, r); ok2 {
			return true, have2
		}
	}
	return ok, have
}

// MustPass reports whether every CFG path (back edges included) from instruction 'from' (exclusive)
// to instruction 'to' executes an instruction satisfying via. It returns false with a witness block
// list when a path avoiding via exists. If 'to' is nil, every path to any function exit is meant.
func (fi *FuncInfo) MustPass(from ssa.Instruction, to ssa.Instruction, via func(ssa.Instruction) bool) bool {
	type pos struct {
		b *ssa.BasicBlock
		i int
	}
	seen := map[*ssa.BasicBlock]bool{}
	var scan func(b *ssa.BasicBlock, start int) bool // returns true if 'to' reached avoiding via
	scan = func(b *ssa.BasicBlock, start int) bool {
		for i := start; i < len(b.Instrs); i++ {
			in := b.Instrs[i]
			if in == to {
				return true
			}
			if via(in) {
				return false
			}
			if to == nil {
				switch in.(type) {
				case *ssa.Return, *ssa.Panic:
					return true
				}
			}
		}
		for _, s := range b.Succs {
			if seen[s] {
				continue
			}
			seen[s] = true
			if scan(s, 0) {
				return true
			}
		}
		return false
	}
	var fb *ssa.BasicBlock
	fidx := 0
	if from == nil {
		fb = fi.Fn.Blocks[0]
	} else {
		fb = from.Block()
		for i, in := range fb.Instrs {
			if in == from {
				fidx = i + 1
			}
		}
	}
	return !scan(fb, fidx)
}

// ImpliesEdge decides (PC(pred) ∧ cond(pred→succ)) ⇒ r.
func (v *PCView) ImpliesEdge(pred, succ *ssa.BasicBlock, r *Formula) (bool, []string) {
	pc := v.Block(pred).and(v.tableOf(v.fi.EdgeCond(pred, succ)))
	rt := v.tableOf(r)
	ok := true
	for i := range pc {
		if pc[i]&^rt[i] != 0 {
			ok = false
		}
	}
	var have []string
	if pc.empty() {
		return true, []string{"<unreachable>"}
	}
	for i, a := range v.atoms {
		allT, allF := true, true
		for m := 0; m < 1<<uint(len(v.atoms)); m++ {
			if !pc.get(m) {
				continue
			}
			if m&(1<<uint(i)) != 0 {
				allF = false
			} else {
				allT = false
			}
		}
		if allT {
			have = append(have, a)
		} else if allF {
			have = append(have, "¬"+a)
		}
	}
	return ok, have
}

// IsStructuralLiteral reports whether a literal only describes loop mechanics (range exhaustion, index bounds).
func IsStructuralLiteral(lit string) bool {
	return strings.Contains(lit, "rangeok:") || strings.Contains(lit, "lt0(len(")
}

// ImpliesVersioned decides a requirement about memory whose canonical text depends on the place where it is read
// (mk renders it for a given instruction, with the version tags of that place). Where the plain test fails at a
// join because the paths reaching it established the requirement for different versions of the same location (one
// path tested the value as first loaded, another reloaded it and tested again), every incoming edge is decided with
// the text of its own end: the location is not written along the edge, so what holds for the version at the end of
// the predecessor holds for the joined version.
func (fi *FuncInfo) ImpliesVersioned(at ssa.Instruction, mk func(at ssa.Instruction) *Formula) bool {
	if ok, _ := fi.ImpliesAt(at, mk(at)); ok {
		return true
	}
	state := map[*ssa.BasicBlock]int{} // 1 in progress, 2 holds, 3 fails
	var holds func(b *ssa.BasicBlock) bool
	holds = func(b *ssa.BasicBlock) bool {
		switch state[b] {
		case 1, 3:
			return false
		case 2:
			return true
		}
		state[b] = 1
		res := false
		if ok, _ := fi.Implies(b, mk(b.Instrs[0])); ok {
			res = true
		} else if len(b.Preds) > 0 {
			res = true
			for _, p := range b.Preds {
				if fi.IsBackEdge(p, b) {
					res = false
					break
				}
				last := p.Instrs[len(p.Instrs)-1]
				f := mk(last)
				if ok, _ := fi.View(f).ImpliesEdge(p, b, f); ok {
					continue
				}
				if !fi.deep {
					if ok, _ := fi.Deep().View(f).ImpliesEdge(p, b, f); ok {
						continue
					}
				}
				if mk(p.Instrs[0]).String() == f.String() && holds(p) {
					continue
				}
				res = false
				break
			}
		}
		if res {
			state[b] = 2
		} else {
			state[b] = 3
		}
		return res
	}
	b := at.Block()
	if mk(b.Instrs[0]).String() != mk(at).String() {
		return false
	}
	return holds(b)
}

// DependsOn reports whether reaching b depends on the truth of atom: there are two assignments of the view's atoms,
// both consistent, that differ in that atom only, of which one reaches b and the other does not. Use with ViewAll so
// that no branch condition is projected away (a condition hidden behind a disjunction of paths is still found).
func (v *PCView) DependsOn(b *ssa.BasicBlock, atom string) bool {
	i, ok := v.idx[atom]
	if !ok {
		return false
	}
	pc := v.Block(b)
	bit := 1 << uint(i)
	for m := 0; m < 1<<uint(len(v.atoms)); m++ {
		if !pc.get(m) {
			continue
		}
		o := m ^ bit
		if !pc.get(o) && v.axioms.get(o) {
			return true
		}
	}
	return false
}

// Atoms lists the atoms of the view.
func (v *PCView) Atoms() []string { return v.atoms }
