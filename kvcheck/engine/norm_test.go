package engine

import (
	"os"
	"path/filepath"
	"strings"
	"testing"

	"golang.org/x/tools/go/ssa"
)

const normProg = `package t

import (
	"errors"
	"os"
)

type Opt struct{ Min, Max int32 }
type S struct {
	items map[int]*S
	n     int32
	ok    bool
}

func use(...interface{}) {}

// reference functions (kept as they are)

func Clamp(o *Opt, x int32) int32 {
	x = limit(o, x)
	use("clamped", x)
	return x
}

func Flag(s *S, a, b int32) {
	s.ok = inSync(s, a, b)
}

func Search(all []*S, me *S, k int) {
	for _, other := range all {
		if other == me {
			continue
		}
		if covered(me, other, k) {
			delete(me.items, k)
			break
		}
	}
}

func Save(dir string, data []byte) error {
	return writeAtomically(dir, "store", data)
}

func Body(list []*S) (int, error) {
	total := 0
	for _, s := range list {
		n, err := one(s)
		if err != nil {
			use("skip")
			continue
		}
		total += n
	}
	return total, nil
}

// helpers that the reference table does not list

func limit(o *Opt, x int32) int32 {
	if x > o.Max {
		x = o.Max
	}
	if x < o.Min {
		x = o.Min
	}
	return x
}

func inSync(s *S, a, b int32) bool {
	if a != b {
		return false
	}
	if s.n == 0 {
		return false
	}
	return true
}

func covered(me, other *S, k int) bool {
	o := other.items[k]
	if o == nil {
		return false
	}
	for _, x := range other.items {
		if x == o && x.n > me.n {
			return true
		}
	}
	return false
}

func writeAtomically(dir, name string, data []byte) error {
	f, err := os.CreateTemp(dir, name)
	if err != nil {
		return err
	}
	defer os.Remove(f.Name())
	if err := writeAndSync(f, data); err != nil {
		_ = f.Close()
		return err
	}
	return os.Rename(f.Name(), dir+"/"+name)
}

func writeAndSync(f *os.File, data []byte) error {
	if _, err := f.Write(data); err != nil {
		return err
	}
	return f.Sync()
}

func one(s *S) (int, error) {
	if s == nil {
		return 0, errors.New("nil")
	}
	return int(s.n), nil
}
`

func TestNormalisation(t *testing.T) {
	dir := t.TempDir()
	must := func(err error) {
		if err != nil {
			t.Fatal(err)
		}
	}
	must(os.WriteFile(filepath.Join(dir, "go.mod"), []byte("module "+ModPath+"\n\ngo 1.17\n"), 0644))
	must(os.WriteFile(filepath.Join(dir, "go.sum"), nil, 0644))
	must(os.MkdirAll(filepath.Join(dir, "pkg", "t"), 0755))
	must(os.WriteFile(filepath.Join(dir, "pkg", "t", "t.go"), []byte(normProg), 0644))
	known := map[string]bool{}
	for _, f := range []string{"Clamp", "Flag", "Search", "Save", "Body", "use"} {
		known[ModPath+"/pkg/t."+f] = true
	}
	p, err := Load(LoadOptions{RepoDir: dir, KnownFuncs: known})
	if err != nil {
		t.Fatal(err)
	}
	if p.NormNote != "" {
		t.Fatalf("the expanded program was not used: %s", p.NormNote)
	}
	for _, h := range []string{"limit", "inSync", "covered", "writeAtomically", "writeAndSync", "one"} {
		if p.NormInlined[ModPath+"/pkg/t."+h] == 0 {
			t.Errorf("helper %s was not expanded (left as call: %v)", h, p.NormSkipped)
		}
		for _, f := range p.Funcs {
			if f.Name() == h {
				t.Errorf("helper %s is still declared although every call of it was expanded", h)
			}
		}
	}
	fn := func(name string) *ssa.Function { return fnNamed(t, p, name) }
	// value helper: the clamp is visible in the caller again
	{
		fi, c := useCall(t, p, fn("Clamp"), "clamped")
		_ = c
		found := false
		for _, a := range fi.AllAtoms() {
			if strings.Contains(a, "o.Max") {
				found = true
			}
		}
		if !found {
			t.Error("Clamp: the comparison with o.Max is not in the caller after expansion")
		}
	}
	// flag helper: the constant true is stored under the helper's conditions
	{
		f := fn("Flag")
		fi := p.Info(f)
		n := 0
		for _, b := range f.Blocks {
			for _, in := range b.Instrs {
				st, ok := in.(*ssa.Store)
				if !ok {
					continue
				}
				if c, ok := st.Val.(*ssa.Const); ok && c.Value != nil && c.Value.ExactString() == "true" {
					n++
					if ok, have := fi.Implies(b, And(A("eq0(a-b)"), Not(A("eq0(s.n)")))); !ok {
						t.Errorf("Flag: store of true not under a == b ∧ s.n != 0: %v", have)
					}
				}
			}
		}
		if n != 1 {
			t.Errorf("Flag: want one store of the constant true, got %d", n)
		}
	}
	// searching predicate: the delete sits inside the helper's loop, and its break still leaves the caller's loop
	{
		f := fn("Search")
		var del *ssa.Call
		for _, b := range f.Blocks {
			for _, in := range b.Instrs {
				if c, ok := in.(*ssa.Call); ok {
					if bi, ok := c.Call.Value.(*ssa.Builtin); ok && bi.Name() == "delete" {
						del = c
					}
				}
			}
		}
		if del == nil {
			t.Fatal("Search: delete not found")
		}
		fi := p.Info(f)
		depth := 0
		for _, h := range f.Blocks {
			for _, pr := range h.Preds {
				if fi.IsBackEdge(pr, h) && h.Dominates(del.Block()) {
					depth++
					break
				}
			}
		}
		if depth < 2 {
			t.Errorf("Search: the delete is inside %d loops, want the caller's loop and the helper's", depth)
		}
		// after the delete the function is left (break of the outer loop): no path from the delete back to a loop header
		for _, sc := range del.Block().Succs {
			for _, h := range f.Blocks {
				if fi.IsBackEdge(del.Block(), h) && sc == h {
					t.Error("Search: the break after the delete continues a loop")
				}
			}
		}
	}
	// tail call with defer: the rename's result is returned directly
	{
		f := fn("Save")
		ok := false
		for _, b := range f.Blocks {
			if ret, isRet := b.Instrs[len(b.Instrs)-1].(*ssa.Return); isRet && b != f.Recover {
				for _, in := range b.Instrs {
					if c, isCall := in.(*ssa.Call); isCall && c.Call.StaticCallee() != nil && c.Call.StaticCallee().Name() == "Rename" {
						if len(ret.Results) == 1 {
							ok = true
						}
					}
				}
			}
		}
		if !ok {
			t.Error("Save: no return block that calls os.Rename")
		}
	}
}
