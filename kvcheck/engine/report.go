package engine

import (
	"crypto/sha1"
	"encoding/json"
	"fmt"
	"os"
	"path/filepath"
	"sort"
	"strings"
	"time"
)

// Status of an obligation.
type Status string

const (
	Discharged Status = "discharged"
	Violated   Status = "violated"
	Undecided  Status = "undecided"
)

// Obligation is one instance of a rule at one construct.
type Obligation struct {
	Rule      string `json:"rule"`      // e.g. C04/R4.2-capacity
	Key       string `json:"key"`       // rule + construct, never a line number
	Construct string `json:"construct"` // human description with file:line (informational)
	Need      string `json:"need"`
	Have      string `json:"have"`
	Status    Status `json:"status"`
	Trivial   bool   `json:"trivial,omitempty"` // required formula is 'true'
}

// Report collects the obligations of one property run.
type Report struct {
	Property    string
	Tier        string
	Obligations []*Obligation
	MinCounts   map[string]int // rule -> minimum instances confirmed by reading
	Notes       []string
	Controls    []ControlResult
	Selftest    map[string]interface{}
	Explanation string
	Assumptions []string
	Analysed    map[string]interface{}
	finalized   bool
}

// ControlResult records one positive control (a derived variant that must be reported).
type ControlResult struct {
	Name     string   `json:"name"`
	Expect   string   `json:"expect_key_prefix"`
	Fired    bool     `json:"fired"`
	Skipped  string   `json:"skipped,omitempty"`
	Reported []string `json:"reported,omitempty"`
}

func NewReport(prop, tier string) *Report {
	return &Report{Property: prop, Tier: tier, MinCounts: map[string]int{}, Analysed: map[string]interface{}{}}
}

// Add records an obligation; key is built from rule and construct key.
func (r *Report) Add(rule, ckey, construct, need, have string, st Status) *Obligation {
	o := &Obligation{Rule: r.Property + "/" + rule, Key: r.Property + "/" + rule + ":" + ckey, Construct: construct, Need: need, Have: have, Status: st}
	r.Obligations = append(r.Obligations, o)
	return o
}

// Check adds an obligation that is discharged iff ok.
func (r *Report) Check(ok bool, rule, ckey, construct, need, have string) *Obligation {
	st := Violated
	if ok {
		st = Discharged
	}
	return r.Add(rule, ckey, construct, need, have, st)
}

// Min declares the minimum number of instances a rule must find.
func (r *Report) Min(rule string, n int) { r.MinCounts[r.Property+"/"+rule] = n }

// KnownFinding is one entry of /verif/known_findings.json.
type KnownFinding struct {
	Property string `json:"property"`
	Key      string `json:"key"`
	Status   string `json:"status"` // known | fixed
	Commit   string `json:"commit,omitempty"`
	What     string `json:"what"`
}

func LoadKnown(path string) ([]KnownFinding, error) {
	b, err := os.ReadFile(path)
	if err != nil {
		return nil, err
	}
	var k []KnownFinding
	if err := json.Unmarshal(b, &k); err != nil {
		return nil, err
	}
	return k, nil
}

// Finish evaluates instance minimums, applies known findings, writes evidence and replay files,
// prints VIOLATION / KNOWN-FINDING lines and returns the exit code.
func (r *Report) Finish(p *Prog, verifDir string, start time.Time, seed int64) int {
	r.Finalize(p)
	return r.finish(p, verifDir, start, seed)
}

// Finalize turns unmet instance minimums, unresolved anchors and controls that did not fire into
// undecided obligations (idempotent).
func (r *Report) Finalize(p *Prog) {
	if r.finalized {
		return
	}
	r.finalized = true
	// minimum instance counts
	count := map[string]int{}
	for _, o := range r.Obligations {
		count[o.Rule]++
	}
	var rules []string
	for rule := range r.MinCounts {
		rules = append(rules, rule)
	}
	sort.Strings(rules)
	for _, rule := range rules {
		if count[rule] < r.MinCounts[rule] {
			r.Obligations = append(r.Obligations, &Obligation{Rule: rule, Key: rule + ":instances", Construct: "rule instance count",
				Need: fmt.Sprintf("at least %d instances (confirmed by reading)", r.MinCounts[rule]), Have: fmt.Sprintf("%d found", count[rule]), Status: Undecided})
		}
	}
	if p != nil {
		for i, pr := range p.Problems {
			r.Obligations = append(r.Obligations, &Obligation{Rule: r.Property + "/anchors", Key: fmt.Sprintf("%s/anchors:%d:%s", r.Property, i, pr), Construct: "anchor resolution", Need: "anchor resolves", Have: pr, Status: Undecided})
		}
	}
	for _, c := range r.Controls {
		if !c.Fired && c.Skipped == "" {
			r.Obligations = append(r.Obligations, &Obligation{Rule: r.Property + "/controls", Key: r.Property + "/controls:" + c.Name, Construct: "positive control " + c.Name,
				Need: "the derived variant is reported with key prefix " + c.Expect, Have: "reported: " + strings.Join(c.Reported, " | "), Status: Undecided})
		}
	}
}

func (r *Report) finish(p *Prog, verifDir string, start time.Time, seed int64) int {
	known, kerr := LoadKnown(filepath.Join(verifDir, "known_findings.json"))
	if kerr != nil && !os.IsNotExist(kerr) {
		r.Obligations = append(r.Obligations, &Obligation{Rule: r.Property + "/known", Key: r.Property + "/known:file", Construct: "known_findings.json", Need: "readable", Have: kerr.Error(), Status: Undecided})
	}
	kn := map[string]KnownFinding{}
	for _, k := range known {
		if k.Status == "known" && k.Property == r.Property {
			kn[k.Key] = k
		}
	}
	_ = os.MkdirAll(filepath.Join(verifDir, "evidence", "replay"), 0755)
	exit := 0
	nviol := 0
	var knownHit []string
	sort.SliceStable(r.Obligations, func(i, j int) bool { return r.Obligations[i].Key < r.Obligations[j].Key })
	for _, o := range r.Obligations {
		if o.Status == Discharged {
			continue
		}
		if k, ok := kn[o.Key]; ok && o.Status == Violated {
			fmt.Printf("KNOWN-FINDING: property=%s %s -- %s\n", r.Property, o.Key, k.What)
			knownHit = append(knownHit, o.Key)
			continue
		}
		nviol++
		exit = 1
		h := sha1.Sum([]byte(o.Key))
		rp := filepath.Join(verifDir, "evidence", "replay", fmt.Sprintf("%s-%x.json", r.Property, h[:6]))
		b, _ := json.MarshalIndent(map[string]interface{}{"property": r.Property, "obligation": o}, "", " ")
		_ = os.WriteFile(rp, b, 0644)
		tag := ""
		if o.Status == Undecided {
			tag = " undecided:"
		}
		fmt.Printf("VIOLATION property=%s replay=%s\n  %srule=%s\n  construct=%s\n  need: %s\n  have: %s\n", r.Property, rp, tag, o.Rule, o.Construct, o.Need, o.Have)
	}
	// evidence
	keys := map[string]bool{}
	nontriv := map[string]bool{}
	var samples []interface{}
	perRule := map[string]int{}
	disch := 0
	for _, o := range r.Obligations {
		keys[o.Key] = true
		if !o.Trivial {
			nontriv[o.Key] = true
		}
		perRule[o.Rule]++
		if o.Status == Discharged {
			disch++
		}
	}
	shown := map[string]int{}
	for _, o := range r.Obligations {
		if shown[o.Rule] < 3 || o.Status != Discharged {
			shown[o.Rule]++
			samples = append(samples, o)
		}
	}
	cov := map[string]interface{}{
		"explanation":         r.Explanation,
		"evaluations":         len(r.Obligations),
		"distinct_nontrivial": len(nontriv),
		"rule":                "one obligation per (rule, construct) found in the current /repo tree; distinct = distinct obligation keys; non-trivial = the required formula is not 'true'",
		"obligations":         len(r.Obligations),
		"discharged":          disch,
		"known_findings_hit":  knownHit,
		"per_rule_instances":  perRule,
		"samples":             samples,
		"positive_controls":   r.Controls,
		"analysed":            r.Analysed,
		"exhaustive":          true,
	}
	if r.Selftest != nil {
		cov["selftest"] = r.Selftest
	}
	if len(r.Notes) > 0 {
		cov["notes"] = r.Notes
	}
	if p != nil {
		nb := 0
		for _, f := range p.Funcs {
			nb += len(f.Blocks)
		}
		r.Analysed["packages"] = len(p.Pkgs)
		r.Analysed["files"] = p.NFiles
		r.Analysed["functions"] = len(p.Funcs)
		r.Analysed["blocks"] = nb
		r.Analysed["whole_program"] = p.Whole
		// functions that the reference tree does not have and whose calls were expanded before the rules ran
		norm := map[string]interface{}{"reference_functions": len(ReferenceFuncs())}
		if len(p.NormInlined) > 0 {
			norm["expanded_call_sites"] = p.NormInlined
		}
		if len(p.NormSkipped) > 0 {
			norm["left_as_calls"] = p.NormSkipped
		}
		if p.NormNote != "" {
			norm["note"] = p.NormNote
		}
		r.Analysed["normalisation"] = norm
	}
	ev := map[string]interface{}{
		"property_id": r.Property,
		"tier":        r.Tier,
		"seed":        seed,
		"level":       "other",
		"coverage":    cov,
		"assumptions": r.Assumptions,
		"wall_s":      time.Since(start).Seconds(),
		"violations":  nviol,
	}
	b, _ := json.MarshalIndent(ev, "", " ")
	if err := os.WriteFile(filepath.Join(verifDir, "evidence", r.Property+".json"), b, 0644); err != nil {
		fmt.Printf("VIOLATION property=%s replay=- undecided: cannot write evidence: %v\n", r.Property, err)
		return 1
	}
	if exit == 0 {
		fmt.Printf("OK property=%s tier=%s obligations=%d discharged=%d known=%d controls=%d wall=%.1fs\n", r.Property, r.Tier, len(r.Obligations), disch, len(knownHit), len(r.Controls), time.Since(start).Seconds())
	}
	return exit
}
