package engine

import (
	"crypto/sha1"
	"fmt"
	"go/token"
	"go/types"
	"sort"
	"strings"

	"golang.org/x/tools/go/ssa"
)

// Memory versioning. A load is rendered as an access path; two loads with the same path are the
// same symbol only if no write to (any field on) that path can happen between them. Writes are
// matched by field identity (any base object: a conservative may-alias), by element type for
// maps/slices, and by cell for non-escaping locals. Calls to kvass functions count as writes to
// everything the callee may (transitively) write.

type memKey string

func fieldKey(f *types.Var) memKey {
	return memKey(fmt.Sprintf("f:%p", f))
}
func elemKey(t types.Type) memKey { return memKey("e:" + types.TypeString(t.Underlying(), nil)) }
func cellKey(a ssa.Value) memKey  { return memKey(fmt.Sprintf("c:%p", a)) }

type memWrite struct {
	in   ssa.Instruction
	keys map[memKey]bool
}

type memInfo struct {
	writes    []memWrite
	reach     [][]bool       // reach[a][b]: block b reachable from block a in the acyclic CFG (a != b)
	loopsOf   map[int][]int  // block index -> indices of loops (by header) containing it
	loopBlock map[int][]bool // loop header index -> membership
	instrIdx  map[ssa.Instruction]int
}

// structKeys adds the keys of all fields written by storing a whole value of type t.
func structKeys(t types.Type, keys map[memKey]bool, depth int) {
	st, ok := t.Underlying().(*types.Struct)
	if !ok || depth > 4 {
		return
	}
	for i := 0; i < st.NumFields(); i++ {
		keys[fieldKey(st.Field(i))] = true
		structKeys(st.Field(i).Type(), keys, depth+1)
	}
}

// addrKeys returns the memory keys touched by an access through address a (the chain of
// FieldAddr/IndexAddr steps up to the first loaded pointer).
func addrKeys(a ssa.Value, keys map[memKey]bool) {
	for d := 0; d < 16; d++ {
		switch x := a.(type) {
		case *ssa.FieldAddr:
			keys[fieldKey(FieldOf(x))] = true
			// continue only through embedded-by-value structs: x.X is an address computed without a load
			a = x.X
			continue
		case *ssa.IndexAddr:
			keys[elemKey(x.X.Type())] = true
			if pt, ok := x.X.Type().Underlying().(*types.Pointer); ok {
				keys[elemKey(pt.Elem())] = true
			}
			a = x.X
			continue
		case *ssa.Alloc:
			keys[cellKey(x)] = true
		case *ssa.Global:
			keys[cellKey(x)] = true
		}
		return
	}
}

// writeKeys: a store through address a changes the addressed field/element/cell itself (and, for a
// struct value, its nested fields - added by the caller); enclosing by-value structs are unaffected
// as far as their OTHER fields are concerned.
func writeKeys(a ssa.Value, keys map[memKey]bool) {
	switch x := a.(type) {
	case *ssa.FieldAddr:
		keys[fieldKey(FieldOf(x))] = true
	case *ssa.IndexAddr:
		keys[elemKey(x.X.Type())] = true
		if pt, ok := x.X.Type().Underlying().(*types.Pointer); ok {
			keys[elemKey(pt.Elem())] = true
		}
	case *ssa.Alloc:
		keys[cellKey(x)] = true
	case *ssa.Global:
		keys[cellKey(x)] = true
	}
}

// modSet computes (and caches) the set of keys a function may write, transitively through static
// callees with bodies and closures it creates.
func (p *Prog) modSet(fn *ssa.Function, stack map[*ssa.Function]bool) map[memKey]bool {
	if p.modCache == nil {
		p.modCache = map[*ssa.Function]map[memKey]bool{}
	}
	if m, ok := p.modCache[fn]; ok {
		return m
	}
	if stack[fn] {
		return nil
	}
	stack[fn] = true
	defer delete(stack, fn)
	m := map[memKey]bool{}
	fi := p.Info(fn)
	for _, b := range fn.Blocks {
		for _, in := range b.Instrs {
			if st, ok := in.(*ssa.Store); ok {
				// writes into a local object that never escapes are invisible to callers
				if al := rootAlloc(st.Addr); al != nil && al.Parent() == fn && !fi.addrEscapes(al) {
					continue
				}
			}
			instrWrites(p, in, m, stack)
		}
	}
	p.modCache[fn] = m
	return m
}

func instrWrites(p *Prog, in ssa.Instruction, keys map[memKey]bool, stack map[*ssa.Function]bool) {
	switch in := in.(type) {
	case *ssa.Store:
		writeKeys(in.Addr, keys)
		if pt, ok := in.Addr.Type().Underlying().(*types.Pointer); ok {
			structKeys(pt.Elem(), keys, 0)
		}
	case *ssa.MapUpdate:
		keys[elemKey(in.Map.Type())] = true
	case ssa.CallInstruction:
		c := in.Common()
		if bi, ok := c.Value.(*ssa.Builtin); ok {
			switch bi.Name() {
			case "delete":
				keys[elemKey(c.Args[0].Type())] = true
			case "copy":
				keys[elemKey(c.Args[0].Type())] = true
			}
			return
		}
		if callee := c.StaticCallee(); callee != nil && callee.Blocks != nil && strings.HasPrefix(PkgOf(callee), ModPath) {
			for k := range p.modSet(callee, stack) {
				if !strings.HasPrefix(string(k), "c:") {
					keys[k] = true
				}
			}
		}
		// closures passed or created here may run during the call
		for _, a := range c.Args {
			if mc, ok := a.(*ssa.MakeClosure); ok {
				if f, ok := mc.Fn.(*ssa.Function); ok {
					for k := range p.modSet(f, stack) {
						if !strings.HasPrefix(string(k), "c:") {
							keys[k] = true
						}
					}
				}
			}
		}
	}
}

func (fi *FuncInfo) mem() *memInfo {
	if fi.memInfo != nil {
		return fi.memInfo
	}
	mi := &memInfo{loopsOf: map[int][]int{}, loopBlock: map[int][]bool{}, instrIdx: map[ssa.Instruction]int{}}
	fi.memInfo = mi
	fn := fi.Fn
	n := len(fn.Blocks)
	for _, b := range fn.Blocks {
		for i, in := range b.Instrs {
			mi.instrIdx[in] = i
			keys := map[memKey]bool{}
			if st, ok := in.(*ssa.Store); ok {
				if al := rootAlloc(st.Addr); al != nil && al.Parent() == fn && !fi.addrEscapes(al) {
					// a private local object: only its own cell changes
					mi.writes = append(mi.writes, memWrite{in, map[memKey]bool{cellKey(al): true}})
					continue
				}
			}
			instrWrites(fi.P, in, keys, map[*ssa.Function]bool{fn: true})
			if len(keys) > 0 {
				mi.writes = append(mi.writes, memWrite{in, keys})
			}
		}
	}
	// acyclic reachability
	mi.reach = make([][]bool, n)
	var order []*ssa.BasicBlock
	seen := make([]bool, n)
	var dfs func(b *ssa.BasicBlock)
	dfs = func(b *ssa.BasicBlock) {
		seen[b.Index] = true
		for _, s := range b.Succs {
			if !fi.IsBackEdge(b, s) && !seen[s.Index] {
				dfs(s)
			}
		}
		order = append(order, b) // post-order
	}
	for _, b := range fn.Blocks {
		if !seen[b.Index] {
			dfs(b)
		}
	}
	for _, b := range order { // successors are finished before b
		r := make([]bool, n)
		for _, s := range b.Succs {
			if fi.IsBackEdge(b, s) {
				continue
			}
			r[s.Index] = true
			for j, v := range mi.reach[s.Index] {
				if v {
					r[j] = true
				}
			}
		}
		mi.reach[b.Index] = r
	}
	// natural loops
	for _, b := range fn.Blocks {
		for _, s := range b.Succs {
			if !fi.IsBackEdge(b, s) {
				continue
			}
			h := s.Index
			mem := mi.loopBlock[h]
			if mem == nil {
				mem = make([]bool, n)
				mem[h] = true
				mi.loopBlock[h] = mem
			}
			var stack []*ssa.BasicBlock
			if !mem[b.Index] {
				mem[b.Index] = true
				stack = append(stack, b)
			}
			for len(stack) > 0 {
				x := stack[len(stack)-1]
				stack = stack[:len(stack)-1]
				for _, pr := range x.Preds {
					if !mem[pr.Index] {
						mem[pr.Index] = true
						stack = append(stack, pr)
					}
				}
			}
		}
	}
	for h, mem := range mi.loopBlock {
		for i, in := range mem {
			if in {
				mi.loopsOf[i] = append(mi.loopsOf[i], h)
			}
		}
	}
	return mi
}

// Version returns a tag identifying the memory state of the given keys as observed just before 'at'.
// Empty when no write to those keys can precede or interleave.
func (fi *FuncInfo) Version(keys map[memKey]bool, at ssa.Instruction) string {
	if len(keys) == 0 || at == nil || at.Block() == nil || at.Parent() != fi.Fn {
		if fi.outerFI != nil && fi.outerAt != nil && len(keys) > 0 {
			return fi.outerFI.Version(keys, fi.outerAt)
		}
		return ""
	}
	mi := fi.mem()
	ab := at.Block().Index
	ai := mi.instrIdx[at]
	var ids []string
	for _, w := range mi.writes {
		hit := false
		for k := range w.keys {
			if keys[k] {
				hit = true
				break
			}
		}
		if !hit {
			continue
		}
		wb := w.in.Block().Index
		wi := mi.instrIdx[w.in]
		before := (wb == ab && wi < ai) || (wb != ab && mi.reach[wb][ab])
		if w.in == at {
			before = false
		}
		inLoop := false
		for _, h := range mi.loopsOf[ab] {
			if mi.loopBlock[h][wb] {
				inLoop = true
			}
		}
		if before {
			ids = append(ids, fmt.Sprintf("b%d.%d", wb, wi))
		}
		if inLoop {
			ids = append(ids, fmt.Sprintf("L%d.%d", wb, wi))
		}
	}
	outer := ""
	if fi.outerFI != nil && fi.outerAt != nil {
		// an inlined predicate observes memory as its caller does at the call
		outer = fi.outerFI.Version(keys, fi.outerAt)
	}
	if len(ids) == 0 {
		return outer
	}
	sort.Strings(ids)
	h := sha1.Sum([]byte(strings.Join(ids, ",")))
	return outer + fmt.Sprintf("@%x", h[:3])
}

// loadVersion computes the version tag of a load instruction through address a.
func (fi *FuncInfo) loadVersion(a ssa.Value, at ssa.Instruction) string {
	keys := map[memKey]bool{}
	addrKeys(a, keys)
	// a non-escaping local is only written by visible stores: keep its cell key; an escaping one
	// cannot be versioned (handled by the caller)
	return fi.Version(keys, at)
}

// FieldPath renders base.f1.f2... as it would be loaded at instruction 'at' (with version tags).
// base is the canonical text of a pointer-to-struct (or struct) value.
func (fi *FuncInfo) FieldPath(base string, at ssa.Instruction, fields ...*types.Var) string {
	s, _ := stripAddr(base) // the address of a local object: its fields are named after the object
	for _, f := range fields {
		s = s + "." + f.Name() + fi.Version(map[memKey]bool{fieldKey(f): true}, at)
	}
	return s
}

// ElemPath renders m[k] as it would be looked up at instruction 'at'.
func (fi *FuncInfo) ElemPath(m string, mapType types.Type, key string, at ssa.Instruction) string {
	return m + "[" + key + "]" + fi.Version(map[memKey]bool{elemKey(mapType): true}, at)
}

var _ = token.MUL

func rootAlloc(a ssa.Value) *ssa.Alloc {
	for d := 0; d < 16; d++ {
		switch x := a.(type) {
		case *ssa.FieldAddr:
			a = x.X
		case *ssa.IndexAddr:
			a = x.X
		case *ssa.Alloc:
			return x
		default:
			return nil
		}
	}
	return nil
}
