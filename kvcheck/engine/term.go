package engine

import (
	"fmt"
	"go/constant"
	"go/token"
	"go/types"
	"sort"
	"strings"

	"golang.org/x/tools/go/ssa"
)

// Term is a canonical rendering of an SSA value as an access path / linear expression.
type Term struct {
	S   string           // canonical text
	Lin map[string]int64 // linear integer form: symbol -> coefficient (nil if not linear)
	K   int64            // constant part of the linear form
}

func symTerm(s string) *Term { return &Term{S: s, Lin: map[string]int64{s: 1}} }

func constTerm(k int64) *Term { return &Term{S: fmt.Sprint(k), Lin: map[string]int64{}, K: k} }

func (t *Term) IsConst() bool { return t.Lin != nil && len(t.Lin) == 0 }

func linString(lin map[string]int64, k int64) string {
	var syms []string
	for s := range lin {
		syms = append(syms, s)
	}
	sort.Strings(syms)
	var sb strings.Builder
	for i, s := range syms {
		c := lin[s]
		switch {
		case c == 1 && i == 0:
			sb.WriteString(s)
		case c == 1:
			sb.WriteString("+" + s)
		case c == -1:
			sb.WriteString("-" + s)
		case c > 0 && i > 0:
			fmt.Fprintf(&sb, "+%d*%s", c, s)
		default:
			fmt.Fprintf(&sb, "%d*%s", c, s)
		}
	}
	if k != 0 || len(syms) == 0 {
		if k >= 0 && len(syms) > 0 {
			sb.WriteString("+")
		}
		fmt.Fprint(&sb, k)
	}
	return sb.String()
}

func linAdd(a, b *Term, sign int64) *Term {
	if a.Lin == nil || b.Lin == nil {
		return nil
	}
	m := map[string]int64{}
	for s, c := range a.Lin {
		m[s] += c
	}
	for s, c := range b.Lin {
		m[s] += sign * c
	}
	for s, c := range m {
		if c == 0 {
			delete(m, s)
		}
	}
	k := a.K + sign*b.K
	return &Term{S: linString(m, k), Lin: m, K: k}
}

func linScale(a *Term, f int64) *Term {
	if a.Lin == nil {
		return nil
	}
	m := map[string]int64{}
	for s, c := range a.Lin {
		if c*f != 0 {
			m[s] = c * f
		}
	}
	return &Term{S: linString(m, a.K*f), Lin: m, K: a.K * f}
}

// LinSum builds the linear term Σ terms (used by rules to state required formulas).
func LinSum(ts ...*Term) *Term {
	acc := constTerm(0)
	for _, t := range ts {
		if t.Lin == nil {
			t = symTerm(t.S)
		}
		acc = linAdd(acc, t, 1)
	}
	return acc
}

// Sym makes a term from a canonical path string (for required formulas).
func Sym(s string) *Term { return symTerm(s) }

// Int makes a constant term.
func Int(k int64) *Term { return constTerm(k) }

// FuncInfo carries per-function analysis state.
type FuncInfo struct {
	P      *Prog
	Fn     *ssa.Function
	Parent *FuncInfo
	MC     *ssa.MakeClosure // the MakeClosure creating Fn in Parent (if unique)
	prefix string

	terms    map[ssa.Value]*Term
	conds    map[ssa.Value]*Formula
	Calls    map[string]ssa.Value // term text of a call -> the call value
	AtomPos  map[string]token.Pos // atom -> position of (one of) the comparison(s) producing it
	back     map[[2]int]bool
	storesTo map[ssa.Value][]*ssa.Store
	inTerm   map[ssa.Value]bool
	memInfo  *memInfo

	deep      bool                     // expand calls of small kvass predicates into their bodies
	paramBind map[*ssa.Parameter]*Term // inlined instance: parameters bound to the caller's argument terms
	outerFI   *FuncInfo                // inlined instance: the calling frame ...
	outerAt   ssa.Instruction          // ... and the call instruction (for memory versions)
	inlining  map[*ssa.Function]bool   // recursion guard
}

// Info returns (cached) analysis state for fn.
func (p *Prog) Info(fn *ssa.Function) *FuncInfo {
	if fi := p.fiCache[fn]; fi != nil {
		return fi
	}
	fi := p.newInfo(fn)
	p.fiCache[fn] = fi
	if par := fn.Parent(); par != nil {
		fi.Parent = p.Info(par)
	}
	return fi
}

func (p *Prog) newInfo(fn *ssa.Function) *FuncInfo {
	fi := &FuncInfo{P: p, Fn: fn, terms: map[ssa.Value]*Term{}, conds: map[ssa.Value]*Formula{}, Calls: map[string]ssa.Value{},
		AtomPos: map[string]token.Pos{}, inTerm: map[ssa.Value]bool{}}
	if par := fn.Parent(); par != nil {
		fi.prefix = fn.Name() + "·"
		// find the MakeClosure (or direct reference) in the parent
		for _, b := range par.Blocks {
			for _, in := range b.Instrs {
				if mc, ok := in.(*ssa.MakeClosure); ok && mc.Fn == fn {
					fi.MC = mc
				}
			}
		}
	}
	fi.computeBackEdges()
	fi.storesTo = map[ssa.Value][]*ssa.Store{}
	for _, b := range fn.Blocks {
		for _, in := range b.Instrs {
			if st, ok := in.(*ssa.Store); ok {
				fi.storesTo[st.Addr] = append(fi.storesTo[st.Addr], st)
			}
		}
	}
	return fi
}

func (fi *FuncInfo) computeBackEdges() {
	fi.back = map[[2]int]bool{}
	for _, b := range fi.Fn.Blocks {
		for _, s := range b.Succs {
			if s.Dominates(b) {
				fi.back[[2]int{b.Index, s.Index}] = true
			}
		}
	}
}

// IsBackEdge reports whether from->to is a loop back edge.
func (fi *FuncInfo) IsBackEdge(from, to *ssa.BasicBlock) bool {
	return fi.back[[2]int{from.Index, to.Index}]
}

func isIntType(t types.Type) bool {
	b, ok := t.Underlying().(*types.Basic)
	return ok && b.Info()&types.IsInteger != 0
}

// escapesToClosure reports whether alloc is captured by a closure or has its address
// passed/stored somewhere (so that stores outside Fn's visible Store instructions may exist).
func (fi *FuncInfo) addrEscapes(a ssa.Value) bool {
	refs := a.Referrers()
	if refs == nil {
		return true
	}
	for _, r := range *refs {
		switch r := r.(type) {
		case *ssa.Store:
			if r.Val == a {
				return true
			}
		case *ssa.UnOp, *ssa.FieldAddr, *ssa.IndexAddr, *ssa.DebugRef:
		case *ssa.MakeClosure:
			// captured by reference: look for stores in the closure
			if fi.closureStores(r, a) {
				return true
			}
		default:
			return true
		}
	}
	return false
}

func (fi *FuncInfo) closureStores(mc *ssa.MakeClosure, a ssa.Value) bool {
	fn, ok := mc.Fn.(*ssa.Function)
	if !ok {
		return true
	}
	for i, b := range mc.Bindings {
		if b != a || i >= len(fn.FreeVars) {
			continue
		}
		fv := fn.FreeVars[i]
		refs := fv.Referrers()
		if refs == nil {
			continue
		}
		for _, r := range *refs {
			switch r := r.(type) {
			case *ssa.UnOp, *ssa.DebugRef, *ssa.FieldAddr, *ssa.IndexAddr:
			case *ssa.Store:
				if r.Addr == fv {
					return true
				}
				return true
			default:
				_ = r
				return true
			}
		}
	}
	return false
}

// SingleStore returns the only value ever stored to addr (an Alloc or a FieldAddr of a
// non-escaping Alloc) if that store dominates 'at'; otherwise nil.
func (fi *FuncInfo) SingleStore(addr ssa.Value, at ssa.Instruction) ssa.Value {
	var base ssa.Value = addr
	if fa, ok := addr.(*ssa.FieldAddr); ok {
		base = fa.X
	}
	al, ok := base.(*ssa.Alloc)
	if !ok {
		return nil
	}
	if al.Parent() != fi.Fn {
		return nil
	}
	if fi.addrEscapes(al) {
		return nil
	}
	var sts []*ssa.Store
	if fa, ok := addr.(*ssa.FieldAddr); ok {
		// all FieldAddr of the same alloc+field
		for a2, ss := range fi.storesTo {
			if f2, ok := a2.(*ssa.FieldAddr); ok && f2.X == fa.X && f2.Field == fa.Field {
				sts = append(sts, ss...)
			}
		}
		// a whole-struct store to the alloc also writes the field
		if len(fi.storesTo[al]) > 0 {
			return nil
		}
	} else {
		sts = fi.storesTo[al]
		// field stores into the alloc modify it partially
		for a2 := range fi.storesTo {
			if f2, ok := a2.(*ssa.FieldAddr); ok && f2.X == al {
				return nil
			}
		}
	}
	if len(sts) != 1 {
		return nil
	}
	st := sts[0]
	if at != nil && !instrDominates(st, at) {
		return nil
	}
	return st.Val
}

// wholeStoreOnly: the alloc is written exactly once, as a whole, before 'at', never through a field
// address, and its address does not escape; returns the stored value.
func (fi *FuncInfo) wholeStoreOnly(al *ssa.Alloc, at ssa.Instruction) ssa.Value {
	if fi.addrEscapes(al) {
		return nil
	}
	for a2, ss := range fi.storesTo {
		if f2, ok := a2.(*ssa.FieldAddr); ok && f2.X == al && len(ss) > 0 {
			return nil
		}
		if i2, ok := a2.(*ssa.IndexAddr); ok && i2.X == al && len(ss) > 0 {
			return nil
		}
	}
	sts := fi.storesTo[al]
	if len(sts) != 1 || !instrDominates(sts[0], at) {
		return nil
	}
	return sts[0].Val
}

func instrDominates(a, b ssa.Instruction) bool {
	ab, bb := a.Block(), b.Block()
	if ab == bb {
		for _, in := range ab.Instrs {
			if in == a {
				return true
			}
			if in == b {
				return false
			}
		}
		return false
	}
	return ab.Dominates(bb)
}

// InstrDominates reports whether instruction a is executed before b on every path reaching b.
func InstrDominates(a, b ssa.Instruction) bool { return instrDominates(a, b) }

// T returns the canonical term of v.
func (fi *FuncInfo) T(v ssa.Value) *Term {
	if t, ok := fi.terms[v]; ok {
		return t
	}
	if fi.inTerm[v] {
		return symTerm(fi.prefix + "cyc:" + v.Name())
	}
	fi.inTerm[v] = true
	t := fi.term(v)
	delete(fi.inTerm, v)
	fi.terms[v] = t
	return t
}

func stripAddr(s string) (string, bool) {
	if strings.HasPrefix(s, "&") {
		return s[1:], true
	}
	return s, false
}

func (fi *FuncInfo) opaque(kind string, v ssa.Value) *Term {
	return symTerm(fi.prefix + kind + ":" + v.Name())
}

func (fi *FuncInfo) term(v ssa.Value) *Term {
	switch v := v.(type) {
	case *ssa.Const:
		if v.Value == nil {
			return symTerm("nil")
		}
		if v.Value.Kind() == constant.Int && isIntType(v.Type()) {
			if i, ok := constant.Int64Val(v.Value); ok {
				return constTerm(i)
			}
		}
		if v.Value.Kind() == constant.String {
			return symTerm(fmt.Sprintf("%q", constant.StringVal(v.Value)))
		}
		return symTerm(v.Value.ExactString())
	case *ssa.Parameter:
		if t, ok := fi.paramBind[v]; ok {
			return t
		}
		return symTerm(fi.prefix + v.Name())
	case *ssa.FreeVar:
		if fi.Parent != nil && fi.MC != nil {
			for i, fv := range fi.Fn.FreeVars {
				if fv == v && i < len(fi.MC.Bindings) {
					return fi.Parent.T(fi.MC.Bindings[i])
				}
			}
		}
		return symTerm(fi.prefix + "free:" + v.Name())
	case *ssa.Global:
		return symTerm("&g:" + v.Pkg.Pkg.Name() + "." + v.Name())
	case *ssa.Function:
		return symTerm("fn:" + FuncName(v))
	case *ssa.Builtin:
		return symTerm("builtin:" + v.Name())
	case *ssa.Alloc:
		return symTerm("&" + fi.prefix + "local:" + v.Name())
	case *ssa.FieldAddr:
		base, _ := stripAddr(fi.T(v.X).S)
		return symTerm("&" + base + "." + FieldOf(v).Name())
	case *ssa.Field:
		return symTerm(fi.T(v.X).S + "." + FieldOf(v).Name())
	case *ssa.IndexAddr:
		base, _ := stripAddr(fi.T(v.X).S)
		return symTerm("&" + base + "[" + fi.T(v.Index).S + "]")
	case *ssa.Index:
		return symTerm(fi.T(v.X).S + "[" + fi.T(v.Index).S + "]")
	case *ssa.Lookup:
		return symTerm(fi.T(v.X).S + "[" + fi.T(v.Index).S + "]" + fi.Version(map[memKey]bool{elemKey(v.X.Type()): true}, v))
	case *ssa.UnOp:
		switch v.Op {
		case token.MUL:
			return fi.loadTerm(v)
		case token.SUB:
			if x := fi.T(v.X); x.Lin != nil {
				return linScale(x, -1)
			}
			return symTerm("(-" + fi.T(v.X).S + ")")
		case token.NOT:
			return symTerm("!" + fi.T(v.X).S)
		case token.ARROW:
			return fi.opaque("recv", v)
		}
		return fi.opaque("unop", v)
	case *ssa.BinOp:
		x, y := fi.T(v.X), fi.T(v.Y)
		if isIntType(v.Type()) {
			switch v.Op {
			case token.ADD:
				if r := linAdd(x, y, 1); r != nil {
					return r
				}
			case token.SUB:
				if r := linAdd(x, y, -1); r != nil {
					return r
				}
			case token.MUL:
				if x.IsConst() && y.Lin != nil {
					return linScale(y, x.K)
				}
				if y.IsConst() && x.Lin != nil {
					return linScale(x, y.K)
				}
			}
		}
		return symTerm("(" + x.S + " " + v.Op.String() + " " + y.S + ")")
	case *ssa.Convert:
		if isIntType(v.Type()) && isIntType(v.X.Type()) {
			return fi.T(v.X)
		}
		return symTerm("conv<" + types.TypeString(v.Type(), nil) + ">(" + fi.T(v.X).S + ")")
	case *ssa.ChangeType:
		return fi.T(v.X)
	case *ssa.MakeInterface:
		return fi.T(v.X)
	case *ssa.ChangeInterface:
		return fi.T(v.X)
	case *ssa.TypeAssert:
		if v.CommaOk {
			return fi.opaque("assertok", v)
		}
		return symTerm("assert<" + types.TypeString(v.AssertedType, nil) + ">(" + fi.T(v.X).S + ")")
	case *ssa.Slice:
		lo, hi := "", ""
		if v.Low != nil {
			lo = fi.T(v.Low).S
		}
		if v.High != nil {
			hi = fi.T(v.High).S
		}
		base, _ := stripAddr(fi.T(v.X).S)
		return symTerm("slice(" + base + "," + lo + "," + hi + ")")
	case *ssa.Phi:
		return fi.opaque("phi", v)
	case *ssa.Range:
		return fi.opaque("range", v)
	case *ssa.Next:
		return fi.opaque("next", v)
	case *ssa.Extract:
		return fi.extractTerm(v)
	case *ssa.Call:
		return fi.callTerm(v)
	case *ssa.MakeClosure:
		if f, ok := v.Fn.(*ssa.Function); ok {
			return symTerm("closure:" + FuncName(f) + "#" + fi.prefix + v.Name())
		}
		return fi.opaque("closure", v)
	case *ssa.MakeMap, *ssa.MakeSlice, *ssa.MakeChan:
		return fi.opaque("new", v)
	case *ssa.Select:
		return fi.opaque("select", v)
	}
	return fi.opaque("val", v)
}

func (fi *FuncInfo) loadTerm(v *ssa.UnOp) *Term {
	// load through a local with a single dominating store: the stored value
	switch a := v.X.(type) {
	case *ssa.Alloc:
		if a.Parent() == fi.Fn {
			if sv := fi.SingleStore(a, v); sv != nil {
				return fi.T(sv)
			}
			if !fi.addrEscapes(a) {
				keys := map[memKey]bool{cellKey(a): true}
				for a2 := range fi.storesTo {
					if f2, ok := a2.(*ssa.FieldAddr); ok && f2.X == a {
						keys[fieldKey(FieldOf(f2))] = true
					}
				}
				return symTerm(fi.prefix + "local:" + a.Name() + fi.Version(keys, v))
			}
			return symTerm(fi.prefix + "mem:" + a.Name() + "@" + v.Name())
		}
	case *ssa.FieldAddr:
		if sv := fi.freshFieldStore(a, v, 0); sv != nil {
			return fi.T(sv)
		}
		if al, ok := a.X.(*ssa.Alloc); ok && al.Parent() == fi.Fn {
			if sv := fi.SingleStore(a, v); sv != nil {
				return fi.T(sv)
			}
			// a by-value parameter (or other whole value) spilled to a local: field of the stored value
			if whole := fi.wholeStoreOnly(al, v); whole != nil {
				return symTerm(fi.T(whole).S + "." + FieldOf(a).Name())
			}
		}
	case *ssa.Global:
		// a package variable that is only ever given its initial value: that value
		if gi := fi.P.initOnly(a); gi != nil && gi.fn != fi.Fn {
			t := fi.P.Info(gi.fn).T(gi.val)
			if t.IsConst() {
				return t
			}
			return symTerm("init{" + t.S + "}")
		}
	case *ssa.FreeVar:
		// captured variable: the cell lives in an enclosing function
		if owner, al, mc := fi.resolveCell(a); al != nil {
			if sv := owner.singleStoreCaptured(al, mc); sv != nil {
				return owner.T(sv)
			}
			return symTerm(fi.prefix + "cell:" + al.Name() + "@" + v.Name())
		}
	}
	x := fi.T(v.X)
	ver := fi.loadVersion(v.X, v)
	if _, isAlloc := v.X.(*ssa.Alloc); isAlloc {
		ver = ""
	}
	if s, ok := stripAddr(x.S); ok {
		return symTerm(s + ver)
	}
	if pt, ok := v.X.Type().Underlying().(*types.Pointer); ok {
		keys := map[memKey]bool{}
		structKeys(pt.Elem(), keys, 0)
		ver = fi.Version(keys, v)
	}
	return symTerm("*" + x.S + ver)
}

// forwardAlloc: v is an object allocated in this function, or a load that reads a pointer to one out of a field of
// another such object before either has left the function's hands.
func (fi *FuncInfo) forwardAlloc(v ssa.Value, depth int) *ssa.Alloc {
	if depth > 3 {
		return nil
	}
	switch x := v.(type) {
	case *ssa.Alloc:
		if x.Parent() == fi.Fn {
			return x
		}
	case *ssa.UnOp:
		if fa, ok := x.X.(*ssa.FieldAddr); ok && x.Op == token.MUL {
			if sv := fi.freshFieldStore(fa, x, depth+1); sv != nil {
				if al, ok := sv.(*ssa.Alloc); ok && al.Parent() == fi.Fn {
					return al
				}
			}
		}
	}
	return nil
}

// freshFieldStore: the load 'at' of a field of an object built in this function reads what the only store to that
// field wrote, because no reference to the object can have been used elsewhere before the load.
func (fi *FuncInfo) freshFieldStore(fa *ssa.FieldAddr, at ssa.Instruction, depth int) ssa.Value {
	base := fi.forwardAlloc(fa.X, depth)
	if base == nil || !base.Heap {
		return nil
	}
	if len(fi.storesTo[base]) > 0 {
		return nil
	}
	var sts []*ssa.Store
	for a2, ss := range fi.storesTo {
		f2, ok := a2.(*ssa.FieldAddr)
		if !ok || f2.Field != fa.Field {
			continue
		}
		if f2.X == ssa.Value(base) || fi.forwardAlloc(f2.X, depth+1) == base {
			sts = append(sts, ss...)
		}
	}
	if len(sts) != 1 || !instrDominates(sts[0], at) {
		return nil
	}
	if fi.escapesBefore(base, at, 0) {
		return nil
	}
	return sts[0].Val
}

// escapesBefore: a reference to the object may have reached code outside this function's straight use of it at a
// point that can precede 'at' (within one pass from the allocation: a later iteration allocates a new object).
func (fi *FuncInfo) escapesBefore(base *ssa.Alloc, at ssa.Instruction, depth int) bool {
	if depth > 3 || base.Referrers() == nil {
		return true
	}
	mayPrecede := func(r ssa.Instruction) bool {
		if r.Block() == at.Block() {
			for _, in := range r.Block().Instrs {
				if in == r {
					return true
				}
				if in == at {
					return false
				}
			}
		}
		if instrDominates(at, r) {
			return false
		}
		return fi.reachesForward(r.Block(), at.Block())
	}
	for _, r := range *base.Referrers() {
		switch r := r.(type) {
		case *ssa.FieldAddr, *ssa.DebugRef:
		case *ssa.UnOp:
		case *ssa.Store:
			if r.Val != ssa.Value(base) {
				continue
			}
			if f2, ok := r.Addr.(*ssa.FieldAddr); ok {
				if outer := fi.forwardAlloc(f2.X, depth+1); outer != nil && outer != base && outer.Heap {
					if fi.escapesBefore(outer, at, depth+1) {
						return true
					}
					continue
				}
			}
			if mayPrecede(r) {
				return true
			}
		default:
			if mayPrecede(r) {
				return true
			}
		}
	}
	return false
}

// reachesForward: 'to' can be reached from 'from' without taking a back edge.
func (fi *FuncInfo) reachesForward(from, to *ssa.BasicBlock) bool {
	seen := map[int]bool{}
	var walk func(b *ssa.BasicBlock) bool
	walk = func(b *ssa.BasicBlock) bool {
		if b == to {
			return true
		}
		if seen[b.Index] {
			return false
		}
		seen[b.Index] = true
		for _, sc := range b.Succs {
			if fi.IsBackEdge(b, sc) {
				continue
			}
			if walk(sc) {
				return true
			}
		}
		return false
	}
	for _, sc := range from.Succs {
		if fi.IsBackEdge(from, sc) {
			continue
		}
		if walk(sc) {
			return true
		}
	}
	return false
}

// resolveCell follows a captured variable through nested closures to the Alloc that holds it.
// It returns the FuncInfo owning the Alloc and the MakeClosure (in that owner) through which it was captured.
func (fi *FuncInfo) resolveCell(fv *ssa.FreeVar) (*FuncInfo, *ssa.Alloc, *ssa.MakeClosure) {
	cur := fi
	var v ssa.Value = fv
	for depth := 0; depth < 8; depth++ {
		f, ok := v.(*ssa.FreeVar)
		if !ok || cur.Parent == nil || cur.MC == nil {
			return nil, nil, nil
		}
		idx := -1
		for i, x := range cur.Fn.FreeVars {
			if x == f {
				idx = i
			}
		}
		if idx < 0 || idx >= len(cur.MC.Bindings) {
			return nil, nil, nil
		}
		b := cur.MC.Bindings[idx]
		if al, ok := b.(*ssa.Alloc); ok {
			return cur.Parent, al, cur.MC
		}
		v = b
		cur = cur.Parent
	}
	return nil, nil, nil
}

// singleStoreCaptured: alloc in fi.Fn captured by closure mc; if the only store to it anywhere
// (parent and all capturing closures) is one store in the parent that dominates mc, return its value.
func (fi *FuncInfo) singleStoreCaptured(al *ssa.Alloc, mc *ssa.MakeClosure) ssa.Value {
	refs := al.Referrers()
	if refs == nil {
		return nil
	}
	var stores []*ssa.Store
	for _, r := range *refs {
		switch r := r.(type) {
		case *ssa.Store:
			if r.Val == al {
				return nil
			}
			stores = append(stores, r)
		case *ssa.UnOp, *ssa.DebugRef:
		case *ssa.MakeClosure:
			fn, ok := r.Fn.(*ssa.Function)
			if !ok {
				return nil
			}
			for i, b := range r.Bindings {
				if b != al || i >= len(fn.FreeVars) {
					continue
				}
				if !onlyLoaded(fn.FreeVars[i], 0) {
					return nil
				}
			}
		default:
			return nil
		}
	}
	if len(stores) != 1 || !instrDominates(stores[0], mc) {
		return nil
	}
	return stores[0].Val
}

func (fi *FuncInfo) extractTerm(v *ssa.Extract) *Term {
	switch t := v.Tuple.(type) {
	case *ssa.Next:
		rng, ok := t.Iter.(*ssa.Range)
		if !ok {
			break
		}
		key := fi.prefix + "rk:" + rng.Name()
		switch v.Index {
		case 0:
			return symTerm(fi.prefix + "rangeok:" + t.Name())
		case 1:
			return symTerm(key)
		case 2:
			return symTerm(fi.T(rng.X).S + "[" + key + "]" + fi.Version(map[memKey]bool{elemKey(rng.X.Type()): true}, t))
		}
	case *ssa.Lookup:
		if t.CommaOk {
			base := fi.T(t.X).S + "[" + fi.T(t.Index).S + "]" + fi.Version(map[memKey]bool{elemKey(t.X.Type()): true}, t)
			if v.Index == 0 {
				return symTerm(base)
			}
			return symTerm("has(" + base + ")")
		}
	case *ssa.TypeAssert:
		if v.Index == 0 {
			return symTerm("assert<" + types.TypeString(t.AssertedType, nil) + ">(" + fi.T(t.X).S + ")")
		}
		return symTerm("isa<" + types.TypeString(t.AssertedType, nil) + ">(" + fi.T(t.X).S + ")")
	case *ssa.Call:
		return symTerm(fi.T(t).S + fmt.Sprintf(".%d", v.Index))
	}
	return symTerm(fi.T(v.Tuple).S + fmt.Sprintf(".%d", v.Index))
}

func (fi *FuncInfo) callTerm(v *ssa.Call) *Term {
	c := v.Common()
	if b, ok := c.Value.(*ssa.Builtin); ok {
		switch b.Name() {
		case "len", "cap":
			// len(x[lo:hi]) = hi - lo
			if sl, ok := c.Args[0].(*ssa.Slice); ok && b.Name() == "len" && sl.High != nil {
				hi := fi.T(sl.High)
				if sl.Low == nil {
					return hi
				}
				if lo := fi.T(sl.Low); hi.Lin != nil && lo.Lin != nil {
					return linAdd(hi, lo, -1)
				}
			}
			return symTerm(b.Name() + "(" + fi.T(c.Args[0]).S + ")")
		}
	}
	name := "?"
	if o := CalleeObj(c); o != nil {
		name = o.FullName()
		name = strings.ReplaceAll(name, ModPath+"/", "")
	} else if !c.IsInvoke() {
		name = fi.T(c.Value).S
	}
	var args []string
	if c.IsInvoke() {
		args = append(args, fi.T(c.Value).S)
	}
	for _, a := range c.Args {
		args = append(args, fi.T(a).S)
	}
	s := "call " + name + "(" + strings.Join(args, ",") + ")#" + fi.prefix + v.Name()
	fi.Calls[s] = v
	return symTerm(s)
}

// ---------------------------------------------------------------------------
// atoms and conditions

// LtAtom returns the formula for a < b over integer terms in normal form.
func LtAtom(a, b *Term) *Formula { return cmpFormula(token.LSS, a, b, true) }

// EqIntAtom returns the formula for a == b over integer terms.
func EqIntAtom(a, b *Term) *Formula { return cmpFormula(token.EQL, a, b, true) }

// EqAtom returns the formula for a == b over non-integer terms (pointers, strings...).
func EqAtom(a, b string) *Formula {
	if a > b {
		a, b = b, a
	}
	return A("eq(" + a + "," + b + ")")
}

// TrueAtom is the formula for a boolean term being true.
func TrueAtom(s string) *Formula { return A("true(" + s + ")") }

func cmpFormula(op token.Token, x, y *Term, integer bool) *Formula {
	if integer && x.Lin != nil && y.Lin != nil {
		d := linAdd(x, y, -1)
		switch op {
		case token.LSS:
			return lt0(d)
		case token.LEQ: // d <= 0  <=>  d-1 < 0
			return lt0(linAdd(d, constTerm(1), -1))
		case token.GTR: // d > 0 <=> -d < 0
			return lt0(linScale(d, -1))
		case token.GEQ: // d >= 0 <=> ¬(d<0)
			return Not(lt0(d))
		case token.EQL:
			return eq0(d)
		case token.NEQ:
			return Not(eq0(d))
		}
	}
	if x.S == y.S && !strings.HasPrefix(x.S, "(") {
		// the same value on both sides (after normalisation typically "nil != nil" of an assigned constant)
		switch op {
		case token.EQL, token.LEQ, token.GEQ:
			return TrueF
		case token.NEQ, token.LSS, token.GTR:
			return FalseF
		}
	}
	switch op {
	case token.EQL:
		return EqAtom(x.S, y.S)
	case token.NEQ:
		return Not(EqAtom(x.S, y.S))
	case token.LSS:
		return A("lt(" + x.S + "," + y.S + ")")
	case token.GTR:
		return A("lt(" + y.S + "," + x.S + ")")
	case token.LEQ:
		return Not(A("lt(" + y.S + "," + x.S + ")"))
	case token.GEQ:
		return Not(A("lt(" + x.S + "," + y.S + ")"))
	}
	return A("cmp?(" + x.S + op.String() + y.S + ")")
}

// lt0: d < 0 with d linear. Normal form keeps d as is (sign matters for <).
// To make a<b and -b<-a identical they are the same d already (a-b).
func lt0(d *Term) *Formula {
	if len(d.Lin) == 0 {
		if d.K < 0 {
			return TrueF
		}
		return FalseF
	}
	// d < 0 with leading coefficient negative: rewrite as ¬(-d-1 < 0)?  (-d > 0 <=> ¬(-d <= 0) <=> ¬(-d-1 < 0))
	if leadNeg(d) {
		nd := linAdd(linScale(d, -1), constTerm(1), -1)
		return Not(A("lt0(" + nd.S + ")"))
	}
	return A("lt0(" + d.S + ")")
}

func eq0(d *Term) *Formula {
	if len(d.Lin) == 0 {
		if d.K == 0 {
			return TrueF
		}
		return FalseF
	}
	if leadNeg(d) {
		d = linScale(d, -1)
	}
	return A("eq0(" + d.S + ")")
}

func leadNeg(d *Term) bool {
	var syms []string
	for s := range d.Lin {
		syms = append(syms, s)
	}
	sort.Strings(syms)
	return d.Lin[syms[0]] < 0
}

// LinAxioms returns valid implications between lt0/eq0 atoms sharing the same symbolic part.
func LinAxioms(atoms []string) []*Formula {
	type la struct {
		atom, sym string
		k         int64
		eq        bool
	}
	var ls []la
	for _, a := range atoms {
		var body string
		eq := false
		switch {
		case strings.HasPrefix(a, "lt0(") && strings.HasSuffix(a, ")"):
			body = a[4 : len(a)-1]
		case strings.HasPrefix(a, "eq0(") && strings.HasSuffix(a, ")"):
			body = a[4 : len(a)-1]
			eq = true
		default:
			continue
		}
		sym, k := splitConst(body)
		ls = append(ls, la{a, sym, k, eq})
	}
	var ax []*Formula
	for i := range ls {
		for j := range ls {
			if i == j || ls[i].sym != ls[j].sym {
				continue
			}
			x, y := ls[i], ls[j]
			switch {
			case !x.eq && !y.eq:
				// S+kx < 0 ⇒ S+ky < 0 when ky <= kx
				if y.k <= x.k {
					ax = append(ax, Or(Not(A(x.atom)), A(y.atom)))
				}
			case x.eq && !y.eq:
				// S = -kx : S+ky<0 <=> ky < kx
				if y.k < x.k {
					ax = append(ax, Or(Not(A(x.atom)), A(y.atom)))
				} else {
					ax = append(ax, Or(Not(A(x.atom)), Not(A(y.atom))))
				}
			case x.eq && y.eq:
				if x.k != y.k {
					ax = append(ax, Or(Not(A(x.atom)), Not(A(y.atom))))
				}
			}
		}
	}
	return ax
}

// splitConst splits "a+b-3" into ("a+b", -3); the constant, if any, is the last summand.
func splitConst(s string) (string, int64) {
	for i := len(s) - 1; i > 0; i-- {
		c := s[i]
		if c >= '0' && c <= '9' {
			continue
		}
		if (c == '+' || c == '-') && i < len(s)-1 {
			// make sure what follows is purely digits and what precedes is not '*'-scaled symbol
			var k int64
			fmt.Sscan(s[i:], &k)
			return s[:i], k
		}
		break
	}
	return s, 0
}

// Cond returns the formula of a boolean SSA value.
func (fi *FuncInfo) Cond(v ssa.Value) *Formula {
	if f, ok := fi.conds[v]; ok {
		return f
	}
	fi.conds[v] = A("true(" + fi.prefix + "cyc:" + v.Name() + ")")
	f := fi.cond(v)
	fi.conds[v] = f
	return f
}

func (fi *FuncInfo) notePos(f *Formula, pos token.Pos) *Formula {
	for _, a := range f.Atoms() {
		if _, ok := fi.AtomPos[a]; !ok && pos.IsValid() {
			fi.AtomPos[a] = pos
		}
	}
	return f
}

func (fi *FuncInfo) cond(v ssa.Value) *Formula {
	switch v := v.(type) {
	case *ssa.Const:
		if v.Value != nil && v.Value.Kind() == constant.Bool {
			if constant.BoolVal(v.Value) {
				return TrueF
			}
			return FalseF
		}
	case *ssa.UnOp:
		if v.Op == token.NOT {
			return Not(fi.Cond(v.X))
		}
	case *ssa.BinOp:
		switch v.Op {
		case token.EQL, token.NEQ, token.LSS, token.LEQ, token.GTR, token.GEQ:
			x, y := fi.T(v.X), fi.T(v.Y)
			// boolean equality: a == true etc.
			if b, ok := v.X.Type().Underlying().(*types.Basic); ok && b.Info()&types.IsBoolean != 0 {
				fx, fy := fi.Cond(v.X), fi.Cond(v.Y)
				eq := Or(And(fx, fy), And(Not(fx), Not(fy)))
				if v.Op == token.NEQ {
					eq = Not(eq)
				}
				return fi.notePos(eq, v.Pos())
			}
			return fi.notePos(cmpFormula(v.Op, x, y, isIntType(v.X.Type())), v.Pos())
		}
	case *ssa.Phi:
		return fi.phiCond(v)
	case *ssa.Call:
		if fi.deep {
			if f := fi.inlineCond(v); f != nil {
				return f
			}
		}
	case *ssa.Extract:
		t := fi.T(v)
		if strings.HasPrefix(t.S, "has(") {
			return fi.notePos(A(t.S), v.Pos())
		}
	}
	return fi.notePos(TrueAtom(fi.T(v).S), v.Pos())
}

// phiCond reconstructs the formula of a boolean phi (short-circuit && / || in value context).
func (fi *FuncInfo) phiCond(v *ssa.Phi) *Formula {
	b := v.Block()
	d := b.Idom()
	if d == nil {
		return TrueAtom(fi.T(v).S)
	}
	var alts []*Formula
	for i, pred := range b.Preds {
		if fi.IsBackEdge(pred, b) {
			return TrueAtom(fi.T(v).S)
		}
		rel := fi.relPC(d, pred, b, map[int]*Formula{})
		alts = append(alts, And(rel, fi.Cond(v.Edges[i])))
	}
	return Or(alts...)
}

// EdgeCond is the condition under which control goes from pred to succ (given pred executes).
func (fi *FuncInfo) EdgeCond(pred, succ *ssa.BasicBlock) *Formula {
	if len(pred.Instrs) == 0 {
		return TrueF
	}
	if iff, ok := pred.Instrs[len(pred.Instrs)-1].(*ssa.If); ok {
		if pred.Succs[0] == pred.Succs[1] {
			return TrueF
		}
		c := fi.Cond(iff.Cond)
		if pred.Succs[0] == succ {
			return c
		}
		return Not(c)
	}
	return TrueF
}

// relPC: condition for reaching edge pred->succ given that 'from' (a dominator of pred) was reached.
func (fi *FuncInfo) relPC(from, pred, succ *ssa.BasicBlock, memo map[int]*Formula) *Formula {
	return And(fi.relReach(from, pred, memo), fi.EdgeCond(pred, succ))
}

func (fi *FuncInfo) relReach(from, b *ssa.BasicBlock, memo map[int]*Formula) *Formula {
	if b == from {
		return TrueF
	}
	if f, ok := memo[b.Index]; ok {
		return f
	}
	memo[b.Index] = FalseF
	var alts []*Formula
	for _, p := range b.Preds {
		if fi.IsBackEdge(p, b) {
			continue
		}
		if !from.Dominates(p) {
			continue
		}
		alts = append(alts, And(fi.relReach(from, p, memo), fi.EdgeCond(p, b)))
	}
	f := Or(alts...)
	memo[b.Index] = f
	return f
}

// StructField returns the term of field f of the struct VALUE v (e.g. a composite literal passed
// by value): the single value stored to that field of the local it was loaded from, or T(v).f.
func (fi *FuncInfo) StructField(v ssa.Value, f *types.Var) *Term {
	if u, ok := v.(*ssa.UnOp); ok && u.Op == token.MUL {
		if al, ok := u.X.(*ssa.Alloc); ok && al.Parent() == fi.Fn && !fi.addrEscapes(al) && len(fi.storesTo[al]) == 0 {
			var vals []ssa.Value
			for a2, ss := range fi.storesTo {
				if f2, ok := a2.(*ssa.FieldAddr); ok && f2.X == al && FieldOf(f2) == f {
					for _, s := range ss {
						vals = append(vals, s.Val)
					}
				}
			}
			if len(vals) == 1 {
				return fi.T(vals[0])
			}
			if len(vals) == 0 {
				// zero value
				if isIntType(f.Type()) {
					return constTerm(0)
				}
			}
		}
	}
	return symTerm(fi.T(v).S + "." + f.Name())
}

// onlyLoaded: the captured cell is only read (also by nested closures it is passed on to).
func onlyLoaded(fv *ssa.FreeVar, depth int) bool {
	if depth > 6 {
		return false
	}
	refs := fv.Referrers()
	if refs == nil {
		return true
	}
	for _, fr := range *refs {
		switch fr := fr.(type) {
		case *ssa.UnOp, *ssa.DebugRef:
		case *ssa.MakeClosure:
			fn, ok := fr.Fn.(*ssa.Function)
			if !ok {
				return false
			}
			for i, b := range fr.Bindings {
				if b == ssa.Value(fv) && i < len(fn.FreeVars) {
					if !onlyLoaded(fn.FreeVars[i], depth+1) {
						return false
					}
				}
			}
		default:
			return false
		}
	}
	return true
}

// ResolveCell is the exported form of resolveCell.
func (fi *FuncInfo) ResolveCell(fv *ssa.FreeVar) (*FuncInfo, *ssa.Alloc, *ssa.MakeClosure) {
	return fi.resolveCell(fv)
}

// StructFieldByName returns the canonical text of the single value stored to the named field of a
// local struct (composite literal), or "".
func (fi *FuncInfo) StructFieldByName(al *ssa.Alloc, name string) string {
	var out string
	n := 0
	for a2, ss := range fi.storesTo {
		if f2, ok := a2.(*ssa.FieldAddr); ok && f2.X == ssa.Value(al) && FieldOf(f2).Name() == name {
			for _, s := range ss {
				out = fi.T(s.Val).S
				n++
			}
		}
	}
	if n != 1 {
		return ""
	}
	return out
}

// Deep returns the variant of fi in which calls of small kvass predicates (single bool result, no
// loops, static callee with a body) are replaced by the formula of their body, instantiated with the
// argument terms of the call. Used as a fallback when an implication cannot be shown with the call
// taken as an opaque atom, so that a guard moved into a helper predicate is still recognised.
func (fi *FuncInfo) Deep() *FuncInfo {
	if fi.deep {
		return fi
	}
	p := fi.P
	if p.fiDeep == nil {
		p.fiDeep = map[*ssa.Function]*FuncInfo{}
	}
	if d := p.fiDeep[fi.Fn]; d != nil {
		return d
	}
	d := p.newInfo(fi.Fn)
	d.deep = true
	if fi.Parent != nil {
		d.Parent = fi.Parent.Deep()
	}
	p.fiDeep[fi.Fn] = d
	return d
}

// inlineCond instantiates the callee's result formula at a call site.
func (fi *FuncInfo) inlineCond(call *ssa.Call) *Formula {
	callee := call.Call.StaticCallee()
	if callee == nil || callee.Blocks == nil || !strings.HasPrefix(PkgOf(callee), ModPath) || len(callee.Blocks) > 24 {
		return nil
	}
	res := callee.Signature.Results()
	if res.Len() != 1 {
		return nil
	}
	if b, ok := res.At(0).Type().Underlying().(*types.Basic); !ok || b.Kind() != types.Bool {
		return nil
	}
	if fi.inlining[callee] || len(fi.inlining) > 3 {
		return nil
	}
	inst := fi.P.newInfo(callee)
	inst.deep = true
	inst.prefix = fi.prefix + callee.Name() + "@" + call.Name() + "·"
	inst.paramBind = map[*ssa.Parameter]*Term{}
	for i, q := range callee.Params {
		if i < len(call.Call.Args) {
			inst.paramBind[q] = fi.T(call.Call.Args[i])
		}
	}
	inst.outerFI, inst.outerAt = fi, call
	inst.inlining = map[*ssa.Function]bool{callee: true}
	for f := range fi.inlining {
		inst.inlining[f] = true
	}
	// loops make the result depend on iteration: not a predicate we can expand
	for _, b := range callee.Blocks {
		for _, sc := range b.Succs {
			if inst.IsBackEdge(b, sc) {
				return nil
			}
		}
	}
	var alts []*Formula
	entry := callee.Blocks[0]
	for _, b := range callee.Blocks {
		if b == callee.Recover || len(b.Instrs) == 0 {
			continue
		}
		ret, ok := b.Instrs[len(b.Instrs)-1].(*ssa.Return)
		if !ok {
			continue
		}
		alts = append(alts, And(inst.relReach(entry, b, map[int]*Formula{}), inst.Cond(ret.Results[0])))
	}
	if len(alts) == 0 {
		return nil
	}
	f := Or(alts...)
	for a, ps := range inst.AtomPos {
		if _, ok := fi.AtomPos[a]; !ok {
			fi.AtomPos[a] = ps
		}
	}
	return f
}

type globalInit struct {
	val ssa.Value
	fn  *ssa.Function
}

// initOnly returns the initial value of a package variable of the analysed packages that nothing but its package's
// initialiser stores to and whose address is used for nothing but loads; nil otherwise.
func (p *Prog) initOnly(g *ssa.Global) *globalInit {
	if p.globals == nil {
		p.globals = map[*ssa.Global]*globalInit{}
		bad := map[*ssa.Global]bool{}
		nStores := map[*ssa.Global]int{}
		for _, f := range p.Funcs {
			for _, b := range f.Blocks {
				for _, in := range b.Instrs {
					for _, op := range in.Operands(nil) {
						gg, ok := (*op).(*ssa.Global)
						if !ok {
							continue
						}
						switch x := in.(type) {
						case *ssa.UnOp:
							if x.Op == token.MUL {
								continue
							}
						case *ssa.Store:
							if x.Addr == ssa.Value(gg) && x.Val != ssa.Value(gg) {
								nStores[gg]++
								if f.Synthetic != "" && f.Name() == "init" && f.Pkg == gg.Pkg {
									p.globals[gg] = &globalInit{x.Val, f}
									continue
								}
							}
						case *ssa.DebugRef:
							continue
						}
						bad[gg] = true
					}
				}
			}
		}
		for gg := range p.globals {
			if bad[gg] || nStores[gg] != 1 {
				delete(p.globals, gg)
			}
		}
	}
	return p.globals[g]
}
