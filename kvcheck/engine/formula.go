package engine

import (
	"sort"
	"strings"
)

// Formula is a propositional formula over string atoms.
type Formula struct {
	Op   byte // 'T','F','a','!','&','|'
	Atom string
	Sub  []*Formula
}

var (
	TrueF  = &Formula{Op: 'T'}
	FalseF = &Formula{Op: 'F'}
)

func A(atom string) *Formula { return &Formula{Op: 'a', Atom: atom} }

func Not(f *Formula) *Formula {
	switch f.Op {
	case 'T':
		return FalseF
	case 'F':
		return TrueF
	case '!':
		return f.Sub[0]
	}
	return &Formula{Op: '!', Sub: []*Formula{f}}
}

func And(fs ...*Formula) *Formula {
	var out []*Formula
	seen := map[string]bool{}
	for _, f := range fs {
		switch f.Op {
		case 'T':
			continue
		case 'F':
			return FalseF
		case '&':
			for _, s := range f.Sub {
				k := s.String()
				if !seen[k] {
					seen[k] = true
					out = append(out, s)
				}
			}
		default:
			k := f.String()
			if !seen[k] {
				seen[k] = true
				out = append(out, f)
			}
		}
	}
	if len(out) == 0 {
		return TrueF
	}
	if len(out) == 1 {
		return out[0]
	}
	return &Formula{Op: '&', Sub: out}
}

func Or(fs ...*Formula) *Formula {
	var out []*Formula
	seen := map[string]bool{}
	for _, f := range fs {
		switch f.Op {
		case 'F':
			continue
		case 'T':
			return TrueF
		case '|':
			for _, s := range f.Sub {
				k := s.String()
				if !seen[k] {
					seen[k] = true
					out = append(out, s)
				}
			}
		default:
			k := f.String()
			if !seen[k] {
				seen[k] = true
				out = append(out, f)
			}
		}
	}
	if len(out) == 0 {
		return FalseF
	}
	if len(out) == 1 {
		return out[0]
	}
	return &Formula{Op: '|', Sub: out}
}

func (f *Formula) String() string {
	switch f.Op {
	case 'T':
		return "true"
	case 'F':
		return "false"
	case 'a':
		return f.Atom
	case '!':
		return "¬(" + f.Sub[0].String() + ")"
	}
	parts := make([]string, len(f.Sub))
	for i, s := range f.Sub {
		parts[i] = s.String()
	}
	sep := " ∧ "
	if f.Op == '|' {
		sep = " ∨ "
	}
	return "(" + strings.Join(parts, sep) + ")"
}

// Atoms returns the sorted set of atoms of f.
func (f *Formula) Atoms() []string {
	m := map[string]bool{}
	f.collect(m)
	var out []string
	for a := range m {
		out = append(out, a)
	}
	sort.Strings(out)
	return out
}

func (f *Formula) collect(m map[string]bool) {
	if f.Op == 'a' {
		m[f.Atom] = true
	}
	for _, s := range f.Sub {
		s.collect(m)
	}
}

// Eval evaluates f under an assignment; atoms missing from env are false.
func (f *Formula) Eval(env map[string]bool) bool {
	switch f.Op {
	case 'T':
		return true
	case 'F':
		return false
	case 'a':
		return env[f.Atom]
	case '!':
		return !f.Sub[0].Eval(env)
	case '&':
		for _, s := range f.Sub {
			if !s.Eval(env) {
				return false
			}
		}
		return true
	}
	for _, s := range f.Sub {
		if s.Eval(env) {
			return true
		}
	}
	return false
}

// Subst replaces an atom by a constant.
func (f *Formula) Subst(atom string, val bool) *Formula {
	switch f.Op {
	case 'T', 'F':
		return f
	case 'a':
		if f.Atom == atom {
			if val {
				return TrueF
			}
			return FalseF
		}
		return f
	case '!':
		return Not(f.Sub[0].Subst(atom, val))
	}
	subs := make([]*Formula, len(f.Sub))
	for i, s := range f.Sub {
		subs[i] = s.Subst(atom, val)
	}
	if f.Op == '&' {
		return And(subs...)
	}
	return Or(subs...)
}

// Project existentially quantifies every atom of f that is not in keep
// (the result is implied by f and mentions only atoms of keep).
func (f *Formula) Project(keep map[string]bool) *Formula {
	g := f
	for _, a := range f.Atoms() {
		if !keep[a] {
			g = Or(g.Subst(a, true), g.Subst(a, false))
		}
	}
	return g
}

// Implies decides pc ⇒ r by truth table. An optional list of theory axioms
// (formulas known to be valid, e.g. ¬(x<y ∧ y<x)) restricts the assignments considered.
// It returns a falsifying assignment when the implication does not hold.
func Implies(pc, r *Formula, axioms ...*Formula) (bool, map[string]bool) {
	set := map[string]bool{}
	r.collect(set)
	for _, ax := range axioms {
		ax.collect(set)
	}
	pc = pc.Project(set)
	var atoms []string
	for a := range set {
		atoms = append(atoms, a)
	}
	sort.Strings(atoms)
	if len(atoms) > 22 {
		return false, map[string]bool{"<too many atoms>": true}
	}
	n := len(atoms)
	env := map[string]bool{}
outer:
	for m := 0; m < 1<<uint(n); m++ {
		for i, a := range atoms {
			env[a] = m&(1<<uint(i)) != 0
		}
		for _, ax := range axioms {
			if !ax.Eval(env) {
				continue outer
			}
		}
		if pc.Eval(env) && !r.Eval(env) {
			cp := map[string]bool{}
			for k, v := range env {
				cp[k] = v
			}
			return false, cp
		}
	}
	return true, nil
}

// Satisfiable reports whether f has a model (≤ 22 atoms).
func Satisfiable(f *Formula) bool {
	ok, _ := Implies(f, FalseF)
	return !ok
}
