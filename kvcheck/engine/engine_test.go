package engine

import (
	"os"
	"path/filepath"
	"strings"
	"testing"

	"golang.org/x/tools/go/ssa"
)

// The analyses are tested on small self-contained programs (a throw-away module named like the
// analysed one, so that the loader's package filter applies unchanged).

const testProg = `package t

import "sync"

type S struct {
	mu   sync.Mutex
	a, b int64
	m    map[int]*S
	next *S
}

type Opt struct{ Max int64 }

func use(...interface{}) {}

func Guarded(s *S, o *Opt, x int64) {
	if s.a+x < o.Max {
		use("strict")
	}
	if s.a+x <= o.Max {
		use("weak")
	}
	if !(o.Max-s.a > x) {
		return
	}
	use("rewritten")
}

func Disj(s *S, o *Opt, x int64) {
	if (o.Max == 0 || s.a+x < o.Max) && s.b+x < o.Max {
		use("both")
	}
}

func Versions(s *S) {
	if s.a > 0 {
		use("before")
	}
	s.a = 0
	if s.a > 0 {
		use("after")
	}
}

func SiblingField(s *S) {
	v := s.b
	s.a = 1
	w := s.b
	use(v, w)
}

func Locked(s *S, dead bool) {
	s.mu.Lock()
	defer s.mu.Unlock()
	for k := range s.m {
		if s.m[k] != nil || true {
			use("in loop")
		} else {
			use("dead")
		}
	}
	use("end")
}

func Unlocked(s *S) {
	s.mu.Lock()
	s.a = 1
	s.mu.Unlock()
	use("after unlock")
}

func Closure(s *S, o *Opt) {
	t := s
	if t.a < o.Max {
		func() {
			use("captured", t.a)
		}()
	}
}

func Clamp(x, lo, hi int64) int64 {
	if x > hi {
		x = hi
	}
	if x < lo {
		x = lo
	}
	return x
}

func fits(s *S, o *Opt, x int64) bool { return s.a+x < o.Max }

func fitsWeak(s *S, o *Opt, x int64) bool {
	if o.Max == 0 {
		return true
	}
	return s.a+x <= o.Max
}

func ViaHelper(s *S, o *Opt, x int64) {
	if fits(s, o, x) {
		use("helper")
	}
	if fitsWeak(s, o, x) {
		use("weakhelper")
	}
	s.a++
	if fits(s, o, x) {
		use("helper after store")
	}
}

type R struct {
	err   error
	debug bool
}

func lower(o *Opt, a, b *S) bool {
	if o.Max != 0 {
		return a.a < b.a
	}
	return a.b < b.b
}

func SwitchHelper(s, t *S, o *Opt) {
	switch {
	case s.a == 1 && t.a == 2:
		use("first case")
	case s.next == t.next && lower(o, t, s):
		use("second case")
	}
}

func Latch(r *R, e error) {
	if e != nil && r.err == nil {
		r.err = e
		use("latched")
	}
}

func LatchSometimes(r *R, e error) {
	if e != nil && r.err == nil && r.debug {
		r.err = e
		use("latched")
	}
}

func LoopExit(xs []int64) int64 {
	for _, x := range xs {
		if x < 0 {
			return x
		}
	}
	return 0
}
`

func loadTest(t *testing.T) *Prog {
	t.Helper()
	dir := t.TempDir()
	must := func(err error) {
		if err != nil {
			t.Fatal(err)
		}
	}
	must(os.WriteFile(filepath.Join(dir, "go.mod"), []byte("module "+ModPath+"\n\ngo 1.17\n"), 0644))
	must(os.WriteFile(filepath.Join(dir, "go.sum"), nil, 0644))
	must(os.MkdirAll(filepath.Join(dir, "pkg", "t"), 0755))
	must(os.WriteFile(filepath.Join(dir, "pkg", "t", "t.go"), []byte(testProg), 0644))
	p, err := Load(LoadOptions{RepoDir: dir})
	if err != nil {
		t.Fatal(err)
	}
	return p
}

func fnNamed(t *testing.T, p *Prog, name string) *ssa.Function {
	for _, f := range p.Funcs {
		if f.Name() == name {
			return f
		}
	}
	t.Fatalf("function %s not found", name)
	return nil
}

// useCall finds the call use("<tag>", ...) in fn (or its closures).
func useCall(t *testing.T, p *Prog, fn *ssa.Function, tag string) (*FuncInfo, *ssa.Call) {
	fns := append([]*ssa.Function{fn}, fn.AnonFuncs...)
	for _, f := range fns {
		fi := p.Info(f)
		for _, b := range f.Blocks {
			for _, in := range b.Instrs {
				if c, ok := in.(*ssa.Call); ok && c.Call.StaticCallee() != nil && c.Call.StaticCallee().Name() == "use" {
					if strings.Contains(fi.T(c).S, "\""+tag+"\"") || strings.Contains(argText(fi, c), tag) {
						return fi, c
					}
				}
			}
		}
	}
	t.Fatalf("use(%q) not found in %s", tag, fn.Name())
	return nil, nil
}

func argText(fi *FuncInfo, c *ssa.Call) string {
	var sb strings.Builder
	if sl, ok := c.Call.Args[0].(*ssa.Slice); ok {
		if al, ok := sl.X.(*ssa.Alloc); ok {
			for _, r := range *al.Referrers() {
				if ia, ok := r.(*ssa.IndexAddr); ok {
					for _, r2 := range *ia.Referrers() {
						if st, ok := r2.(*ssa.Store); ok {
							sb.WriteString(fi.T(st.Val).S + " ")
						}
					}
				}
			}
		}
	}
	return sb.String()
}

func TestFormulaImplies(t *testing.T) {
	a, b := A("a"), A("b")
	if ok, _ := Implies(And(a, b), a); !ok {
		t.Error("a∧b ⇒ a")
	}
	if ok, _ := Implies(Or(a, b), a); ok {
		t.Error("a∨b must not imply a")
	}
	if ok, _ := Implies(And(Or(a, b), Not(b)), a); !ok {
		t.Error("(a∨b)∧¬b ⇒ a")
	}
}

func TestLinearNormalForm(t *testing.T) {
	x, y, m := Sym("x"), Sym("y"), Sym("m")
	f1 := LtAtom(LinSum(x, y), m)              // x+y < m
	f2 := Not(LtAtom(m, LinSum(x, y, Int(1)))) // ¬(m < x+y+1)  ⇔ x+y+1 <= m ⇔ x+y < m
	if f1.String() != f2.String() {
		t.Errorf("normal forms differ: %s vs %s", f1, f2)
	}
	weak := Not(LtAtom(m, LinSum(x, y))) // x+y <= m
	ax := LinAxioms(append(f1.Atoms(), weak.Atoms()...))
	if ok, _ := Implies(f1, weak, ax...); !ok {
		t.Error("x+y<m ⇒ x+y<=m with axioms")
	}
	if ok, _ := Implies(weak, f1, ax...); ok {
		t.Error("x+y<=m must not imply x+y<m")
	}
}

func TestPathConditions(t *testing.T) {
	p := loadTest(t)
	fn := fnNamed(t, p, "Guarded")
	fi := p.Info(fn)
	need := LtAtom(LinSum(Sym("s.a"), Sym("x")), Sym("o.Max"))
	_, strict := useCall(t, p, fn, "strict")
	if ok, have := fi.Implies(strict.Block(), need); !ok {
		t.Errorf("strict guard not recognised: %v", have)
	}
	_, weak := useCall(t, p, fn, "weak")
	if ok, _ := fi.Implies(weak.Block(), need); ok {
		t.Error("<= must not discharge a strict obligation")
	}
	_, rew := useCall(t, p, fn, "rewritten")
	if ok, have := fi.Implies(rew.Block(), need); !ok {
		t.Errorf("M-a>x after early return not recognised as a+x<M: %v", have)
	}
	// disjunction
	fn2 := fnNamed(t, p, "Disj")
	fi2 := p.Info(fn2)
	_, both := useCall(t, p, fn2, "both")
	full := And(Or(EqIntAtom(Sym("o.Max"), Int(0)), LtAtom(LinSum(Sym("s.a"), Sym("x")), Sym("o.Max"))), LtAtom(LinSum(Sym("s.b"), Sym("x")), Sym("o.Max")))
	if ok, have := fi2.Implies(both.Block(), full); !ok {
		t.Errorf("(M==0 ∨ a+x<M) ∧ b+x<M not recognised: %v", have)
	}
	if ok, _ := fi2.Implies(both.Block(), LtAtom(LinSum(Sym("s.a"), Sym("x")), Sym("o.Max"))); ok {
		t.Error("the disjunction must not give the head atom alone")
	}
}

func TestMemoryVersions(t *testing.T) {
	p := loadTest(t)
	fn := fnNamed(t, p, "Versions")
	fi := p.Info(fn)
	_, after := useCall(t, p, fn, "after")
	// the guard before the store must not hold for the value after the store
	old := LtAtom(Int(0), Sym("s.a"))
	if ok, _ := fi.Implies(after.Block(), old); ok {
		t.Error("a guard on the old value of s.a was carried across a store to s.a")
	}
	lits := strings.Join(fi.Guards(after.Block()), " ")
	if !strings.Contains(lits, "s.a@") {
		t.Errorf("the reloaded field carries no version tag: %s", lits)
	}
	// a store to a sibling field must not disturb other fields
	fn2 := fnNamed(t, p, "SiblingField")
	fi2, c := useCall(t, p, fn2, "s.b")
	txt := argText(fi2, c)
	if strings.Count(txt, "s.b ") != 2 {
		t.Errorf("loads of s.b around a store to s.a should be the same symbol: %q", txt)
	}
}

func TestLockSets(t *testing.T) {
	p := loadTest(t)
	fn := fnNamed(t, p, "Locked")
	_, in := useCall(t, p, fn, "in loop")
	if !p.HeldAt(in)[ModPath+"/pkg/t.S.mu"] {
		t.Errorf("lock not seen as held inside a loop with a dead branch: %v", p.HeldAt(in).Names())
	}
	_, end := useCall(t, p, fn, "end")
	if !p.HeldAt(end)[ModPath+"/pkg/t.S.mu"] {
		t.Error("deferred unlock must keep the lock to the end")
	}
	fn2 := fnNamed(t, p, "Unlocked")
	_, au := useCall(t, p, fn2, "after unlock")
	if p.HeldAt(au)[ModPath+"/pkg/t.S.mu"] {
		t.Error("lock reported held after Unlock")
	}
}

func TestClosureBinding(t *testing.T) {
	p := loadTest(t)
	fn := fnNamed(t, p, "Closure")
	cfi, c := useCall(t, p, fn, "captured")
	need := LtAtom(Sym("s.a"), Sym("o.Max"))
	if ok, have := cfi.Implies(c.Block(), need); !ok {
		t.Errorf("guard of the creating frame not inherited by the closure / captured variable not resolved: %v", have)
	}
}

func TestMustPassAndLoopExit(t *testing.T) {
	p := loadTest(t)
	fn := fnNamed(t, p, "LoopExit")
	fi := p.Info(fn)
	// two returns; the one inside the loop is dominated by the loop body entry
	n := 0
	for _, b := range fn.Blocks {
		if _, ok := b.Instrs[len(b.Instrs)-1].(*ssa.Return); ok {
			n++
		}
	}
	if n != 2 {
		t.Fatalf("want 2 returns, got %d", n)
	}
	if fi.MustPass(nil, nil, func(in ssa.Instruction) bool { _, ok := in.(*ssa.Range); return ok }) {
		t.Error("slice range has no Range instruction; MustPass must report a path")
	}
}

func TestHelperPredicatesAreFollowed(t *testing.T) {
	p := loadTest(t)
	fn := fnNamed(t, p, "ViaHelper")
	fi := p.Info(fn)
	need := LtAtom(LinSum(Sym("s.a"), Sym("x")), Sym("o.Max"))
	_, h := useCall(t, p, fn, "helper")
	if ok, have := fi.Implies(h.Block(), need); !ok {
		t.Errorf("a guard moved into a helper predicate is not recognised: %v", have)
	}
	_, w := useCall(t, p, fn, "weakhelper")
	if ok, _ := fi.Implies(w.Block(), need); ok {
		t.Error("a weaker helper predicate must not discharge the strict obligation")
	}
	_, a := useCall(t, p, fn, "helper after store")
	if ok, _ := fi.Implies(a.Block(), need); ok {
		t.Error("the helper called after a store to s.a speaks about the new value, not the old symbol")
	}
}

func TestReverseImplication(t *testing.T) {
	p := loadTest(t)
	for _, tc := range []struct {
		fn   string
		want bool
	}{{"Latch", true}, {"LatchSometimes", false}} {
		fn := fnNamed(t, p, tc.fn)
		fi, c := useCall(t, p, fn, "latched")
		failed := And(Not(EqAtom("e", "nil")), EqAtom("r.err", "nil"))
		v := fi.ViewAll(failed, fn.Blocks[0])
		if v == nil {
			t.Fatalf("%s: no view", tc.fn)
		}
		if got := v.ImpliedBy(c.Block(), failed); got != tc.want {
			t.Errorf("%s: 'e != nil && r.err == nil ⇒ the store is reached' decided %v, want %v (a branch on an unrelated condition must not be projected away)", tc.fn, got, tc.want)
		}
		// the forward direction holds in both
		if ok, have := fi.Implies(c.Block(), Not(EqAtom("e", "nil"))); !ok {
			t.Errorf("%s: forward implication lost: %v", tc.fn, have)
		}
	}
}

func TestHelperInSwitchCase(t *testing.T) {
	p := loadTest(t)
	fn := fnNamed(t, p, "SwitchHelper")
	fi, c := useCall(t, p, fn, "second case")
	need := Or(LtAtom(Sym("t.a"), Sym("s.a")), LtAtom(Sym("t.b"), Sym("s.b")))
	if ok, have := fi.Implies(c.Block(), need); !ok {
		t.Errorf("a two-way helper predicate in a switch case (after &&) is not looked through: %v", have)
	}
}
