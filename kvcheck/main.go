// kvcheck decides structural necessary conditions of the kvass properties C01..C20
// from the source of /repo (type-checked program in SSA form); nothing is executed.
package main

import (
	"encoding/json"
	"flag"
	"fmt"
	"go/ast"
	"go/printer"
	"os"
	"strconv"
	"strings"
	"time"

	"golang.org/x/tools/go/ssa"

	"kvcheck/engine"
	"kvcheck/rules"
)

func main() {
	if len(os.Args) > 1 && os.Args[1] == "dump" {
		dump(os.Args[2:])
		return
	}
	if len(os.Args) > 1 && os.Args[1] == "reffuncs" {
		reffuncs(os.Args[2:])
		return
	}
	if len(os.Args) > 1 && os.Args[1] == "norm" {
		normdump(os.Args[2:])
		return
	}
	if len(os.Args) > 1 && os.Args[1] == "matrix" {
		os.Exit(rules.Matrix(os.Args[2:]))
	}
	prop := flag.String("prop", "", "property id (C01..C20)")
	tier := flag.String("tier", "quick", "quick|thorough")
	repo := flag.String("repo", "/repo", "repository to analyse")
	verif := flag.String("verif", "/verif", "verif directory (evidence, known findings)")
	noControls := flag.Bool("nocontrols", false, "skip positive controls (used for variant children)")
	overlay := flag.String("overlay", "", "file=replacement pairs, comma separated (analyse a variant)")
	keysOnly := flag.Bool("keys", false, "print violated obligation keys only; write nothing")
	patch := flag.String("patch", "", "unified diff to analyse as an overlay on the repository (the repository is not modified)")
	replay := flag.String("replay", "", "replay file of a reported obligation: re-decide that obligation on the current tree; writes nothing")
	flag.Parse()
	var replayKey string
	if *replay != "" {
		b, err := os.ReadFile(*replay)
		if err != nil {
			fmt.Println("replay:", err)
			os.Exit(2)
		}
		var rp struct {
			Property   string `json:"property"`
			Obligation struct {
				Key string `json:"key"`
			} `json:"obligation"`
		}
		if err := json.Unmarshal(b, &rp); err != nil || rp.Property == "" {
			fmt.Println("replay: not a replay file:", *replay)
			os.Exit(2)
		}
		*prop, replayKey = rp.Property, rp.Obligation.Key
		*noControls = !strings.Contains(replayKey, "/controls")
	}
	start := time.Now()
	seed, _ := strconv.ParseInt(os.Getenv("VERIF_SEED"), 10, 64)
	rule := rules.Registry[*prop]
	if rule == nil {
		fmt.Printf("VIOLATION property=%s replay=- undecided: no such property check\n", *prop)
		os.Exit(1)
	}
	ov := map[string][]byte{}
	if *overlay != "" {
		for _, kv := range strings.Split(*overlay, ",") {
			p := strings.SplitN(kv, "=", 2)
			b, err := os.ReadFile(p[1])
			if err != nil {
				fmt.Println("overlay:", err)
				os.Exit(2)
			}
			ov[p[0]] = b
		}
	}
	if *patch != "" {
		pov, err := rules.OverlayFromPatch(*repo, *patch)
		if err != nil {
			fmt.Println("patch:", err)
			os.Exit(2)
		}
		for k, v := range pov {
			ov[k] = v
		}
	}
	code := func() (code int) {
		defer func() {
			if r := recover(); r != nil {
				fmt.Printf("VIOLATION property=%s replay=- undecided: analyzer panic: %v\n", *prop, r)
				code = 1
				if os.Getenv("KVCHECK_DEBUG") != "" {
					panic(r)
				}
			}
		}()
		ctx := &rules.Ctx{Repo: *repo, Verif: *verif, Tier: *tier, Overlay: ov, NoControls: *noControls, Seed: seed}
		rep, prog, err := rules.Run(ctx, *prop)
		if err != nil {
			fmt.Printf("VIOLATION property=%s replay=- undecided: %v\n", *prop, err)
			return 1
		}
		if replayKey != "" {
			rep.Finalize(prog)
			found := false
			for _, o := range rep.Obligations {
				if o.Key != replayKey {
					continue
				}
				found = true
				fmt.Printf("obligation %s\n  construct: %s\n  need: %s\n  have: %s\n  status: %s\n", o.Key, o.Construct, o.Need, o.Have, o.Status)
				if o.Status != engine.Discharged {
					fmt.Printf("VIOLATION property=%s replay=%s\n", *prop, *replay)
					return 1
				}
			}
			if !found {
				fmt.Printf("obligation %s is not generated on the current tree (its construct is gone); run ./check.sh %s quick for the full verdict\n", replayKey, *prop)
				return 1
			}
			return 0
		}
		if *keysOnly {
			rep.Finalize(prog)
			for _, o := range rep.Obligations {
				if o.Status != engine.Discharged {
					fmt.Printf("KEY %s %s\n", o.Status, o.Key)
				}
			}
			return 0
		}
		return rep.Finish(prog, *verif, start, seed)
	}()
	os.Exit(code)
}

// dump prints terms, guards and instructions of functions whose name contains the argument.
func dump(args []string) {
	fs := flag.NewFlagSet("dump", flag.ExitOnError)
	repo := fs.String("repo", "/repo", "")
	patch := fs.String("patch", "", "")
	src := fs.Bool("src", false, "print the (normalised) source of the files holding the functions instead")
	fs.Parse(args)
	ov := map[string][]byte{}
	if *patch != "" {
		var err error
		if ov, err = rules.OverlayFromPatch(*repo, *patch); err != nil {
			fmt.Println(err)
			os.Exit(2)
		}
	}
	p, err := engine.Load(engine.LoadOptions{RepoDir: *repo, Overlay: ov})
	if err != nil {
		fmt.Println(err)
		os.Exit(1)
	}
	for _, fn := range p.Funcs {
		match := false
		for _, a := range fs.Args() {
			if strings.Contains(fn.String(), a) {
				match = true
			}
		}
		if !match {
			continue
		}
		if *src {
			if d, ok := fn.Syntax().(*ast.FuncDecl); ok {
				fmt.Printf("=== %s\n", fn)
				printer.Fprint(os.Stdout, p.Fset, d)
				fmt.Println()
			}
			continue
		}
		fi := p.Info(fn)
		fmt.Printf("=== %s\n", fn)
		for _, b := range fn.Blocks {
			gfi := fi
			if os.Getenv("KVCHECK_DEEP") != "" {
				gfi = fi.Deep() // guards with helper predicates looked through
			}
			fmt.Printf(" block %d (%s) preds=%d held=%v guards: %v\n", b.Index, b.Comment, len(b.Preds), p.HeldAt(b.Instrs[0]).Names(), gfi.Guards(b))
			for _, in := range b.Instrs {
				if v, ok := in.(ssa.Value); ok {
					fmt.Printf("    %-6s = %-50s  ⟦%s⟧\n", v.Name(), in.String(), fi.T(v).S)
				} else {
					fmt.Printf("    %s\n", in.String())
				}
			}
		}
	}
}

// reffuncs prints the function table of the repository (the reference for normalisation).
func reffuncs(args []string) {
	fs := flag.NewFlagSet("reffuncs", flag.ExitOnError)
	repo := fs.String("repo", "/repo", "")
	fs.Parse(args)
	p, err := engine.Load(engine.LoadOptions{RepoDir: *repo, NoNormalize: true})
	if err != nil {
		fmt.Println(err)
		os.Exit(1)
	}
	fmt.Println("# declarations of the reference tree: functions/methods with signature, struct fields with type.")
	fmt.Println("# calls of functions not listed here are expanded before analysis; a listed declaration that reappears under")
	fmt.Println("# another name with the same signature/type is given its reference name back (engine/norm.go)")
	for _, l := range engine.ReferenceLines(p.Pkgs) {
		fmt.Println(l)
	}
}

// normdump prints what normalisation does to a tree (optionally with a patch as overlay).
func normdump(args []string) {
	fs := flag.NewFlagSet("norm", flag.ExitOnError)
	repo := fs.String("repo", "/repo", "")
	patch := fs.String("patch", "", "")
	show := fs.Bool("show", false, "print the expanded files")
	fs.Parse(args)
	ov := map[string][]byte{}
	if *patch != "" {
		var err error
		ov, err = rules.OverlayFromPatch(*repo, *patch)
		if err != nil {
			fmt.Println(err)
			os.Exit(2)
		}
	}
	p, err := engine.Load(engine.LoadOptions{RepoDir: *repo, Overlay: ov})
	if err != nil {
		fmt.Println(err)
		os.Exit(1)
	}
	fmt.Println("inlined:", p.NormInlined)
	fmt.Println("skipped:", p.NormSkipped)
	fmt.Println("note:", p.NormNote)
	if *show {
		for _, pk := range p.Pkgs {
			for i, f := range pk.Syntax {
				_ = f
				name := pk.CompiledGoFiles[i]
				_ = name
			}
		}
	}
}
