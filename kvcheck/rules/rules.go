// Package rules holds one file per property with its rule instances.
package rules

import (
	"fmt"

	"golang.org/x/tools/go/ssa"
	"golang.org/x/tools/go/ssa/ssautil"

	"kvcheck/engine"
)

// ssautilAll returns every function of the program (whole-program loads include dependencies).
func ssautilAll(p *engine.Prog) map[*ssa.Function]bool { return ssautil.AllFunctions(p.SSA) }

// Ctx carries run options.
type Ctx struct {
	Repo, Verif, Tier string
	Overlay           map[string][]byte
	NoControls        bool
	Seed              int64
}

// Rule is one property's check.
type Rule struct {
	ID            string
	Whole         bool // needs whole-program load in quick tier
	ThoroughWhole bool // whole-program load in the thorough tier
	Run           func(p *engine.Prog, r *engine.Report)
	Controls      func(p *engine.Prog) []Control
	Explanation   string
	Assumptions   []string
}

// Registry maps property ids to their rules.
var Registry = map[string]*Rule{}

func register(r *Rule) { Registry[r.ID] = r }

// Run loads the program and evaluates the rule (and its positive controls).
func Run(ctx *Ctx, prop string) (*engine.Report, *engine.Prog, error) {
	rule := Registry[prop]
	if rule == nil {
		return nil, nil, fmt.Errorf("unknown property %s", prop)
	}
	whole := rule.Whole || (ctx.Tier == "thorough" && rule.ThoroughWhole)
	p, err := engine.Load(engine.LoadOptions{RepoDir: ctx.Repo, Overlay: ctx.Overlay, Whole: whole})
	if err != nil {
		return nil, nil, err
	}
	if len(p.Pkgs) < 17 {
		return nil, nil, fmt.Errorf("only %d kvass packages loaded (expected >= 17)", len(p.Pkgs))
	}
	rep := engine.NewReport(prop, ctx.Tier)
	rep.Explanation = rule.Explanation
	rep.Assumptions = rule.Assumptions
	rule.Run(p, rep)
	if !ctx.NoControls && rule.Controls != nil {
		runControls(ctx, rule, p, rep)
	}
	return rep, p, nil
}
