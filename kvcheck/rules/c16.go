package rules

import (
	"fmt"
	"go/ast"
	"go/token"
	"go/types"
	"reflect"
	"regexp"
	"sort"
	"strings"

	"golang.org/x/tools/go/ssa"

	"kvcheck/engine"
)

func init() {
	register(&Rule{ID: "C16", Run: runC16, Controls: controlsC16, ThoroughWhole: true,
		Explanation: "Structural necessary conditions of 'the configuration hash tells apart exactly the configurations that differ', decided on pkg/prom and the type graph of the Prometheus configuration: " +
			"R16.1 hash coverage: the type graph reachable from *config.Config is walked exactly as hashstructure v2 walks values (exported fields only, hash:\"-\"/\"ignore\" tags, pointers, slices, maps, interfaces through every implementing named type of the program, time.Time and Hashable special cases); every part of the configuration the walk cannot see (unexported fields, structs without exported fields, unhashable kinds) is a blind spot, classified by a frozen table; an unclassified blind spot is a violation; " +
			"R16.2 the whole configuration with default options: the hashed value is the *config.Config that config.Load returned for the very bytes being applied, format V2, nil options; " +
			"R16.3 external labels ignored and nothing else: between config.Load and the hash the parsed configuration is written only at GlobalConfig.ExternalLabels (blanked before, restored after) and is passed to no other call; the hash precedes the reload callbacks; " +
			"R16.4 one implementation: ConfigInfo.ConfigHash is written only from that hash (and the empty default), and the raw bytes reach the hashing function unmodified from the file reader and from the sidecar's config handler; " +
			"R16.5 the reported hash: the sidecar's RuntimeInfo.ConfigHash is ConfigInfo().ConfigHash of its configuration manager, read in the reporting function itself, and ConfigInfo returns the manager's current configuration - so the report does not depend on the way the configuration was loaded; " +
			"R16.6 in sync ⇔ equal hashes is C08 R8.1. " +
			"Not decided: sensitivity to each scalar (follows from coverage), collisions.",
		Assumptions: []string{"go/types and go/ssa are correct", "hashstructure v2.0.1 traversal rules as read from the pinned source (visit(): exported fields, tags, time.Time, Hashable/Includable)"}})
}

var cfgAddrRe = regexp.MustCompile(`\.Config(@[0-9a-f]+)?\.`)
var cfgValRe = regexp.MustCompile(`\.Config(@[0-9a-f]+)?$`)

type blind struct {
	path string // type path for the report
	typ  string // owning type "pkg.Type"
	what string
}

type hashWalk struct {
	p        *engine.Prog
	allNamed []*types.Named
	seen     map[string]bool
	blinds   map[string]*blind // key: owning type + field
	nTypes   int
	nFields  int
	ifaces   map[string]int
	unknown  []string
}

func (w *hashWalk) collectNamed() {
	seen := map[*types.Package]bool{}
	var walk func(pk *types.Package)
	walk = func(pk *types.Package) {
		if pk == nil || seen[pk] {
			return
		}
		seen[pk] = true
		sc := pk.Scope()
		for _, n := range sc.Names() {
			if tn, ok := sc.Lookup(n).(*types.TypeName); ok && !tn.IsAlias() {
				if nt, ok := tn.Type().(*types.Named); ok && nt.TypeParams() == nil {
					w.allNamed = append(w.allNamed, nt)
				}
			}
		}
		for _, i := range pk.Imports() {
			walk(i)
		}
	}
	for _, pk := range w.p.Pkgs {
		walk(pk.Types)
	}
}

func hasHashMethod(t types.Type) bool {
	for _, tt := range []types.Type{t, types.NewPointer(t)} {
		ms := types.NewMethodSet(tt)
		for i := 0; i < ms.Len(); i++ {
			f := ms.At(i).Obj().(*types.Func)
			if f.Name() == "Hash" {
				sig := f.Type().(*types.Signature)
				if sig.Params().Len() == 0 && sig.Results().Len() == 2 {
					if b, ok := sig.Results().At(0).Type().(*types.Basic); ok && b.Kind() == types.Uint64 {
						return true
					}
				}
			}
		}
	}
	return false
}

func typeName(t types.Type) string {
	return types.TypeString(t, func(p *types.Package) string { return p.Path() })
}

func (w *hashWalk) visit(t types.Type, path string, owner string) {
	switch u := t.(type) {
	case *types.Named:
		key := typeName(u)
		if w.seen[key] {
			return
		}
		w.seen[key] = true
		w.nTypes++
		if key == "time.Time" {
			return // hashed through MarshalBinary
		}
		if _, isStruct := u.Underlying().(*types.Struct); isStruct && hasHashMethod(u) {
			return // Hashable
		}
		w.visitUnder(u.Underlying(), path, key)
	default:
		w.visitUnder(t, path, owner)
	}
}

func (w *hashWalk) visitUnder(t types.Type, path, owner string) {
	switch u := t.Underlying().(type) {
	case *types.Basic:
		if u.Kind() == types.UnsafePointer || u.Kind() == types.Uintptr {
			w.blind(owner, "", path, "unhashable kind "+u.String())
		}
	case *types.Pointer:
		w.visit(u.Elem(), path, owner)
	case *types.Slice:
		w.visit(u.Elem(), path+"[]", owner)
	case *types.Array:
		w.visit(u.Elem(), path+"[]", owner)
	case *types.Map:
		w.visit(u.Key(), path+"{key}", owner)
		w.visit(u.Elem(), path+"{}", owner)
	case *types.Chan, *types.Signature:
		w.blind(owner, "", path, "unhashable kind "+u.String()+" (hashing fails when the value is non-nil)")
	case *types.Interface:
		if u.NumMethods() == 0 {
			w.unknown = append(w.unknown, path+": empty interface (dynamic type unknown)")
			return
		}
		n := 0
		for _, nt := range w.allNamed {
			if _, isIface := nt.Underlying().(*types.Interface); isIface {
				continue
			}
			if types.Implements(nt, u) || types.Implements(types.NewPointer(nt), u) {
				n++
				w.visit(nt, path+"<"+nt.Obj().Name()+">", owner)
			}
		}
		w.ifaces[typeName(t)] = n
	case *types.Struct:
		exported := 0
		for i := 0; i < u.NumFields(); i++ {
			f := u.Field(i)
			w.nFields++
			if !f.Exported() {
				if f.Name() == "_" {
					continue
				}
				w.blind(owner, f.Name(), path+"."+f.Name(), "unexported field (skipped by the hash)")
				continue
			}
			tag := reflect.StructTag(u.Tag(i)).Get("hash")
			if tag == "-" || tag == "ignore" {
				w.blind(owner, f.Name(), path+"."+f.Name(), "field tagged hash:\""+tag+"\"")
				continue
			}
			exported++
			w.visit(f.Type(), path+"."+f.Name(), owner)
		}
		_ = exported
	}
}

func (w *hashWalk) blind(owner, field, path, what string) {
	k := owner + "." + field
	if _, ok := w.blinds[k]; !ok {
		w.blinds[k] = &blind{path: path, typ: owner, what: what}
	}
}

// c16Benign: blind spots that carry no configuration (reviewed one by one).
var c16Benign = map[string]string{
	"sync.Mutex":   "synchronisation state, not configuration",
	"sync.RWMutex": "synchronisation state, not configuration",
	"sync.Once":    "synchronisation state, not configuration",
	"github.com/prometheus/prometheus/discovery/hetzner.SDConfig.hcloudEndpoint": "test-only endpoint override without a YAML key",
	"github.com/prometheus/prometheus/discovery/hetzner.SDConfig.robotEndpoint":  "test-only endpoint override without a YAML key",
	"github.com/prometheus/common/config.ProxyConfig.":                           "",
}

func runC16(p *engine.Prog, r *engine.Report) {
	cfgT := p.Named("github.com/prometheus/prometheus/config", "Config")
	fCfgHash := p.Field(pkgProm, "ConfigInfo", "ConfigHash")
	fCfg := p.Field(pkgProm, "ConfigInfo", "Config")
	mRaw := p.Method(pkgProm, "ConfigManager", "ReloadFromRaw")
	if len(p.Problems) > 0 {
		return
	}
	r.Min("R16.1-hash-coverage", 2)
	r.Min("R16.2-whole-config", 1)
	r.Min("R16.3-external-labels-only", 1)
	r.Min("R16.4-one-implementation", 2)
	r.Min("R16.5-reported-hash", 3)
	checkReportedHash(p, r)

	// ---- R16.1
	w := &hashWalk{p: p, seen: map[string]bool{}, blinds: map[string]*blind{}, ifaces: map[string]int{}}
	w.collectNamed()
	w.visit(cfgT, "Config", "")
	var keys []string
	for k := range w.blinds {
		keys = append(keys, k)
	}
	sort.Strings(keys)
	// group by owning type: one obligation per blind type
	byType := map[string][]string{}
	for _, k := range keys {
		b := w.blinds[k]
		byType[b.typ] = append(byType[b.typ], strings.TrimPrefix(k, b.typ+".")+" ("+b.what+", first reached at "+b.path+")")
	}
	var tys []string
	for t := range byType {
		tys = append(tys, t)
	}
	sort.Strings(tys)
	for _, t := range tys {
		benign := false
		why := ""
		for k, reason := range c16Benign {
			if strings.HasPrefix(t+".", k+".") || k == t {
				benign, why = true, reason
			}
			// field-level entries
			allFields := true
			for _, f := range byType[t] {
				fk := t + "." + strings.SplitN(f, " ", 2)[0]
				if _, ok := c16Benign[fk]; !ok {
					allFields = false
				}
			}
			if allFields && len(byType[t]) > 0 {
				benign, why = true, "every blind field is listed benign"
			}
			_ = reason
		}
		if strings.HasPrefix(t, "sync.") || strings.HasPrefix(t, "sync/atomic.") {
			benign, why = true, "synchronisation state"
		}
		if benign {
			r.Add("R16.1-hash-coverage", "blind type "+t, "type "+t, "benign (frozen table): "+why, strings.Join(byType[t], "; "), engine.Discharged)
			continue
		}
		r.Add("R16.1-hash-coverage", "blind type "+t, "type "+t+" reachable from config.Config", "every configuration-carrying part of the type is visible to the hash", "not hashed: "+strings.Join(byType[t], "; "), engine.Violated)
	}
	r.Add("R16.1-hash-coverage", "type graph walk", fmt.Sprintf("%d named types, %d struct fields, %d interfaces resolved", w.nTypes, w.nFields, len(w.ifaces)), "walk completes", fmt.Sprintf("%d blind spots in %d types", len(keys), len(tys)), engine.Discharged)
	r.Analysed["hash_walk_types"] = w.nTypes
	r.Analysed["hash_walk_fields"] = w.nFields
	r.Analysed["hash_walk_interfaces"] = w.ifaces
	if len(w.unknown) > 0 {
		r.Notes = append(r.Notes, w.unknown...)
	}
	for it, n := range w.ifaces {
		if n == 0 {
			r.Add("R16.1-hash-coverage", "interface "+it, "interface "+it, "at least one implementing type is loaded (otherwise the walk is vacuous)", "0 implementations", engine.Undecided)
		}
	}

	// ---- R16.2 / R16.3 / R16.4 in the hashing function
	var hashFn *ssa.Function
	var hashCall *ssa.Call
	nW := 0
	var writers []string
	for _, fn := range p.Funcs {
		for _, in := range allInstrs(fn) {
			st, ok := in.(*ssa.Store)
			if !ok {
				continue
			}
			fa, ok := st.Addr.(*ssa.FieldAddr)
			if !ok || engine.FieldOf(fa) != fCfgHash {
				continue
			}
			if s, ok := constString(st.Val); ok && s == "" {
				continue // the empty default
			}
			nW++
			writers = append(writers, engine.FuncName(fn)+" ("+p.Rel(st.Pos())+")")
			// value: fmt.Sprint(hash) of a hashstructure.Hash result
			var find func(v ssa.Value, d int) *ssa.Call
			find = func(v ssa.Value, d int) *ssa.Call {
				if d > 8 {
					return nil
				}
				switch x := v.(type) {
				case *ssa.Call:
					if engine.CalleeIs(x.Common(), "github.com/mitchellh/hashstructure/v2", "", "Hash") {
						return x
					}
					for _, a := range x.Call.Args {
						if c := find(a, d+1); c != nil {
							return c
						}
						for _, e := range varargElems(a) {
							if c := find(e, d+1); c != nil {
								return c
							}
						}
					}
				case *ssa.Extract:
					return find(x.Tuple, d+1)
				case *ssa.MakeInterface:
					return find(x.X, d+1)
				case *ssa.UnOp:
					if al, ok := x.X.(*ssa.Alloc); ok {
						for _, rr := range *al.Referrers() {
							if s2, ok := rr.(*ssa.Store); ok && s2.Addr == ssa.Value(al) {
								if c := find(s2.Val, d+1); c != nil {
									return c
								}
							}
						}
					}
				}
				return nil
			}
			if c := find(st.Val, 0); c != nil {
				hashFn, hashCall = fn, c
			} else {
				r.Add("R16.4-one-implementation", fmt.Sprintf("writer#%d of ConfigHash in %s", nW, engine.FuncName(fn)), "store at "+p.Rel(st.Pos()), "ConfigHash is the structural hash of the parsed configuration", "value "+short(p.Info(fn).T(st.Val).S), engine.Violated)
			}
		}
	}
	r.Check(nW == 1 && hashFn != nil, "R16.4-one-implementation", "writers of ConfigInfo.ConfigHash", "program-wide who-may-write table", "one writer (coordinator and sidecar share it), storing hashstructure.Hash of the parsed config", strings.Join(writers, "; "))
	if hashFn == nil {
		return
	}
	fi := p.Info(hashFn)
	{
		var probs []string
		// arg0: load of info.Config where info.Config = config.Load(string(data)) for data = parameter
		var load *ssa.Call
		for _, in := range allInstrs(hashFn) {
			if call, ok := in.(*ssa.Call); ok && engine.CalleeIs(call.Common(), "github.com/prometheus/prometheus/config", "", "Load") {
				load = call
			}
		}
		if load == nil {
			probs = append(probs, "the configuration is not parsed with config.Load in the hashing function")
		} else {
			// bytes: a parameter, converted to string, unmodified
			a0 := load.Call.Args[0]
			if cv, ok := a0.(*ssa.Convert); ok {
				a0 = cv.X
			}
			if paramIndex(hashFn, a0) < 0 {
				probs = append(probs, "config.Load parses "+short(fi.T(load.Call.Args[0]).S)+", not the raw bytes handed in")
			}
			arg := unwrapIface(hashCall.Call.Args[0])
			okArg := false
			if base, ok := loadOfField(arg, fCfg); ok {
				// the Config field of that info was stored from load's result 0
				for _, in := range allInstrs(hashFn) {
					if st, ok := in.(*ssa.Store); ok {
						if fa, ok := st.Addr.(*ssa.FieldAddr); ok && engine.FieldOf(fa) == fCfg && fi.T(fa.X).S == fi.T(base).S {
							if ex, ok := st.Val.(*ssa.Extract); ok && ex.Tuple == ssa.Value(load) && ex.Index == 0 && engine.InstrDominates(st, hashCall) {
								okArg = true
							}
						}
					}
				}
			} else if ex, ok := arg.(*ssa.Extract); ok && ex.Tuple == ssa.Value(load) {
				okArg = true
			}
			if !okArg {
				probs = append(probs, "the value hashed is "+short(fi.T(hashCall.Call.Args[0]).S)+", not the configuration config.Load returned for these bytes")
			}
		}
		if len(hashCall.Call.Args) >= 3 {
			if f := fi.T(hashCall.Call.Args[1]); !f.IsConst() || f.K != 2 {
				probs = append(probs, "hash format is "+f.S+", not FormatV2")
			}
			if !isNilConst(hashCall.Call.Args[2]) {
				probs = append(probs, "non-default hash options are used ("+short(fi.T(hashCall.Call.Args[2]).S)+")")
			}
		}
		r.Check(len(probs) == 0, "R16.2-whole-config", "hash call in "+engine.FuncName(hashFn), "hashstructure.Hash at "+p.Rel(hashCall.Pos()), "Hash(config.Load(raw bytes), FormatV2, nil)", strings.Join(probs, "; "))

		// ---- R16.3
		probs = nil
		if load != nil {
			cfgVal := extractOf(load, 0)
			cfgText := ""
			if cfgVal != nil {
				cfgText = fi.T(cfgVal).S
			}
			blanked, restored := false, false
			for _, in := range allInstrs(hashFn) {
				switch x := in.(type) {
				case *ssa.Store:
					fa, ok := x.Addr.(*ssa.FieldAddr)
					if !ok {
						continue
					}
					at := fi.T(fa).S
					if !cfgAddrRe.MatchString(at) && !(cfgText != "" && strings.Contains(at, cfgText+".")) {
						continue
					}
					if strings.HasSuffix(at, "GlobalConfig.ExternalLabels") {
						if engine.InstrDominates(x, hashCall) {
							blanked = true
							// value: empty label slice
							if sl, ok := unwrapCT(x.Val).(*ssa.Slice); ok {
								if al, ok := sl.X.(*ssa.Alloc); !ok || !strings.Contains(al.Type().String(), "[0]") {
									probs = append(probs, "external labels are replaced by a non-empty value before hashing")
								}
							} else if cst, ok := unwrapCT(x.Val).(*ssa.Const); !ok || cst.Value != nil {
								probs = append(probs, "external labels are set to "+short(fi.T(x.Val).S)+" before hashing")
							}
						} else if engine.InstrDominates(hashCall, x) {
							restored = true
						}
						continue
					}
					if blockReaches(load.Block(), x.Block()) && blockReaches(x.Block(), hashCall.Block()) && !engine.InstrDominates(hashCall, x) {
						probs = append(probs, "the parsed configuration is modified at "+at+" before it is hashed")
					}
				case ssa.CallInstruction:
					if x == ssa.CallInstruction(hashCall) || x == ssa.CallInstruction(load) {
						continue
					}
					if !(engine.InstrDominates(load, x) && !engine.InstrDominates(hashCall, x) && blockReaches(x.Block(), hashCall.Block())) {
						continue
					}
					c := x.Common()
					uses := false
					vals := append([]ssa.Value{}, c.Args...)
					if c.IsInvoke() {
						vals = append(vals, c.Value)
					}
					for _, a := range vals {
						t := fi.T(unwrapIface(a)).S
						if (cfgText != "" && (t == cfgText || strings.HasPrefix(t, cfgText+"."))) || cfgValRe.MatchString(t) || cfgAddrRe.MatchString(t) {
							uses = true
						}
					}
					if uses {
						name := "?"
						if o := engine.CalleeObj(c); o != nil {
							name = o.FullName()
						}
						probs = append(probs, "the parsed configuration is passed to "+name+" ("+p.Rel(x.Pos())+") before it is hashed (the hash must depend on the content only)")
					}
				}
			}
			if !blanked {
				probs = append(probs, "external labels are not blanked before hashing")
			}
			if !restored {
				probs = append(probs, "external labels are not restored after hashing")
			}
		}
		// the hash precedes the callbacks
		fCallbacks := p.Field(pkgProm, "ConfigManager", "callbacks")
		for _, in := range allInstrs(hashFn) {
			if call, ok := in.(*ssa.Call); ok && !call.Call.IsInvoke() && call.Call.StaticCallee() == nil {
				if strings.Contains(fi.T(call.Call.Value).S, "."+fCallbacks.Name()+"[") && !engine.InstrDominates(hashCall, call) {
					probs = append(probs, "a reload callback (which mutates the parsed configuration) can run before the hash is taken")
				}
			}
		}
		r.Check(len(probs) == 0, "R16.3-external-labels-only", "mutations before the hash in "+engine.FuncName(hashFn), engine.FuncName(hashFn), "only GlobalConfig.ExternalLabels is blanked (and restored); the config is passed to nothing else before the hash; callbacks run after", strings.Join(probs, "; "))
	}

	// ---- R16.4 callers pass raw bytes unmodified
	rawFn := p.SSAFunc(mRaw)
	if rawFn != hashFn {
		// the hashing function may be a helper of ReloadFromRaw
		ok := false
		if rawFn != nil {
			for _, in := range allInstrs(rawFn) {
				if call, okc := in.(*ssa.Call); okc && call.Call.StaticCallee() == hashFn {
					ok = true
				}
			}
		}
		r.Check(ok, "R16.4-one-implementation", "ReloadFromRaw reaches the hashing function", "ConfigManager.ReloadFromRaw", "ReloadFromRaw computes the hash", "the hash is computed in "+engine.FuncName(hashFn))
	}
	nCall := 0
	for _, fn := range p.Funcs {
		ffi := p.Info(fn)
		for _, ci := range callsIn(fn, mRaw) {
			nCall++
			arg := ci.Common().Args[1]
			src := ffi.T(arg).S
			ok := false
			switch {
			case strings.Contains(src, "io/ioutil.ReadFile(") || strings.Contains(src, "os.ReadFile("):
				ok = strings.HasSuffix(strings.Split(src, "#")[len(strings.Split(src, "#"))-1], ".0") || strings.HasSuffix(src, ".0")
			case strings.HasPrefix(src, "conv<[]byte>(") && strings.Contains(src, ".RawContent"):
				ok = true
			case paramIndex(fn, arg) >= 0:
				ok = true
			}
			r.Check(ok, "R16.4-one-implementation", fmt.Sprintf("ReloadFromRaw call#%d in %s", nCall, engine.FuncName(fn)), "call at "+p.Rel(ci.Pos()), "the raw configuration bytes are handed over unmodified (file content, or the pushed RawContent)", short(src))
		}
	}
}

// checkReportedHash is R16.5: the hash a sidecar reports is its configuration manager's current hash,
// read when the report is made, and the coordinator compares it with its own manager's current hash.
func checkReportedHash(p *engine.Prog, r *engine.Report) {
	fRtHash := p.Field(pkgShard, "RuntimeInfo", "ConfigHash")
	fHash := p.Field(pkgProm, "ConfigInfo", "ConfigHash")
	mInfo := p.Method(pkgProm, "ConfigManager", "ConfigInfo")
	fCur := p.Field(pkgProm, "ConfigManager", "currentConfig")
	if len(p.Problems) > 0 {
		return
	}
	n := 0
	for _, fn := range p.Funcs {
		if !engine.InPkg(fn, pkgSide) {
			continue
		}
		fi := p.Info(fn)
		for _, in := range allInstrs(fn) {
			st, ok := in.(*ssa.Store)
			if !ok {
				continue
			}
			fa, ok := st.Addr.(*ssa.FieldAddr)
			if !ok || engine.FieldOf(fa) != fRtHash {
				continue
			}
			n++
			why := ""
			base, ok := loadOfField(st.Val, fHash)
			if !ok {
				why = "the reported value is " + short(fi.T(st.Val).S) + ", not ConfigInfo().ConfigHash of the configuration manager"
			} else if call, ok := base.(*ssa.Call); !ok || engine.CalleeObj(call.Common()) != mInfo {
				why = "the reported hash is read from " + short(fi.T(base).S) + ", not from a ConfigInfo() call made for this report"
			}
			r.Check(why == "", "R16.5-reported-hash", fmt.Sprintf("reported hash#%d in %s", n, engine.FuncName(fn)), "store at "+p.Rel(st.Pos()),
				"RuntimeInfo.ConfigHash = the configuration manager's ConfigInfo().ConfigHash, read when the report is made (whatever way the configuration was loaded)", why)
		}
	}
	if n == 0 {
		r.Add("R16.5-reported-hash", "reported hash", pkgSide, "a store to RuntimeInfo.ConfigHash in the sidecar", "none found", engine.Undecided)
	}
	// every ConfigInfo installed as the current one carries the hash of its configuration: the object built by the
	// hashing function, the empty default of the constructor, or nothing else (a copy made elsewhere would have to
	// carry the hash over, which no rule here could confirm)
	{
		var probs []string
		nInst := 0
		for _, fn := range p.Funcs {
			if !engine.InPkg(fn, pkgProm) {
				continue
			}
			fi := p.Info(fn)
			for _, in := range allInstrs(fn) {
				st, ok := in.(*ssa.Store)
				if !ok {
					continue
				}
				fa, ok := st.Addr.(*ssa.FieldAddr)
				if !ok || engine.FieldOf(fa) != fCur {
					continue
				}
				nInst++
				if _, fresh := fa.X.(*ssa.Alloc); fresh {
					continue // constructor: the empty default
				}
				al, ok := st.Val.(*ssa.Alloc)
				if !ok {
					probs = append(probs, "currentConfig is set to "+short(fi.T(st.Val).S)+" in "+engine.FuncName(fn))
					continue
				}
				hashed := false
				for _, rr := range *al.Referrers() {
					if fa2, ok := rr.(*ssa.FieldAddr); ok && engine.FieldOf(fa2) == fHash {
						for _, r2 := range *fa2.Referrers() {
							if s2, ok := r2.(*ssa.Store); ok && s2.Addr == ssa.Value(fa2) {
								hashed = true
							}
						}
					}
				}
				// or it starts as a copy of the installed one (which carries its hash), changed in other fields only
				for _, rr := range *al.Referrers() {
					s2, ok := rr.(*ssa.Store)
					if !ok || s2.Addr != ssa.Value(al) {
						continue
					}
					if u, ok := s2.Val.(*ssa.UnOp); ok && isInstalledConfig(p, u.X, fCur, 0) && engine.InstrDominates(s2, st) {
						hashed = true
					}
				}
				if !hashed {
					probs = append(probs, "the ConfigInfo installed at "+p.Rel(st.Pos())+" ("+engine.FuncName(fn)+") never gets a ConfigHash: the process would report an empty hash while running a configuration")
				}
			}
		}
		r.Check(len(probs) == 0 && nInst > 0, "R16.5-reported-hash", "installed ConfigInfo carries its hash", "stores to ConfigManager.currentConfig", "every installed ConfigInfo (constructor default excepted) has its ConfigHash stored (R16.4: only from the structural hash)", strings.Join(probs, "; "))
	}
	// ConfigInfo() returns the manager's current configuration
	if f := p.SSAFunc(mInfo); f != nil {
		fi := p.Info(f)
		ok := true
		var have []string
		for _, ret := range returnsOf(f) {
			v := returnedValue(ret, 0)
			if base, isLoad := loadOfField(v, fCur); !isLoad || base != ssa.Value(f.Params[0]) {
				ok = false
				have = append(have, "returns "+short(fi.T(v).S))
			}
		}
		r.Check(ok, "R16.5-reported-hash", "ConfigInfo returns the current configuration", engine.FuncName(f), "every return is the manager's currentConfig field", strings.Join(have, "; "))
	}
}

func controlsC16(p *engine.Prog) []Control {
	// hash only the scrape jobs instead of the whole configuration → R16.2
	c1 := astControl(p, pkgProm, "hash a part of the configuration only", "C16/R16.2", func(n ast.Node, src []byte, off func(token.Pos) int) (int, int, string, bool) {
		call, ok := n.(*ast.CallExpr)
		if !ok || len(call.Args) != 3 {
			return 0, 0, "", false
		}
		sel, ok := call.Fun.(*ast.SelectorExpr)
		if !ok || sel.Sel.Name != "Hash" {
			return 0, 0, "", false
		}
		if id, ok := sel.X.(*ast.Ident); !ok || id.Name != "hashstructure" {
			return 0, 0, "", false
		}
		a := call.Args[0]
		return off(a.Pos()), off(a.End()), string(src[off(a.Pos()):off(a.End())]) + ".ScrapeConfigs", true
	})
	// non-default options → R16.2
	c2 := astControl(p, pkgProm, "hash with SlicesAsSets", "C16/R16.2", func(n ast.Node, src []byte, off func(token.Pos) int) (int, int, string, bool) {
		call, ok := n.(*ast.CallExpr)
		if !ok || len(call.Args) != 3 {
			return 0, 0, "", false
		}
		sel, ok := call.Fun.(*ast.SelectorExpr)
		if !ok || sel.Sel.Name != "Hash" {
			return 0, 0, "", false
		}
		if id, ok := sel.X.(*ast.Ident); !ok || id.Name != "hashstructure" {
			return 0, 0, "", false
		}
		a := call.Args[2]
		return off(a.Pos()), off(a.End()), "&hashstructure.HashOptions{SlicesAsSets: true}", true
	})
	return []Control{c1, c2}
}

// isInstalledConfig: v is the currently installed ConfigInfo: a load of the manager's field, or the result of a method
// whose every result is such a load.
func isInstalledConfig(p *engine.Prog, v ssa.Value, fCur *types.Var, depth int) bool {
	if depth > 2 {
		return false
	}
	if _, ok := loadOfField(v, fCur); ok {
		return true
	}
	if call, ok := v.(*ssa.Call); ok {
		callee := call.Call.StaticCallee()
		if callee == nil || callee.Blocks == nil {
			return false
		}
		n := 0
		for _, ret := range returnsOf(callee) {
			rv := returnedValue(ret, 0)
			if rv == nil || !isInstalledConfig(p, rv, fCur, depth+1) {
				return false
			}
			n++
		}
		return n > 0
	}
	return false
}
