package rules

import (
	"fmt"
	"go/constant"
	"go/types"
	"strings"

	"golang.org/x/tools/go/ssa"

	"kvcheck/engine"
)

func init() {
	register(&Rule{ID: "C08", Run: runC08, Controls: controlsC08,
		Explanation: "Structural necessary conditions of 'unready or out-of-sync shards are left alone', decided on the SSA form of pkg/coordinator: " +
			"R8.1 the only store of true to the in-sync flag is dominated (path condition, truth table) by Ready, both status requests error-free and equality of the shard's reported config hash (as loaded after the last reload of the runtime info) with the coordinator's hash; " +
			"R8.2 the raw-config push happens only under Ready/both-GETs-ok/hash-differs, sends the raw content of the same ConfigInfo, and every path from the push to the flag passes a fresh RuntimeInfo and an error check of the push; " +
			"R8.3 every UpdateTarget/UpdateExtraConfig call is on a shard certified in-sync (guard on the path, or provenance from the in-sync filter through parameters, closures and summaries); " +
			"R8.4 every placement destination (map write through shardInfo.scraping) is certified in-sync; " +
			"R8.5 the 'already scraped' set of the assigner is built from the unfiltered shard list and gates every first assignment; " +
			"R8.6 every reachable (Ready) shard's report is fetched before any return of the report loader, independent of the hash comparison; " +
			"R8.7 the list builder returns only after waiting for every loader it started (the list is final when planning begins); the config push carries and applies the raw configuration only. " +
			"Not decided: the sidecar's reaction to a pushed config (runtime behaviour).",
		Assumptions: []string{"go/types and go/ssa are correct", "calls through injected function fields (getConfig, APIGet/APIPost) do not write coordinator planning state",
			"weightedrand.Chooser.Pick returns the Item of one of the Choices given to NewChooser (reviewed in the pinned module)"}})
}

func isConstBool(v ssa.Value, want bool) bool {
	c, ok := v.(*ssa.Const)
	return ok && c.Value != nil && c.Value.Kind() == constant.Bool && constant.BoolVal(c.Value) == want
}

func isNilConst(v ssa.Value) bool {
	c, ok := v.(*ssa.Const)
	return ok && c.Value == nil
}

// callsIn lists calls (incl. defer/go) to the given method/function object inside fn.
func callsIn(fn *ssa.Function, target *types.Func) []ssa.CallInstruction {
	var out []ssa.CallInstruction
	for _, b := range fn.Blocks {
		for _, in := range b.Instrs {
			if ci, ok := in.(ssa.CallInstruction); ok && engine.CalleeObj(ci.Common()) == target {
				out = append(out, ci)
			}
		}
	}
	return out
}

// recvOf returns the receiver argument of a method call.
func recvOf(ci ssa.CallInstruction) ssa.Value {
	c := ci.Common()
	if c.IsInvoke() {
		return c.Value
	}
	if len(c.Args) > 0 {
		return c.Args[0]
	}
	return nil
}

// extractOf returns the Extract #idx of a tuple-valued call, or nil.
func extractOf(call ssa.Value, idx int) *ssa.Extract {
	refs := call.Referrers()
	if refs == nil {
		return nil
	}
	for _, r := range *refs {
		if e, ok := r.(*ssa.Extract); ok && e.Index == idx {
			return e
		}
	}
	return nil
}

// errNilAtom is the formula "the error result of call is nil" (result index idx, or the call itself when single-valued).
func errNilAtom(fi *engine.FuncInfo, call *ssa.Call, idx int) *engine.Formula {
	var t string
	if idx < 0 {
		t = fi.T(call).S
	} else {
		t = fi.T(call).S + fmt.Sprintf(".%d", idx)
	}
	return engine.EqAtom(t, "nil")
}

// storedTo reports whether value v (or an Extract of it) is stored to field f of base.
func storedToField(v ssa.Value, f *types.Var) (base ssa.Value, st *ssa.Store) {
	var scan func(x ssa.Value)
	scan = func(x ssa.Value) {
		refs := x.Referrers()
		if refs == nil {
			return
		}
		for _, r := range *refs {
			switch r := r.(type) {
			case *ssa.Store:
				if r.Val == x {
					if fa, ok := r.Addr.(*ssa.FieldAddr); ok && engine.FieldOf(fa) == f {
						base, st = fa.X, r
					}
				}
			case *ssa.Extract:
				if r.Index == 0 {
					scan(r)
				}
			}
		}
	}
	scan(v)
	return
}

func runC08(p *engine.Prog, r *engine.Report) {
	c := newCoord(p)
	if len(p.Problems) > 0 {
		return
	}
	fReady := p.Field(pkgShard, "Shard", "Ready")
	fCfgHash := p.Field(pkgProm, "ConfigInfo", "ConfigHash")
	fRaw := p.Field(pkgProm, "ConfigInfo", "RawContent")
	fGetConfig := p.Field(pkgCoord, "Coordinator", "getConfig")
	if len(p.Problems) > 0 {
		return
	}
	r.Min("R8.1-flag", 1)
	r.Min("R8.2-push", 1)
	r.Min("R8.3-update", 2)
	r.Min("R8.4-destination", 2)
	r.Min("R8.5-scraped-set", 1)
	r.Min("R8.6-report-fetched", 1)
	r.Min("R8.7-complete-list", 1)

	// ---- R8.1: stores to changeAble
	nTrue := 0
	for _, fn := range c.funcs {
		fi := p.Info(fn)
		for _, b := range fn.Blocks {
			for _, in := range b.Instrs {
				st, ok := in.(*ssa.Store)
				if !ok {
					continue
				}
				fa, ok := st.Addr.(*ssa.FieldAddr)
				if !ok || engine.FieldOf(fa) != c.fChangeAble {
					continue
				}
				if isConstBool(st.Val, false) {
					continue
				}
				nTrue++
				ck := fmt.Sprintf("store#%d in %s", nTrue, engine.FuncName(fn))
				where := c.at(st)
				// "flag = cond" sets the flag exactly when cond holds: everything below is decided under that assumption
				var assume *engine.Formula
				if !isConstBool(st.Val, true) {
					if b, ok := st.Val.Type().Underlying().(*types.Basic); !ok || b.Kind() != types.Bool {
						r.Add("R8.1-flag", ck, "store to shardInfo.changeAble at "+where, "the in-sync flag is only ever set to the constant true under the full guard", "stores a computed value "+fi.T(st.Val).S, engine.Violated)
						continue
					}
					assume = fi.Cond(st.Val)
				}
				under := func(f *engine.Formula) *engine.Formula {
					if assume == nil {
						return f
					}
					return engine.Or(engine.Not(assume), f)
				}
				base := fa.X
				// find the report calls feeding this shardInfo
				var ts []*ssa.Call
				var ris []*ssa.Call
				for _, ci := range callsIn(fn, c.mTargetStatus) {
					if call, ok := ci.(*ssa.Call); ok {
						if b2, _ := storedToField(call, c.fScraping); b2 == base {
							ts = append(ts, call)
						}
					}
				}
				for _, ci := range callsIn(fn, c.mRuntimeInfo) {
					if call, ok := ci.(*ssa.Call); ok {
						if b2, _ := storedToField(call, c.fRuntime); b2 == base {
							ris = append(ris, call)
						}
					}
				}
				if len(ts) != 1 || len(ris) == 0 {
					r.Add("R8.1-flag", ck, "store to shardInfo.changeAble at "+where, "the function stores the results of one TargetStatus call and of RuntimeInfo call(s) into the same shardInfo",
						fmt.Sprintf("found %d TargetStatus and %d RuntimeInfo calls stored into it", len(ts), len(ris)), engine.Undecided)
					continue
				}
				recv := recvOf(ts[0])
				var need []*engine.Formula
				var needTxt []string
				ready := engine.TrueAtom(fi.FieldPath(c.shardIdent(fi, recv), st, fReady))
				need = append(need, ready)
				needTxt = append(needTxt, "shard.Ready")
				need = append(need, errNilAtom(fi, ts[0], 1))
				needTxt = append(needTxt, "TargetStatus err == nil")
				ok1, have := fi.Implies(st.Block(), under(engine.And(need...)))
				okAll := ok1
				haveTxt := strings.Join(have, " ∧ ")
				// every RuntimeInfo call: same receiver, error checked on every path from it to the flag
				for i, ri := range ris {
					if c.shardIdent(fi, recvOf(ri)) != c.shardIdent(fi, recv) {
						okAll = false
						haveTxt += fmt.Sprintf("; RuntimeInfo#%d is called on a different shard (%s)", i+1, fi.T(recvOf(ri)).S)
					}
					okr, _ := fi.ImpliesFrom(ri.Block(), st.Block(), errNilAtom(fi, ri, 1))
					if !okr {
						okAll = false
						haveTxt += fmt.Sprintf("; a path from RuntimeInfo#%d (%s) reaches the flag without its error being nil", i+1, p.Rel(ri.Pos()))
					}
				}
				needTxt = append(needTxt, "RuntimeInfo err == nil (every call, on every path from it)")
				// hash equality with the runtime as loaded at the flag store
				rtHash := fi.FieldPath(fi.T(base).S, st, c.fRuntime, c.fCfgHash)
				hashOK := false
				var cfgTerm string
				for _, b2 := range fn.Blocks {
					for _, in2 := range b2.Instrs {
						u, ok := in2.(*ssa.UnOp)
						if !ok {
							continue
						}
						if fa2, ok := u.X.(*ssa.FieldAddr); ok && engine.FieldOf(fa2) == fCfgHash {
							ct := fi.T(u).S
							if fi.ImpliesVersioned(st, func(at ssa.Instruction) *engine.Formula {
								return under(engine.EqAtom(ct, fi.FieldPath(fi.T(base).S, at, c.fRuntime, c.fCfgHash)))
							}) {
								// the ConfigInfo must come from the injected getConfig
								if cv, ok := fi.Calls[fi.T(fa2.X).S]; ok {
									if call, ok := cv.(*ssa.Call); ok {
										if _, ok := loadOfField(call.Call.Value, fGetConfig); ok {
											hashOK = true
											cfgTerm = fi.T(fa2.X).S
										}
									}
								}
							}
						}
					}
				}
				needTxt = append(needTxt, "runtime.ConfigHash (as loaded after the last store to runtime) == getConfig().ConfigHash")
				if !hashOK {
					okAll = false
					haveTxt += "; no equality between " + rtHash + " and the ConfigHash of getConfig() holds on every path"
				}
				r.Check(okAll, "R8.1-flag", ck, "store of true to shardInfo.changeAble at "+where, strings.Join(needTxt, " ∧ "), haveTxt)

				// ---- R8.2: UpdateConfig in the same function
				for j, ci := range callsIn(fn, c.mUpdateConfig) {
					uc, ok := ci.(*ssa.Call)
					if !ok {
						continue
					}
					ck2 := fmt.Sprintf("UpdateConfig#%d in %s", j+1, engine.FuncName(fn))
					var probs []string
					if c.shardIdent(fi, recvOf(uc)) != c.shardIdent(fi, recv) {
						probs = append(probs, "pushed to a different shard than the one reported")
					}
					rtHashU := fi.FieldPath(fi.T(base).S, uc, c.fRuntime, c.fCfgHash)
					needU := []*engine.Formula{engine.TrueAtom(fi.FieldPath(c.shardIdent(fi, recv), uc, fReady)), errNilAtom(fi, ts[0], 1)}
					if cfgTerm != "" {
						needU = append(needU, engine.Not(engine.EqAtom(cfgTerm+"."+fCfgHash.Name(), rtHashU)))
					}
					if ok, have := fi.Implies(uc.Block(), engine.And(needU...)); !ok {
						probs = append(probs, "guard at the push is only: "+strings.Join(have, " ∧ "))
					}
					okri := false
					for _, ri := range ris {
						if engine.InstrDominates(ri, uc) {
							if ok, _ := fi.ImpliesFrom(ri.Block(), uc.Block(), errNilAtom(fi, ri, 1)); ok {
								okri = true
							}
						}
					}
					if !okri {
						probs = append(probs, "no error-checked RuntimeInfo precedes the push")
					}
					// argument: RawContent of the same ConfigInfo
					argOK := false
					if len(uc.Call.Args) >= 2 {
						if al, ok := uc.Call.Args[1].(*ssa.Alloc); ok {
							for _, rr := range *al.Referrers() {
								if fa3, ok := rr.(*ssa.FieldAddr); ok {
									for _, r3 := range *fa3.Referrers() {
										if s3, ok := r3.(*ssa.Store); ok && s3.Addr == fa3 {
											vt := fi.T(s3.Val).S
											if cfgTerm != "" && strings.Contains(vt, cfgTerm+"."+fRaw.Name()) {
												argOK = true
											}
										}
									}
								}
							}
						}
					}
					if !argOK {
						probs = append(probs, "the pushed content is not RawContent of the ConfigInfo whose hash was compared")
					}
					// every path from the push to the flag passes a fresh RuntimeInfo stored to runtime, and the push error is nil
					fresh := fi.MustPass(uc, st, func(in ssa.Instruction) bool {
						for _, ri := range ris {
							if in == ssa.Instruction(ri) {
								return true
							}
						}
						return false
					})
					if !fresh {
						probs = append(probs, "a path from the push reaches the flag without a fresh RuntimeInfo")
					}
					if ok, _ := fi.ImpliesFrom(uc.Block(), st.Block(), errNilAtom(fi, uc, -1)); !ok {
						probs = append(probs, "a path from a failed push reaches the flag")
					}
					r.Check(len(probs) == 0, "R8.2-push", ck2, "call of Shard.UpdateConfig at "+c.at(uc),
						"Ready ∧ GETs ok ∧ hash differs; content = getConfig().RawContent; then fresh RuntimeInfo and push error nil before the flag", strings.Join(probs, "; "))
				}

				// ---- R8.6: the report is fetched for every Ready shard
				cutBlock := ts[0].Block()
				for k, b3 := range fn.Blocks {
					ret, ok := b3.Instrs[len(b3.Instrs)-1].(*ssa.Return)
					if !ok {
						continue
					}
					_ = k
					notReady := engine.Not(engine.TrueAtom(fi.FieldPath(c.shardIdent(fi, recv), ret, fReady)))
					v := fi.ViewOpt(notReady, nil, cutBlock)
					if !v.Reachable(b3) {
						continue
					}
					ok2, have := v.Implies(b3, notReady)
					r.Check(ok2, "R8.6-report-fetched", fmt.Sprintf("return without report in %s", engine.FuncName(fn)), "return at "+c.at(ret)+" reachable without calling TargetStatus",
						"a return that skips Shard.TargetStatus is only reachable when the shard is not Ready (targets of every reachable shard must count as scraped)", "path condition: "+strings.Join(have, " ∧ "))
				}
				// the TargetStatus call itself must not be guarded by anything but Ready
				{
					ok3 := fi.MustPass(nil, nil, func(in ssa.Instruction) bool {
						if in == ssa.Instruction(ts[0]) {
							return true
						}
						return false
					})
					_ = ok3
				}
				r.Add("R8.6-report-fetched", "TargetStatus in "+engine.FuncName(fn), "call of Shard.TargetStatus at "+c.at(ts[0]), "exists and its result is stored into shardInfo.scraping", "found", engine.Discharged)
			}
		}
	}

	// ---- R8.3: updates only to certified shards
	n := 0
	for _, m := range []*types.Func{c.mUpdateTarget, c.mUpdateExtra} {
		for _, ci := range p.CallsTo(m) {
			fn := ci.Parent()
			if !engine.InPkg(fn, pkgCoord) {
				continue
			}
			n++
			ck := fmt.Sprintf("%s#%d in %s", m.Name(), n, engine.FuncName(fn))
			x, ok := loadOfField(recvOf(ci), c.fShard)
			if !ok {
				r.Add("R8.3-update", ck, "call of Shard."+m.Name()+" at "+c.at(ci), "receiver is shardInfo.shard of a certified shardInfo", "receiver "+p.Info(fn).T(recvOf(ci)).S+" is not loaded from a shardInfo", engine.Violated)
				continue
			}
			ok2, why := c.certified(fn, x, ci)
			r.Check(ok2, "R8.3-update", ck, "call of Shard."+m.Name()+" at "+c.at(ci), "the shardInfo is in sync (changeAble) at the call", why)
		}
	}

	// ---- R8.4: placement destinations are certified
	for i, mw := range c.mapWrites {
		fn := mw.Parent()
		d, _ := loadOfField(mw.Map, c.fScraping)
		ok, why := c.certified(fn, d, mw)
		r.Check(ok, "R8.4-destination", fmt.Sprintf("map write#%d in %s", i+1, engine.FuncName(fn)), "write into shardInfo.scraping at "+c.at(mw), "destination shard is in sync (changeAble)", why)
	}

	// ---- R8.5: the assigner's scraped set
	c.checkScrapedSet(r)

	// ---- R8.7: the shard list handed to planning is complete and final: the list builder returns only after
	// waiting for every loader it started (a loader finishing later would flip a shard's status mid-cycle)
	for _, fn := range c.funcs {
		if !c.isListBuilder(fn) {
			continue
		}
		var probs []string
		var waits []ssa.Instruction
		nGo := 0
		for _, in := range allInstrs(fn) {
			switch x := in.(type) {
			case *ssa.Call:
				if o := engine.CalleeObj(x.Common()); o != nil && o.Name() == "Wait" && o.Pkg() != nil && (o.Pkg().Path() == "golang.org/x/sync/errgroup" || o.Pkg().Path() == "sync") {
					waits = append(waits, x)
				}
				if o := engine.CalleeObj(x.Common()); o != nil && o.Name() == "Go" && o.Pkg() != nil && o.Pkg().Path() == "golang.org/x/sync/errgroup" {
					nGo++
				}
			case *ssa.Go:
				probs = append(probs, "a loader is started with a bare go statement at "+p.Rel(x.Pos())+" (nothing waits for it)")
			case *ssa.Select:
				probs = append(probs, "the list builder selects on channels at "+p.Rel(x.Pos())+" (it may return before every loader has finished)")
			}
		}
		for _, ret := range returnsOf(fn) {
			ok := false
			for _, w := range waits {
				if engine.InstrDominates(w, ret) {
					ok = true
				}
			}
			if !ok && nGo > 0 {
				probs = append(probs, "return at "+p.Rel(ret.Pos())+" is not preceded by Wait() on the loaders")
			}
		}
		r.Check(len(probs) == 0, "R8.7-complete-list", "list builder "+engine.FuncName(fn), engine.FuncName(fn)+" ("+p.Rel(fn.Pos())+")", "returns only after Wait() on every loader goroutine it started", strings.Join(probs, "; "))
	}

	// ---- R8.2b: the config push carries the raw configuration only, and the sidecar's push handler applies nothing else
	{
		reqT := p.Named(pkgShard, "UpdateConfigRequest")
		mExtra := p.Method(pkgProm, "ConfigManager", "UpdateExtraConfig")
		mRaw := p.Method(pkgProm, "ConfigManager", "ReloadFromRaw")
		var probs []string
		if reqT != nil {
			for _, fn := range c.funcs {
				for _, in := range allInstrs(fn) {
					if st, ok := in.(*ssa.Store); ok {
						if fa, ok := st.Addr.(*ssa.FieldAddr); ok && isPtrTo(fa.X.Type(), reqT) && engine.FieldOf(fa).Name() != "RawContent" {
							probs = append(probs, "the config push also carries "+engine.FieldOf(fa).Name()+" (set at "+p.Rel(st.Pos())+"): an out-of-sync shard would receive more than the raw configuration")
						}
					}
				}
			}
		}
		for _, fn := range p.Funcs {
			if !engine.InPkg(fn, pkgSide) || len(callsIn(fn, mRaw)) == 0 {
				continue
			}
			if len(callsIn(fn, mExtra)) > 0 {
				probs = append(probs, "the sidecar's config-push handler "+engine.FuncName(fn)+" also applies an extra-config update")
			}
		}
		r.Check(len(probs) == 0, "R8.2-push", "content of the config push", "shard.UpdateConfigRequest writers and the sidecar's push handler", "the push carries and applies the raw configuration only", strings.Join(probs, "; "))
	}
}

// unfiltered reports whether slice value s (in fn) is the unfiltered shard list: the result of a
// function that allocates one shardInfo slot per *shard.Shard of its argument (through parameters).
func (c *coord) unfiltered(fn *ssa.Function, s ssa.Value, depth int) (bool, string) {
	if depth > 5 {
		return false, "inlining bound exceeded"
	}
	switch v := s.(type) {
	case *ssa.Call:
		if callee := v.Call.StaticCallee(); callee != nil && callee.Blocks != nil {
			if c.isListBuilder(callee) {
				return true, "result of list builder " + engine.FuncName(callee)
			}
			if c.filters[callee] {
				return false, "result of the in-sync filter " + engine.FuncName(callee)
			}
		}
	case *ssa.Parameter:
		idx := -1
		for i, q := range fn.Params {
			if q == v {
				idx = i
			}
		}
		sites := 0
		for _, caller := range c.funcs {
			for _, b := range caller.Blocks {
				for _, in := range b.Instrs {
					ci, ok := in.(ssa.CallInstruction)
					if !ok || ci.Common().StaticCallee() != fn {
						continue
					}
					sites++
					if ok, why := c.unfiltered(caller, ci.Common().Args[idx], depth+1); !ok {
						return false, "call in " + engine.FuncName(caller) + ": " + why
					}
				}
			}
		}
		if sites == 0 || fnUsedAsValue(c.p, fn) {
			return false, "callers unknown"
		}
		return true, "all call sites pass the unfiltered list"
	case *ssa.UnOp:
		fi := c.p.Info(fn)
		if al, ok := v.X.(*ssa.Alloc); ok {
			if sv := fi.SingleStore(al, v); sv != nil {
				return c.unfiltered(fn, sv, depth+1)
			}
		}
	}
	return false, "slice " + c.p.Info(fn).T(s).S + " is not the result of the list builder"
}

// isListBuilder: returns a []*shardInfo made with len == len(param of type []*shard.Shard).
func (c *coord) isListBuilder(fn *ssa.Function) bool {
	if v, ok := c.listBuilders[fn]; ok {
		return v
	}
	res := false
	shardT := c.p.Named(pkgShard, "Shard")
	for _, b := range fn.Blocks {
		for _, in := range b.Instrs {
			ret, ok := in.(*ssa.Return)
			if !ok || len(ret.Results) != 1 {
				continue
			}
			rv := ret.Results[0]
			if u, ok := rv.(*ssa.UnOp); ok {
				if al, ok := u.X.(*ssa.Alloc); ok {
					if sv := singleStoreOf(al); sv != nil {
						rv = sv
					}
				}
			}
			ms, ok := rv.(*ssa.MakeSlice)
			if !ok || !isSliceOfPtrTo(ms.Type(), c.shardInfo) {
				return false
			}
			call, ok := ms.Len.(*ssa.Call)
			if !ok {
				return false
			}
			bi, ok := call.Call.Value.(*ssa.Builtin)
			if !ok || bi.Name() != "len" {
				return false
			}
			pa, ok := call.Call.Args[0].(*ssa.Parameter)
			if !ok || !isSliceOfPtrTo(pa.Type(), shardT) {
				return false
			}
			res = true
		}
	}
	c.listBuilders[fn] = res
	return res
}

// checkScrapedSet implements R8.5 on every direct placement whose destination comes from a call
// (the assigner role).
func (c *coord) checkScrapedSet(r *engine.Report) {
	p := c.p
	for _, mw := range c.mapWrites {
		fn := mw.Parent()
		d, _ := loadOfField(mw.Map, c.fScraping)
		if _, isCall := d.(*ssa.Call); !isCall {
			continue
		}
		fi := p.Info(fn)
		ck := "assigner " + engine.FuncName(fn)
		// the placement must be guarded by ¬set[key] for a bool map 'set' local to fn
		keyT := fi.T(mw.Key).S
		var setMap *ssa.MakeMap
		for _, lit := range fi.Guards(mw.Block()) {
			if !strings.HasPrefix(lit, "¬true(") {
				continue
			}
			for _, b := range fn.Blocks {
				for _, in := range b.Instrs {
					mm, ok := in.(*ssa.MakeMap)
					if !ok {
						continue
					}
					if strings.HasPrefix(lit, "¬true("+fi.T(mm).S+"["+keyT+"]") {
						setMap = mm
					}
				}
			}
		}
		if setMap == nil {
			r.Add("R8.5-scraped-set", ck, "first assignment at "+c.at(mw), "placement guarded by ¬alreadyScraped[hash] for a set built in the function", "no such guard: "+strings.Join(fi.Guards(mw.Block()), " ∧ "), engine.Violated)
			continue
		}
		// every update of the set: key ranges over X.scraping, X element of the unfiltered list; at least one
		okAll, why, nUpd := true, "", 0
		for _, rr := range *setMap.Referrers() {
			mu, ok := rr.(*ssa.MapUpdate)
			if !ok || mu.Map != setMap {
				continue
			}
			nUpd++
			if !isConstBool(mu.Value, true) {
				okAll, why = false, "set updated with a non-true value"
				continue
			}
			ext, ok := mu.Key.(*ssa.Extract)
			if !ok {
				okAll, why = false, "set key is not a range key"
				continue
			}
			nx, ok := ext.Tuple.(*ssa.Next)
			if !ok {
				okAll, why = false, "set key is not a range key"
				continue
			}
			rg, ok := nx.Iter.(*ssa.Range)
			if !ok {
				okAll, why = false, "set key is not a range key"
				continue
			}
			x, ok := loadOfField(rg.X, c.fScraping)
			if !ok {
				okAll, why = false, "set is not filled from shardInfo.scraping"
				continue
			}
			ld, ok := x.(*ssa.UnOp)
			if !ok {
				okAll, why = false, "shardInfo is not an element of a list"
				continue
			}
			ia, ok := ld.X.(*ssa.IndexAddr)
			if !ok {
				okAll, why = false, "shardInfo is not an element of a list"
				continue
			}
			if ok, w := c.unfiltered(fn, ia.X, 0); !ok {
				okAll, why = false, w
				continue
			}
			// the update must not be guarded by the in-sync flag
			for _, lit := range fi.Guards(mu.Block()) {
				if strings.Contains(lit, "."+c.fChangeAble.Name()) {
					okAll, why = false, "set update is guarded by "+lit
				}
			}
		}
		if nUpd == 0 {
			okAll, why = false, "the set is never filled"
		}
		r.Check(okAll, "R8.5-scraped-set", ck, "already-scraped set of the assigner at "+c.at(mw),
			"filled from the scraping maps of ALL shards of the unfiltered list (also unready/out-of-sync ones that answered), and gating the placement", why)
	}
}

func controlsC08(p *engine.Prog) []Control { return nil }

// shardIdent names the shard a value denotes: x.shard of a shardInfo x that was just built by a constructor which
// stores its parameter into that field is the constructor's argument.
func (c *coord) shardIdent(fi *engine.FuncInfo, v ssa.Value) string {
	if owner, ok := loadOfField(v, c.fShard); ok {
		if call, ok := owner.(*ssa.Call); ok {
			if callee := call.Call.StaticCallee(); callee != nil && callee.Blocks != nil {
				for _, ret := range returnsOf(callee) {
					al, ok := ret.Results[0].(*ssa.Alloc)
					if !ok {
						continue
					}
					for _, rr := range *al.Referrers() {
						fa, ok := rr.(*ssa.FieldAddr)
						if !ok || engine.FieldOf(fa) != c.fShard {
							continue
						}
						for _, r2 := range *fa.Referrers() {
							if st, ok := r2.(*ssa.Store); ok && st.Addr == ssa.Value(fa) {
								if pi := paramIndex(callee, st.Val); pi >= 0 && pi < len(call.Call.Args) {
									return fi.T(call.Call.Args[pi]).S
								}
							}
						}
					}
				}
			}
		}
	}
	return fi.T(v).S
}
