package rules

import (
	"fmt"
	"go/types"
	"strings"

	"golang.org/x/tools/go/ssa"

	"kvcheck/engine"
)

// checkPopulate is R2.6: in the discovery side's label population (the function that runs the relabel
// program and builds the final label set), the value stored as __address__ and the default of the instance
// label are both the port-completed address, the address check is made on it, and all three precede the
// Labels() call whose result is returned.
func checkPopulate(p *engine.Prog, r *engine.Report) {
	n := 0
	for _, fn := range p.Funcs {
		if !engine.InPkg(fn, pkgDisc) {
			continue
		}
		var process *ssa.Call
		for _, in := range allInstrs(fn) {
			if call, ok := in.(*ssa.Call); ok && engine.CalleeIs(call.Common(), "github.com/prometheus/prometheus/model/relabel", "", "Process") {
				process = call
			}
		}
		if process == nil {
			continue
		}
		n++
		fi := p.Info(fn)
		var probs []string
		// the port completion: a call in pkg/discovery with (string, string) -> (string, error) fed with the address and scheme labels of the relabelled set
		var completed *ssa.Extract
		for _, in := range allInstrs(fn) {
			call, ok := in.(*ssa.Call)
			if !ok || call.Call.StaticCallee() == nil || !engine.InPkg(call.Call.StaticCallee(), pkgDisc) || len(call.Call.Args) != 2 {
				continue
			}
			a0, a1 := fi.T(call.Call.Args[0]).S, fi.T(call.Call.Args[1]).S
			if strings.Contains(a0, `,"__address__")`) && strings.Contains(a1, `,"__scheme__")`) && strings.Contains(a0, "relabel.Process(") {
				completed = extractOf(call, 0)
			}
		}
		if completed != nil {
			// R2.10: the scheme is looked at only to choose a default port. The completion rejects a target (non-nil error)
			// only where a port has to be added: under the true result of its "needs a port" predicate on the address.
			// Prometheus keeps a target that has a port whatever its scheme label says; a rejection fails the whole group here.
			if cal := completed.Tuple.(*ssa.Call).Call.StaticCallee(); cal != nil && len(cal.Blocks) > 0 && len(cal.Params) == 2 {
				cfi := p.Info(cal)
				var need []*ssa.Call
				for _, in := range allInstrs(cal) {
					c, ok := in.(*ssa.Call)
					if !ok || len(c.Call.Args) != 1 || c.Call.Args[0] != ssa.Value(cal.Params[0]) {
						continue
					}
					if b, ok := c.Type().Underlying().(*types.Basic); ok && b.Kind() == types.Bool {
						need = append(need, c)
					}
				}
				var rprobs []string
				nRej := 0
				for _, ret := range returnsOf(cal) {
					if len(ret.Results) != 2 {
						continue
					}
					ev := returnedValue(ret, 1)
					if c, ok := ev.(*ssa.Const); ok && c.Value == nil {
						continue
					}
					nRej++
					okk := false
					for _, nc := range need {
						if g, _ := cfi.Implies(ret.Block(), engine.TrueAtom(cfi.T(nc).S)); g {
							okk = true
						}
					}
					if len(need) == 0 {
						for _, g := range cfi.Guards(ret.Block()) {
							if strings.Contains(g, cfi.T(cal.Params[0]).S) {
								okk = true
							}
						}
					}
					if !okk {
						rprobs = append(rprobs, "the error return at "+p.Rel(ret.Pos())+" is reached for an address that already has a port (guards: "+strings.Join(cfi.Guards(ret.Block()), " ∧ ")+")")
					}
				}
				r.Check(len(rprobs) == 0, "R2.10-scheme-only-for-default-port", "rejections of "+engine.FuncName(cal), engine.FuncName(cal)+" ("+p.Rel(cal.Pos())+")",
					fmt.Sprintf("each of the %d error returns of the port completion is reached only when the address needs a port (the scheme of a target with a port is not validated, as in Prometheus)", nRej), strings.Join(rprobs, "; "))
			}
		}
		if completed == nil {
			probs = append(probs, "the address of the relabelled label set is not completed with the scheme's default port")
		} else {
			ct := fi.T(completed).S
			var sets = map[string][]*ssa.Call{}
			var final *ssa.Call
			for _, ret := range returnsOf(fn) {
				if call, ok := returnedValue(ret, 0).(*ssa.Call); ok && engine.CalleeIs(call.Common(), "github.com/prometheus/prometheus/model/labels", "Builder", "Labels") {
					final = call
				}
			}
			if final == nil {
				probs = append(probs, "the returned label set is not the builder's Labels()")
			}
			for _, in := range allInstrs(fn) {
				call, ok := in.(*ssa.Call)
				if !ok || !engine.CalleeIs(call.Common(), "github.com/prometheus/prometheus/model/labels", "Builder", "Set") {
					continue
				}
				if final != nil && call.Call.Args[0] != final.Call.Args[0] {
					continue
				}
				if name, ok := constString(call.Call.Args[1]); ok {
					sets[name] = append(sets[name], call)
				}
			}
			for _, name := range []string{"__address__", "instance"} {
				if len(sets[name]) == 0 {
					probs = append(probs, "the final builder never sets "+name)
				}
				for _, s := range sets[name] {
					if fi.T(s.Call.Args[2]).S != ct {
						probs = append(probs, name+" is set to "+short(fi.T(s.Call.Args[2]).S)+", not to the port-completed address (Prometheus completes the port first and defaults instance to the completed address)")
					}
					if final != nil && !engine.InstrDominates(s, final) && name == "__address__" {
						probs = append(probs, name+" is not set before the final label set is taken")
					}
					if final != nil && !blockReaches(s.Block(), final.Block()) {
						probs = append(probs, "the "+name+" store does not reach the final Labels()")
					}
				}
			}
			// instance only defaulted when the relabelled set has none
			for _, s := range sets["instance"] {
				okG := false
				for _, g := range fi.Guards(s.Block()) {
					if strings.HasPrefix(g, `eq("",`) && strings.Contains(g, `,"instance")`) {
						okG = true
					}
				}
				if !okG {
					probs = append(probs, "instance is overwritten although the relabelled set may define it")
				}
			}
			okChk := false
			for _, in := range allInstrs(fn) {
				if call, ok := in.(*ssa.Call); ok && engine.CalleeIs(call.Common(), "github.com/prometheus/prometheus/config", "", "CheckTargetAddress") {
					if fi.T(call.Call.Args[0]).S == ct {
						okChk = true
					}
				}
			}
			if !okChk {
				probs = append(probs, "CheckTargetAddress is not applied to the completed address")
			}
		}
		// the job's defaults (job, metrics path, scheme) are applied before relabeling exactly when the discovered value
		// is empty: an empty discovered label counts as absent, as in Prometheus' own populateLabels
		{
			var dprobs []string
			nDef := 0
			for _, in := range allInstrs(fn) {
				set, ok := in.(*ssa.Call)
				if !ok || !engine.CalleeIs(set.Common(), "github.com/prometheus/prometheus/model/labels", "Builder", "Set") || engine.InstrDominates(process, set) || !blockReaches(set.Block(), process.Block()) {
					continue
				}
				name := fi.T(set.Call.Args[1]).S
				if strings.Contains(name, `"__param_"`) {
					continue
				}
				nDef++
				okG := false
				sawGet := false
				for _, in2 := range allInstrs(fn) {
					get, ok := in2.(*ssa.Call)
					if !ok || !engine.CalleeIs(get.Common(), "github.com/prometheus/prometheus/model/labels", "Labels", "Get") || len(get.Call.Args) != 2 || fi.T(get.Call.Args[1]).S != name {
						continue
					}
					sawGet = true
					if ok, _ := fi.Implies(set.Block(), engine.EqAtom(fi.T(get).S, `""`)); ok {
						okG = true
					}
				}
				if !okG {
					why := "is not guarded by 'the discovered value is empty'"
					if !sawGet {
						why = "is decided without reading the discovered value (an empty value must count as absent)"
					}
					dprobs = append(dprobs, "the default for "+short(name)+" at "+p.Rel(set.Pos())+" "+why)
				}
			}
			if nDef == 0 {
				dprobs = append(dprobs, "no job default is set before relabeling")
			}
			r.Check(len(dprobs) == 0, "R2.6-completed-address", "job defaults in "+engine.FuncName(fn), engine.FuncName(fn)+" ("+p.Rel(fn.Pos())+")",
				"job, metrics path and scheme defaults are set before relabeling exactly under 'discovered value == \"\"'", strings.Join(dprobs, "; "))
		}
		r.Check(len(probs) == 0, "R2.6-completed-address", "label population in "+engine.FuncName(fn), engine.FuncName(fn)+" ("+p.Rel(fn.Pos())+")",
			"__address__ and the instance default are the port-completed address of the relabelled set; instance only defaulted when empty; address check on the completed value", strings.Join(probs, "; "))
	}
	if n == 0 {
		r.Add("R2.6-completed-address", "label population", pkgDisc, "a function of pkg/discovery that runs relabel.Process", "none found", engine.Undecided)
	}
}

// checkFreshTranslation is R2.7: every target the discovery side publishes comes from a translation made in
// this very update with the job configuration that is current now. A translation kept from an earlier update
// would carry the scheme, path, parameters and relabeling of the configuration it was made under; whether a
// cache is invalidated by every relevant configuration change is not decidable here and is reported.
func checkFreshTranslation(p *engine.Prog, r *engine.Report) {
	fCfg := p.Field(pkgDisc, "TargetsDiscovery", "config")
	fAct := p.Field(pkgDisc, "TargetsDiscovery", "activeTargets")
	if len(p.Problems) > 0 {
		return
	}
	n := 0
	for _, fn := range p.Funcs {
		if !engine.InPkg(fn, pkgDisc) || fn.Signature.Recv() == nil {
			continue
		}
		// the translating function: calls a (group, *ScrapeConfig) translation and updates activeTargets
		var trCalls []*ssa.Call
		for _, in := range allInstrs(fn) {
			call, ok := in.(*ssa.Call)
			if !ok || call.Call.StaticCallee() == nil || !engine.InPkg(call.Call.StaticCallee(), pkgDisc) || len(call.Call.Args) != 2 {
				continue
			}
			if strings.HasSuffix(call.Call.Args[0].Type().String(), "targetgroup.Group") && strings.HasSuffix(call.Call.Args[1].Type().String(), "config.ScrapeConfig") {
				trCalls = append(trCalls, call)
			}
		}
		if len(trCalls) == 0 {
			continue
		}
		updates := false
		for _, in := range allInstrs(fn) {
			if mu, ok := in.(*ssa.MapUpdate); ok {
				if _, ok := loadOfField(mu.Map, fAct); ok {
					updates = true
				}
			}
		}
		if !updates {
			continue
		}
		n++
		fi := p.Info(fn)
		var probs []string
		for _, call := range trCalls {
			// the configuration argument is the lookup in the manager's current config map, made in this invocation
			lk, ok := call.Call.Args[1].(*ssa.Lookup)
			if !ok {
				probs = append(probs, "the job configuration given to the translation at "+p.Rel(call.Pos())+" is "+short(fi.T(call.Call.Args[1]).S)+", not the entry of the current configuration map")
				continue
			}
			if _, ok := loadOfField(lk.X, fCfg); !ok {
				probs = append(probs, "the job configuration at "+p.Rel(call.Pos())+" is not looked up in the manager's current configuration")
			}
		}
		// every slice of targets that is ranged over to fill the published lists is the direct result of such a call
		elemT := ""
		for _, in := range allInstrs(fn) {
			rg, ok := in.(*ssa.Range)
			_ = rg
			_ = ok
		}
		_ = elemT
		for _, in := range allInstrs(fn) {
			// index loops over a []*SDTargets: &ts[i]
			ia, ok := in.(*ssa.IndexAddr)
			if !ok || !strings.HasSuffix(ia.X.Type().String(), "[]*tkestack.io/kvass/pkg/discovery.SDTargets") {
				continue
			}
			src := ia.X
			fresh := false
			if ex, ok := src.(*ssa.Extract); ok && ex.Index == 0 {
				for _, c := range trCalls {
					if ex.Tuple == ssa.Value(c) {
						fresh = true
					}
				}
			}
			if !fresh {
				probs = append(probs, "targets read from "+short(fi.T(src).S)+" at "+p.Rel(ia.Pos())+" are not the result of a translation made in this update (a kept translation carries the scheme, path, parameters and relabeling of the configuration it was made under)")
			}
		}
		r.Check(len(probs) == 0, "R2.7-fresh-translation", "translation in "+engine.FuncName(fn), engine.FuncName(fn)+" ("+p.Rel(fn.Pos())+")",
			"published targets are translated in this update under the current job configuration", strings.Join(uniqStrings(probs), "; "))
	}
	if n == 0 {
		r.Add("R2.7-fresh-translation", "translation", pkgDisc, "a method that translates target groups and updates the active targets", "none found", engine.Undecided)
	}
}

// checkParamFilter is R2.8: the labels that populateLabels derives from the job's params are removed again before a
// target is shipped (the shard's Prometheus adds them itself from the generated job). Whatever way the names are
// matched (a list or set of "__param_"+key, a lookup by the name without its prefix), a label name must not be
// mangled on the way: cut-set trimming (strings.Trim/TrimLeft/TrimRight with the prefix as the set of characters) or
// replacing inside a name drops labels the job does not define or keeps ones it does. Where the pinned idiom is used
// (names searched in a list), the list must hold exactly "__param_"+key for the keys of the params.
func checkParamFilter(p *engine.Prog, r *engine.Report) {
	var probs, how []string
	nFn := 0
	for _, fn := range p.Funcs {
		if !engine.InPkg(fn, pkgDisc) {
			continue
		}
		nFn++
		fi := p.Info(fn)
		isKey := func(t string) bool {
			for _, in := range allInstrs(fn) {
				if rg, ok := in.(*ssa.Range); ok && rg.X.Type().String() == "net/url.Values" && t == `("__param_" + rk:`+rg.Name()+`)` {
					return true
				}
			}
			return false
		}
		for _, in := range allInstrs(fn) {
			call, ok := in.(*ssa.Call)
			if !ok || call.Call.StaticCallee() == nil {
				continue
			}
			callee := call.Call.StaticCallee()
			if callee.Pkg != nil && callee.Pkg.Pkg.Path() == "strings" {
				switch callee.Name() {
				case "Trim", "TrimLeft", "TrimRight", "TrimFunc", "TrimLeftFunc", "TrimRightFunc", "Replace", "ReplaceAll":
					args := ""
					for _, a := range call.Call.Args {
						args += fi.T(a).S + " "
					}
					if strings.Contains(args, ".Name") && strings.Contains(args, `"__param_"`) {
						probs = append(probs, "a label name is passed through strings."+callee.Name()+" with the param prefix in "+engine.FuncName(fn)+" ("+p.Rel(call.Pos())+"): that is not the removal of exactly the prefix")
					}
				}
			}
			if callee.Name() == "FindString" && len(call.Call.Args) == 2 && strings.HasSuffix(fi.T(call.Call.Args[0]).S, ".Name") {
				elems := collectedElems(call.Call.Args[1])
				for _, e := range elems {
					if strings.Contains(fi.T(e).S, `"__param_"`) && !isKey(fi.T(e).S) {
						probs = append(probs, "the names searched in "+engine.FuncName(fn)+" are "+short(fi.T(e).S)+", not \"__param_\" + key for each key of the params")
					}
					if isKey(fi.T(e).S) {
						how = append(how, "full names searched in the list of \"__param_\"+key in "+engine.FuncName(fn))
					}
				}
			}
		}
	}
	r.Check(len(probs) == 0 && nFn > 0, "R2.8-param-labels", "matching label names against the job's params", fmt.Sprintf("%d functions of pkg/discovery", nFn), "label names are compared as they are, or with exactly the prefix __param_ removed", strings.Join(append(probs, how...), "; "))
}

// checkRequestURL is R2.9: the scraper requests exactly the URL it was given (the proxy rebuilt it from the routing
// parameters): no field of a url.URL is written in pkg/scrape. Dropping a "default" port, normalising the host or the
// path there makes the request differ from the one plain Prometheus sends for the same target.
func checkRequestURL(p *engine.Prog, r *engine.Report) {
	var probs []string
	n := 0
	for _, fn := range p.Funcs {
		if !engine.InPkg(fn, pkgScrape) {
			continue
		}
		n++
		for _, in := range allInstrs(fn) {
			st, ok := in.(*ssa.Store)
			if !ok {
				continue
			}
			fa, ok := st.Addr.(*ssa.FieldAddr)
			if !ok {
				continue
			}
			t := fa.X.Type()
			if pt, ok := t.Underlying().(*types.Pointer); ok {
				t = pt.Elem()
			}
			if t.String() != "net/url.URL" {
				continue
			}
			if al, ok := fa.X.(*ssa.Alloc); ok && strings.Contains(al.Comment, "complit") {
				continue // a URL value built from scratch (the proxy URL of a job)
			}
			probs = append(probs, "URL."+engine.FieldOf(fa).Name()+" is rewritten in "+engine.FuncName(fn)+" ("+p.Rel(st.Pos())+")")
		}
	}
	r.Check(len(probs) == 0 && n > 0, "R2.9-request-url", "writes to url.URL fields in pkg/scrape", fmt.Sprintf("%d functions of pkg/scrape", n), "none: the target is requested at the URL the proxy rebuilt", strings.Join(probs, "; "))
}
