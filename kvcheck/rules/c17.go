package rules

import (
	"fmt"
	"go/token"
	"go/types"
	"strings"

	"golang.org/x/tools/go/ssa"

	"kvcheck/engine"
)

func init() {
	register(&Rule{ID: "C17", Run: runC17, Controls: controlsC17,
		Explanation: "Interleavings themselves cannot be enumerated statically; decided are the conditions under which no interleaving can expose a gap: " +
			"R17.1 lock discipline: every read and write of TargetsDiscovery.{config,activeTargets,dropTargets} and of Explore.targets / exploringTarget.exploring, and every use (lookup, update, delete, range, len) of the maps loaded from them, happens with the owning mutex held (constructors on fresh objects exempt); " +
			"R17.2 snapshots: exported getters return a map made in the call and filled under the lock; slices published in the guarded maps are only ever fresh slices or unmodified entries moved from the previous map (never a re-slice or in-place append of a published slice); " +
			"R17.3 reload: ApplyConfig builds new maps that receive, for each job of the new configuration, the old entry under the same key - only for jobs that had one, since a key means the job had a discovery round -, and installs them (and the new config) in the same critical section; the explorer's ApplyConfig keeps exactly the entries whose job still exists; " +
			"R17.4 per-job replacement: a discovery update installs one freshly built slice per job of the update (not carried across jobs) for every job of the update that has a configuration; the explorer's table is replaced as a whole, on every update, by a fresh map keyed by the hashes of the latest update only; R17.5 every translated target with (discovered) labels is listed - no further filter between translation and the per-job lists; R17.6 the result of every translation is handed to the consumer by a blocking send on the notification channel (no select with a way around it).",
		Assumptions: []string{"go/types and go/ssa are correct", "lock identity is by mutex field, not by instance"}})
}

type guardedField struct {
	f    *types.Var
	lock string
}

func runC17(p *engine.Prog, r *engine.Report) {
	fCfg := p.Field(pkgDisc, "TargetsDiscovery", "config")
	fAct := p.Field(pkgDisc, "TargetsDiscovery", "activeTargets")
	fDrop := p.Field(pkgDisc, "TargetsDiscovery", "dropTargets")
	fETargets := p.Field(pkgExpl, "Explore", "targets")
	fExploring := p.Field(pkgExpl, "exploringTarget", "exploring")
	fShardTarget := p.Field(pkgDisc, "SDTargets", "ShardTarget")
	fHash := p.Field(pkgTarget, "Target", "Hash")
	mExplUpdate := p.Method(pkgExpl, "Explore", "UpdateTargets")
	mExplApply := p.Method(pkgExpl, "Explore", "ApplyConfig")
	mDiscApply := p.Method(pkgDisc, "TargetsDiscovery", "ApplyConfig")
	if len(p.Problems) > 0 {
		return
	}
	dLock := "tkestack.io/kvass/pkg/discovery.TargetsDiscovery.targetsLock"
	eLock := "tkestack.io/kvass/pkg/explore.Explore.targetsLock"
	guarded := []guardedField{{fCfg, dLock}, {fAct, dLock}, {fDrop, dLock}, {fETargets, eLock}, {fExploring, eLock}}
	r.Min("R17.1-lock-discipline", 12)
	r.Min("R17.2-snapshots", 4)
	r.Min("R17.3-reload", 2)
	r.Min("R17.4-per-job-replacement", 3)

	// ---- R17.1
	perFn := map[string]int{}
	for _, fn := range p.Funcs {
		if !engine.InPkg(fn, pkgDisc) && !engine.InPkg(fn, pkgExpl) {
			continue
		}
		for _, in := range allInstrs(fn) {
			fa, ok := in.(*ssa.FieldAddr)
			if !ok {
				continue
			}
			var g *guardedField
			for i := range guarded {
				if engine.FieldOf(fa) == guarded[i].f {
					g = &guarded[i]
				}
			}
			if g == nil {
				continue
			}
			if al, isAlloc := fa.X.(*ssa.Alloc); isAlloc && al.Heap {
				continue // constructor literal: the object is not shared yet
			}
			// every memory access through this address, and every use of a map loaded from it
			var uses []ssa.Instruction
			for _, rr := range *fa.Referrers() {
				switch rr := rr.(type) {
				case *ssa.Store:
					uses = append(uses, rr)
				case *ssa.UnOp:
					uses = append(uses, rr)
					if refs := rr.Referrers(); refs != nil {
						for _, r2 := range *refs {
							switch r2 := r2.(type) {
							case *ssa.Lookup, *ssa.MapUpdate:
								uses = append(uses, r2)
							case *ssa.Range:
								uses = append(uses, r2)
								for _, r3 := range *r2.Referrers() {
									if nx, ok := r3.(*ssa.Next); ok {
										uses = append(uses, nx)
									}
								}
							case *ssa.Call:
								if bi, ok := r2.Call.Value.(*ssa.Builtin); ok && (bi.Name() == "len" || bi.Name() == "delete") {
									uses = append(uses, r2)
								}
							}
						}
					}
				}
			}
			for _, u := range uses {
				held := p.HeldAt(u)
				kind := fmt.Sprintf("%T", u)
				kind = strings.TrimPrefix(kind, "*ssa.")
				base := fmt.Sprintf("%s of %s in %s", kind, g.f.Name(), engine.FuncName(fn))
				perFn[base]++
				r.Check(held[g.lock], "R17.1-lock-discipline", fmt.Sprintf("%s #%d", base, perFn[base]), kind+" on "+g.f.Name()+" at "+engine.FuncName(fn)+" ("+p.Rel(u.Pos())+")",
					"mutex "+g.lock[strings.LastIndex(g.lock, "/")+1:]+" held", "held: "+strings.Join(held.Names(), ","))
			}
		}
	}

	// ---- R17.2 getters
	isGuardedMapField := func(f *types.Var) bool { return f == fAct || f == fDrop || f == fETargets || f == fCfg }
	for _, fn := range p.Funcs {
		if !engine.InPkg(fn, pkgDisc) || fn.Parent() != nil {
			continue
		}
		o, ok := fn.Object().(*types.Func)
		if !ok || !o.Exported() || fn.Signature.Recv() == nil || fn.Signature.Results().Len() != 1 {
			continue
		}
		if _, isMap := fn.Signature.Results().At(0).Type().Underlying().(*types.Map); !isMap {
			continue
		}
		var probs []string
		for _, ret := range returnsOf(fn) {
			v := returnedValue(ret, 0)
			mm, ok := v.(*ssa.MakeMap)
			if !ok {
				probs = append(probs, "returns "+p.Info(fn).T(v).S+", not a map made in the call (callers would share the live table)")
				continue
			}
			for _, rr := range *mm.Referrers() {
				if mu, ok := rr.(*ssa.MapUpdate); ok && mu.Map == ssa.Value(mm) {
					if !p.HeldAt(mu)[dLock] {
						probs = append(probs, "the snapshot is filled outside the lock")
					}
				}
			}
		}
		r.Check(len(probs) == 0, "R17.2-snapshots", "getter "+engine.FuncName(fn), engine.FuncName(fn)+" ("+p.Rel(fn.Pos())+")", "returns a fresh map filled under the lock", strings.Join(probs, "; "))
	}
	// published slices: values stored into the guarded maps
	var fresh func(fn *ssa.Function, v ssa.Value, depth int) (bool, string)
	fresh = func(fn *ssa.Function, v ssa.Value, depth int) (bool, string) {
		fi := p.Info(fn)
		if depth > 6 {
			return false, "provenance too deep"
		}
		if rootedInFreshSlice(v, map[ssa.Value]bool{}) {
			return true, "fresh slice"
		}
		switch x := v.(type) {
		case *ssa.Extract: // value of a comma-ok lookup; range value over a local map of fresh slices
			if lk := asLookup(x); lk != nil {
				return fresh(fn, lk, depth+1)
			}
			if nx, ok := x.Tuple.(*ssa.Next); ok && x.Index == 2 {
				if rg, ok := nx.Iter.(*ssa.Range); ok {
					if mm, ok := rg.X.(*ssa.MakeMap); ok {
						for _, rr := range *mm.Referrers() {
							if mu, ok := rr.(*ssa.MapUpdate); ok && mu.Map == ssa.Value(mm) {
								if ok, why := fresh(fn, mu.Value, depth+1); !ok {
									return false, why
								}
							}
						}
						return true, "entries of a local map of fresh slices"
					}
				}
			}
		case *ssa.Lookup: // unmodified entry of the previous published map
			if u, ok := x.X.(*ssa.UnOp); ok {
				if fa, ok := u.X.(*ssa.FieldAddr); ok && isGuardedMapField(engine.FieldOf(fa)) {
					return true, "entry moved from the previous map"
				}
			}
		case *ssa.Phi:
			for _, e := range x.Edges {
				if ok, why := fresh(fn, e, depth+1); !ok {
					return false, why
				}
			}
			return true, "phi of fresh slices"
		case *ssa.Slice:
			return false, "re-slice of " + fi.T(x.X).S + " (shares the backing array of a published slice)"
		case *ssa.Call:
			if bi, ok := x.Call.Value.(*ssa.Builtin); ok && bi.Name() == "append" {
				return fresh(fn, x.Call.Args[0], depth+1)
			}
		}
		return false, "value " + fi.T(v).S + " is not a fresh slice"
	}
	nPub := 0
	for _, fn := range p.Funcs {
		if !engine.InPkg(fn, pkgDisc) {
			continue
		}
		for _, in := range allInstrs(fn) {
			switch x := in.(type) {
			case *ssa.MapUpdate:
				// direct update of a published map, or of a map later installed into a guarded field
				target := ""
				if u, ok := x.Map.(*ssa.UnOp); ok {
					if fa, ok := u.X.(*ssa.FieldAddr); ok && (engine.FieldOf(fa) == fAct || engine.FieldOf(fa) == fDrop) {
						target = engine.FieldOf(fa).Name()
					}
				}
				if mm, ok := x.Map.(*ssa.MakeMap); ok {
					for _, rr := range *mm.Referrers() {
						if st, ok := rr.(*ssa.Store); ok && st.Val == ssa.Value(mm) {
							if fa, ok := st.Addr.(*ssa.FieldAddr); ok && (engine.FieldOf(fa) == fAct || engine.FieldOf(fa) == fDrop) {
								target = engine.FieldOf(fa).Name() + " (new map)"
							}
						}
					}
				}
				if target == "" {
					continue
				}
				nPub++
				ok, why := fresh(fn, x.Value, 0)
				r.Check(ok, "R17.2-snapshots", fmt.Sprintf("published slice#%d in %s", nPub, engine.FuncName(fn)), "slice stored into "+target+" at "+engine.FuncName(fn)+" ("+p.Rel(x.Pos())+")",
					"a freshly built slice or an unmodified entry of the previous map (readers keep earlier snapshots)", why)
			case *ssa.Store:
				// element store into a published slice
				if ia, ok := x.Addr.(*ssa.IndexAddr); ok {
					if lk, ok := ia.X.(*ssa.Lookup); ok {
						if u, ok := lk.X.(*ssa.UnOp); ok {
							if fa, ok := u.X.(*ssa.FieldAddr); ok && (engine.FieldOf(fa) == fAct || engine.FieldOf(fa) == fDrop) {
								nPub++
								r.Add("R17.2-snapshots", fmt.Sprintf("in-place write#%d in %s", nPub, engine.FuncName(fn)), "element store into a published slice at "+p.Rel(x.Pos()), "published slices are never written in place", "store into "+p.Info(fn).T(ia).S, engine.Violated)
							}
						}
					}
				}
			}
		}
	}

	// ---- R17.3 reload
	if ap := p.SSAFunc(mDiscApply); ap != nil {
		fi := p.Info(ap)
		var probs []string
		installed := map[*types.Var]*ssa.MakeMap{}
		for _, in := range allInstrs(ap) {
			if st, ok := in.(*ssa.Store); ok {
				if fa, ok := st.Addr.(*ssa.FieldAddr); ok {
					f := engine.FieldOf(fa)
					if f == fCfg || f == fAct || f == fDrop {
						mm, ok := st.Val.(*ssa.MakeMap)
						if !ok {
							probs = append(probs, f.Name()+" is set to "+fi.T(st.Val).S+", not a map built from the new configuration")
							continue
						}
						installed[f] = mm
						if !p.HeldAt(st)[dLock] {
							probs = append(probs, f.Name()+" is installed outside the lock")
						}
					}
				}
			}
		}
		for _, f := range []*types.Var{fCfg, fAct, fDrop} {
			if installed[f] == nil {
				probs = append(probs, f.Name()+" is not replaced on reload")
			}
		}
		// lock held continuously: one Lock call, released only by defer
		nLock, nUnlock := 0, 0
		for _, in := range allInstrs(ap) {
			if call, ok := in.(*ssa.Call); ok && engine.CalleeIs(call.Common(), "sync", "Mutex", "Lock") {
				nLock++
			}
			if call, ok := in.(*ssa.Call); ok && engine.CalleeIs(call.Common(), "sync", "Mutex", "Unlock") {
				nUnlock++
			}
		}
		if nLock != 1 || nUnlock != 0 {
			probs = append(probs, fmt.Sprintf("the reload is not one critical section (%d Lock, %d explicit Unlock)", nLock, nUnlock))
		}
		// kept entries: new[k] = old[k] for the same key, for both maps
		for _, f := range []*types.Var{fAct, fDrop} {
			mm := installed[f]
			if mm == nil {
				continue
			}
			kept := false
			for _, rr := range *mm.Referrers() {
				mu, ok := rr.(*ssa.MapUpdate)
				if !ok || mu.Map != ssa.Value(mm) {
					continue
				}
				lk := asLookup(mu.Value)
				if lk == nil {
					probs = append(probs, "new "+f.Name()+" receives "+fi.T(mu.Value).S+" instead of the old entry")
					continue
				}
				if _, ok := loadOfField(lk.X, f); !ok || fi.T(lk.Index).S != fi.T(mu.Key).S {
					probs = append(probs, "new "+f.Name()+"["+fi.T(mu.Key).S+"] is not the old entry under the same key ("+fi.T(lk).S+")")
					continue
				}
				// key = name of a job of the new configuration
				if !strings.Contains(fi.T(mu.Key).S, "ScrapeConfigs[") || !strings.HasSuffix(strings.Split(fi.T(mu.Key).S, "@")[0], ".JobName") {
					probs = append(probs, "entries are kept for key "+fi.T(mu.Key).S+", not for the jobs of the new configuration")
				}
				// only condition: the job had an entry
				for _, g := range extraGuardsExcept(fi, mu.Block(), []string{"has(", "eq(nil,", ",nil)"}) {
					probs = append(probs, "an old entry is kept only under the extra condition "+g)
				}
				// the job must have had an entry: a key in the tables means "this job had a discovery round" (the start-up
				// wait looks at nothing else), so a reload must not create keys for jobs that are new
				{
					guarded := false
					for _, g := range fi.Guards(mu.Block()) {
						if strings.HasPrefix(g, "has(") && strings.Contains(g, "."+fAct.Name()) {
							guarded = true
						}
						if strings.HasPrefix(g, "¬eq(") && strings.Contains(g, "nil") && strings.Contains(g, "."+fAct.Name()) {
							guarded = true
						}
					}
					if !guarded {
						probs = append(probs, "new "+f.Name()+" gets a key for every job of the new configuration, also for jobs that had no entry (a key means the job had its first discovery round: start-up would stop waiting for it)")
					}
				}
				// ... and the other way round: whenever the job had an entry it is kept (decided over all branch
				// conditions of the loop body, so that alternatives like "unless its relabeling changed" are seen)
				if lp := loopOf(fi, mu.Block()); lp != nil {
					var bodyEntry *ssa.BasicBlock
					for _, sc := range lp.header.Succs {
						if lp.blocks[sc.Index] {
							bodyEntry = sc
						}
					}
					var had *engine.Formula
					for _, in := range allInstrs(ap) {
						lk2, ok := in.(*ssa.Lookup)
						if !ok || !lk2.CommaOk || fi.T(lk2.Index).S != fi.T(mu.Key).S {
							continue
						}
						if _, ok := loadOfField(lk2.X, fAct); ok {
							had = engine.A("has(" + ownBase(fi, lk2) + ")")
						}
					}
					if had != nil && bodyEntry != nil {
						if v := fi.ViewAll(had, bodyEntry); v == nil {
							probs = append(probs, "too many conditions in the reload loop to decide that every job with an entry keeps it")
						} else if !v.ImpliedBy(mu.Block(), had) {
							probs = append(probs, "a job of the new configuration that had an entry in "+f.Name()+" does not always keep it (there is a path through the loop body that skips the copy although the entry exists)")
						}
					}
				}
				kept = true
			}
			if !kept {
				probs = append(probs, "the new "+f.Name()+" map never receives old entries (targets of kept jobs would vanish until the next discovery update)")
			}
		}
		r.Check(len(probs) == 0, "R17.3-reload", "discovery reload "+engine.FuncName(ap), engine.FuncName(ap)+" ("+p.Rel(ap.Pos())+")",
			"one critical section installing config, active and dropped maps; each job of the new configuration keeps its old entries; other jobs are pruned", strings.Join(probs, "; "))
	}
	if ap := p.SSAFunc(mExplApply); ap != nil {
		fi := p.Info(ap)
		var probs []string
		var mm *ssa.MakeMap
		for _, in := range allInstrs(ap) {
			if st, ok := in.(*ssa.Store); ok {
				if fa, ok := st.Addr.(*ssa.FieldAddr); ok && engine.FieldOf(fa) == fETargets {
					mm, _ = st.Val.(*ssa.MakeMap)
					if mm == nil {
						probs = append(probs, "the table is set to "+fi.T(st.Val).S)
					}
				}
			}
		}
		if mm != nil {
			n := 0
			for _, rr := range *mm.Referrers() {
				mu, ok := rr.(*ssa.MapUpdate)
				if !ok || mu.Map != ssa.Value(mm) {
					continue
				}
				n++
				// value = range value of the old table under the same key
				if !(strings.HasPrefix(fi.T(mu.Value).S, fi.T(ap.Params[0]).S+"."+fETargets.Name()+"[") && strings.Contains(fi.T(mu.Value).S, fi.T(mu.Key).S)) {
					probs = append(probs, "a kept entry is "+fi.T(mu.Value).S+" under key "+fi.T(mu.Key).S)
				}
			}
			if n == 0 {
				probs = append(probs, "no entries are kept on reload")
			}
			// the decision to keep an entry depends on the entry's job and on the configuration being applied only,
			// not on other state of the explorer (which is reloaded separately and may lag or have skipped a job)
			recv := fi.T(ap.Params[0]).S
			table := recv + "." + fETargets.Name()
			for _, rr := range *mm.Referrers() {
				mu, ok := rr.(*ssa.MapUpdate)
				if !ok || mu.Map != ssa.Value(mm) {
					continue
				}
				lp := loopOf(fi, mu.Block())
				before := map[string]bool{}
				if lp != nil {
					for _, g := range fi.Guards(lp.header) {
						before[g] = true
					}
				}
				aboutJob := false
				for _, g := range fi.Guards(mu.Block()) {
					if before[g] || engine.IsStructuralLiteral(g) || strings.Contains(g, "rangeok:") {
						continue
					}
					rest := strings.ReplaceAll(g, table, "")
					if strings.Contains(rest, recv+".") {
						probs = append(probs, "whether an entry is kept depends on "+short(g)+" - state of the explorer other than the table itself - instead of the job list of the configuration being applied")
					}
					if strings.Contains(g, table+"[") {
						aboutJob = true
					}
				}
				if !aboutJob {
					probs = append(probs, "entries are kept without looking at the entry's job")
				}
			}
		}
		r.Check(len(probs) == 0, "R17.3-reload", "explorer reload "+engine.FuncName(ap), engine.FuncName(ap), "a new table holding the old entries (same key) of jobs that still exist", strings.Join(probs, "; "))
	}

	// ---- R17.5 every target translated from the update is listed: the only reasons for leaving one out are the ones the
	// translation itself gives (error of the group, no labels left). A further filter at this point (a second notion
	// of "duplicate", a cache hit) makes the published sets differ from the update.
	{
		r.Min("R17.5-all-listed", 1)
		n := 0
		for _, fn := range p.Funcs {
			if !engine.InPkg(fn, pkgDisc) {
				continue
			}
			fi := p.Info(fn)
			for _, in := range allInstrs(fn) {
				call, ok := in.(*ssa.Call)
				if !ok {
					continue
				}
				bi, ok := call.Call.Value.(*ssa.Builtin)
				if !ok || bi.Name() != "append" || !strings.HasSuffix(call.Type().String(), "discovery.SDTargets") {
					continue
				}
				fromTr := false
				for _, e := range varargElems(call.Call.Args[1]) {
					if strings.Contains(fi.T(e).S, "targetsFromGroup(") {
						fromTr = true
					}
				}
				if !fromTr {
					continue
				}
				n++
				var probs []string
				// (guards with helper predicates such as isActive(tar) looked through)
				for _, g := range nonStructural(fi.Deep().Guards(call.Block())) {
					switch {
					case strings.Contains(g, "targetsFromGroup(") && strings.Contains(g, ".1,nil)"):
					case strings.Contains(g, "Labels).Len(") || strings.Contains(g, "DiscoveredLabels("):
					case strings.Contains(g, "."+fCfg.Name()+"[") && strings.Contains(g, "nil"):
					case strings.Contains(g, "rangeok:"):
					default:
						probs = append(probs, "a translated target is listed only when "+short(g))
					}
				}
				r.Check(len(probs) == 0, "R17.5-all-listed", fmt.Sprintf("listing#%d in %s", n, engine.FuncName(fn)), "append at "+p.Rel(call.Pos()), "every translated target with (discovered) labels is listed; no further filter", strings.Join(probs, "; "))
			}
		}
	}

	// ---- R17.6 every translated update is handed to the consumer: a blocking send of the translation's result on the
	// notification channel (no select with a way around it: the update skipped would be the newest one)
	{
		r.Min("R17.6-update-sent", 1)
		fChan := p.Field(pkgDisc, "TargetsDiscovery", "activeTargetsChan")
		n := 0
		for _, fn := range p.Funcs {
			if !engine.InPkg(fn, pkgDisc) || fChan == nil {
				continue
			}
			for _, in := range allInstrs(fn) {
				call, ok := in.(*ssa.Call)
				if !ok || call.Call.StaticCallee() == nil || call.Call.StaticCallee().Name() != "translateTargets" {
					continue
				}
				n++
				var probs []string
				sent := false
				for _, rr := range *call.Referrers() {
					if sd, ok := rr.(*ssa.Send); ok && sd.X == ssa.Value(call) {
						if _, ok := loadOfField(sd.Chan, fChan); ok {
							sent = true
						}
					}
					if sel, ok := rr.(*ssa.Select); ok {
						for _, stt := range sel.States {
							if stt.Send == ssa.Value(call) && (len(sel.States) > 1 || !sel.Blocking) {
								probs = append(probs, "the update is offered in a select with another way out (at "+p.Rel(sel.Pos())+"): when that is taken the consumer never sees this update, and it may be the last one")
							}
						}
					}
				}
				if !sent && len(probs) == 0 {
					probs = append(probs, "the translated update is not sent on the notification channel by a blocking send")
				}
				r.Check(len(probs) == 0, "R17.6-update-sent", fmt.Sprintf("update#%d in %s", n, engine.FuncName(fn)), "translation at "+p.Rel(call.Pos()), "its result is sent to the consumer by a blocking send", strings.Join(probs, "; "))
			}
		}
	}

	// ---- R17.4
	// who may replace the tables as a whole: the constructor and the reload only; an update touches the keys of the
	// jobs it carries (the discovery manager's rounds need not contain every configured job)
	{
		var probs []string
		nStores := 0
		for _, fn := range p.Funcs {
			if !engine.InPkg(fn, pkgDisc) {
				continue
			}
			for _, in := range allInstrs(fn) {
				st, ok := in.(*ssa.Store)
				if !ok {
					continue
				}
				fa, ok := st.Addr.(*ssa.FieldAddr)
				if !ok || (engine.FieldOf(fa) != fAct && engine.FieldOf(fa) != fDrop) {
					continue
				}
				nStores++
				if _, fresh := fa.X.(*ssa.Alloc); fresh {
					continue
				}
				if obj, ok := fn.Object().(*types.Func); ok && obj == mDiscApply {
					continue
				}
				probs = append(probs, engine.FieldOf(fa).Name()+" is replaced as a whole in "+engine.FuncName(fn)+" ("+p.Rel(st.Pos())+"): jobs that the update does not carry lose their targets")
			}
		}
		r.Check(len(probs) == 0 && nStores > 0, "R17.4-per-job-replacement", "whole-table stores of the discovery tables", "who-may-write table of activeTargets/dropTargets", "only the constructor and the reload install a whole table; updates write per job", strings.Join(probs, "; "))
	}
	// discovery: per-job slices are rebuilt per job
	for _, fn := range p.Funcs {
		if !engine.InPkg(fn, pkgDisc) {
			continue
		}
		fi := p.Info(fn)
		// the function that installs into activeTargets: from a local map filled per job, or directly inside the loop
		// over the update's jobs
		var locals []*ssa.MakeMap
		var direct []*ssa.MapUpdate
		for _, in := range allInstrs(fn) {
			if mu, ok := in.(*ssa.MapUpdate); ok {
				if _, ok := loadOfField(mu.Map, fAct); ok {
					viaLocal := false
					if ex, ok := mu.Value.(*ssa.Extract); ok {
						if nx, ok := ex.Tuple.(*ssa.Next); ok {
							if rg, ok := nx.Iter.(*ssa.Range); ok {
								if mm, ok := rg.X.(*ssa.MakeMap); ok {
									viaLocal = true
									locals = append(locals, mm)
									if fi.T(mu.Key).S != "rk:"+rg.Name() {
										r.Add("R17.4-per-job-replacement", "install key in "+engine.FuncName(fn), p.Rel(mu.Pos()), "installed under the job's own key", fi.T(mu.Key).S, engine.Violated)
									}
								}
							}
						}
					}
					if !viaLocal {
						direct = append(direct, mu)
					}
				}
			}
		}
		// one stored per-job slice: built inside the iteration of its job and stored under that job
		perJob := func(mu *ssa.MapUpdate, probs *[]string) {
			jobLoop := loopOf(fi, mu.Block())
			if jobLoop == nil {
				*probs = append(*probs, "the per-job slice is not stored inside the loop over the update's jobs")
				return
			}
			// the slice must not be carried across iterations of the job loop
			var walk func(v ssa.Value, seen map[ssa.Value]bool)
			walk = func(v ssa.Value, seen map[ssa.Value]bool) {
				if seen[v] {
					return
				}
				seen[v] = true
				switch x := v.(type) {
				case *ssa.Phi:
					if x.Block() == jobLoop.header {
						*probs = append(*probs, "the slice is carried from one job to the next")
						return
					}
					for _, e := range x.Edges {
						walk(e, seen)
					}
				case *ssa.Call:
					if bi, ok := x.Call.Value.(*ssa.Builtin); ok && bi.Name() == "append" {
						walk(x.Call.Args[0], seen)
					}
				case *ssa.MakeSlice:
					if !jobLoop.blocks[x.Block().Index] {
						*probs = append(*probs, "the slice is allocated outside the per-job loop")
					}
				case *ssa.Slice:
					if al, ok := x.X.(*ssa.Alloc); ok && jobLoop.blocks[al.Block().Index] {
						return
					}
					*probs = append(*probs, "the slice is a re-slice of "+fi.T(x.X).S)
				case *ssa.Const:
				default:
					*probs = append(*probs, "the slice comes from "+fi.T(v).S)
				}
			}
			walk(mu.Value, map[ssa.Value]bool{})
			// every job of the update that has a configuration gets its slice installed: an iteration may only skip the
			// store for a job without configuration
			for _, pr := range jobLoop.header.Preds {
				if !fi.IsBackEdge(pr, jobLoop.header) || mu.Block().Dominates(pr) {
					continue
				}
				noCfg := false
				for _, g := range fi.Guards(pr) {
					if strings.HasPrefix(g, "eq(") && strings.Contains(g, "."+fCfg.Name()+"[") && strings.Contains(g, "nil") {
						noCfg = true
					}
				}
				if !noCfg {
					*probs = append(*probs, "a job of the update can be passed over without its targets being installed (only a job without configuration may be skipped): "+strings.Join(nonStructural(fi.Guards(pr)), " ∧ "))
				}
			}
			// keyed by the job being translated
			if !strings.HasPrefix(fi.T(mu.Key).S, "rk:") {
				*probs = append(*probs, "stored under "+fi.T(mu.Key).S+", not under the job of the update being translated")
			}
		}
		for _, mm := range locals {
			var probs []string
			for _, rr := range *mm.Referrers() {
				mu, ok := rr.(*ssa.MapUpdate)
				if !ok || mu.Map != ssa.Value(mm) {
					continue
				}
				perJob(mu, &probs)
			}
			r.Check(len(probs) == 0, "R17.4-per-job-replacement", "per-job slices in "+engine.FuncName(fn), engine.FuncName(fn), "one fresh slice per job of the update, built inside that job's iteration", strings.Join(probs, "; "))
		}
		if len(direct) > 0 && len(locals) == 0 {
			var probs []string
			for _, mu := range direct {
				perJob(mu, &probs)
			}
			r.Check(len(probs) == 0, "R17.4-per-job-replacement", "per-job slices in "+engine.FuncName(fn), engine.FuncName(fn), "one fresh slice per job of the update, built inside that job's iteration", strings.Join(probs, "; "))
		}
	}
	// explorer: whole replacement by a fresh table keyed by the update's hashes
	if up := p.SSAFunc(mExplUpdate); up != nil {
		fi := p.Info(up)
		var probs []string
		var mm *ssa.MakeMap
		nStore := 0
		for _, in := range allInstrs(up) {
			switch x := in.(type) {
			case *ssa.Store:
				if fa, ok := x.Addr.(*ssa.FieldAddr); ok && engine.FieldOf(fa) == fETargets {
					nStore++
					mm, _ = x.Val.(*ssa.MakeMap)
					if mm == nil {
						probs = append(probs, "the table is set to "+fi.T(x.Val).S+", not a fresh map")
					}
				}
			case *ssa.MapUpdate:
				if _, ok := loadOfField(x.Map, fETargets); ok {
					probs = append(probs, "the live table is updated in place at "+p.Rel(x.Pos())+" (targets missing from the update would stay)")
				}
			case *ssa.Call:
				if bi, ok := x.Call.Value.(*ssa.Builtin); ok && bi.Name() == "delete" {
					if _, ok := loadOfField(x.Call.Args[0], fETargets); ok {
						probs = append(probs, "entries are deleted from the live table selectively at "+p.Rel(x.Pos()))
					}
				}
			}
		}
		if nStore != 1 {
			probs = append(probs, fmt.Sprintf("%d stores to Explore.targets (want one whole-table replacement)", nStore))
		}
		// the replacement happens for every update: no return before it ("nothing changed" shortcuts compare counts or
		// hashes and leave vanished targets tracked)
		if nStore == 1 {
			replaced := fi.MustPass(nil, nil, func(in ssa.Instruction) bool {
				st, ok := in.(*ssa.Store)
				if !ok {
					return false
				}
				fa, ok := st.Addr.(*ssa.FieldAddr)
				return ok && engine.FieldOf(fa) == fETargets
			})
			if !replaced {
				probs = append(probs, "an update can return without replacing the table")
			}
		}
		if mm != nil {
			n := 0
			for _, rr := range *mm.Referrers() {
				mu, ok := rr.(*ssa.MapUpdate)
				if !ok || mu.Map != ssa.Value(mm) {
					continue
				}
				n++
				// key: Hash of ShardTarget of an element of the update parameter
				okKey := false
				if tgt, ok := loadOfField(mu.Key, fHash); ok {
					if sd, ok := loadOfField(tgt, fShardTarget); ok {
						if strings.HasPrefix(fi.T(sd).S, fi.T(up.Params[1]).S+"[") {
							okKey = true
						}
					}
				}
				if !okKey {
					probs = append(probs, "a table entry is keyed by "+fi.T(mu.Key).S+", not by the hash of a target of the update")
				}
			}
			if n == 0 {
				probs = append(probs, "the new table is never filled")
			}
		}
		r.Check(len(probs) == 0, "R17.4-per-job-replacement", "explorer table in "+engine.FuncName(up), engine.FuncName(up), "replaced as a whole by a fresh map keyed by the hashes of the latest update", strings.Join(probs, "; "))
	}
	_ = token.MUL
}

func controlsC17(p *engine.Prog) []Control { return nil }

// asLookup: v is a map lookup, or the value of a comma-ok map lookup.
func asLookup(v ssa.Value) *ssa.Lookup {
	switch x := v.(type) {
	case *ssa.Lookup:
		if !x.CommaOk {
			return x
		}
	case *ssa.Extract:
		if lk, ok := x.Tuple.(*ssa.Lookup); ok && lk.CommaOk && x.Index == 0 {
			return lk
		}
	}
	return nil
}
