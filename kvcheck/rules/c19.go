package rules

import (
	"fmt"
	"go/ast"
	"go/token"
	"go/types"
	"strings"

	"golang.org/x/tools/go/ssa"

	"kvcheck/engine"
)

func init() {
	register(&Rule{ID: "C19", Run: runC19, Controls: controlsC19,
		Explanation: "Structural necessary conditions of 'replicas are coordinated independently and fail independently', decided on the cycle function and everything it reaches inside pkg/coordinator: " +
			"R19.1 failure isolation: no return or panic inside the replica loop, and no method call on an interface value that is nil on every path to the call (in the loop body and in everything it reaches in the package); " +
			"R19.2 no loop-carried planning state: the loop header's phis are the range index and the merged status view only, and nothing reachable from the loop body writes a Coordinator field, a map reached through one, or a package variable (metrics objects excepted); " +
			"R19.3 the merged view is write-only within the cycle: the Coordinator field holding it is read by no function reachable from the cycle, and the local accumulator flows only into the merge call and the final store; " +
			"R19.4 every scale request and shard listing of an iteration is addressed to that iteration's own replica manager, in the iteration itself (not from a goroutine that outlives it). " +
			"R19.1 also: a mutex taken inside the replica loop is released on every path before the same acquisition is reached again; R19.3 also: what the merge installs in the merged view is a copy, never the pointer found in the replica's view (which belongs to the explorer or to a shard's report and would be overwritten in place). " +
			"R19.1 also: the replica loop is not left by a break. " +
			"Not decided: sharing through the explorer's long-lived status objects that are placed into plans by pointer (a value argument).",
		Assumptions: []string{"go/types and go/ssa are correct (go.mod's language version decides loop-variable semantics)", "calls through injected function fields do not touch other replicas' state"}})
}

// reachableInPkg returns the functions of pkg/coordinator reachable from root through static calls,
// closures created and functions referenced as values.
func reachableInPkg(c *coord, root *ssa.Function) map[*ssa.Function]bool {
	seen := map[*ssa.Function]bool{}
	var walk func(f *ssa.Function)
	walk = func(f *ssa.Function) {
		if f == nil || seen[f] || f.Blocks == nil || !engine.InPkg(f, pkgCoord) {
			return
		}
		seen[f] = true
		for _, in := range allInstrs(f) {
			for _, op := range in.Operands(nil) {
				if fn, ok := (*op).(*ssa.Function); ok {
					walk(fn)
				}
				if mc, ok := (*op).(*ssa.MakeClosure); ok {
					if fn, ok := mc.Fn.(*ssa.Function); ok {
						walk(fn)
					}
				}
			}
			if mc, ok := in.(*ssa.MakeClosure); ok {
				if fn, ok := mc.Fn.(*ssa.Function); ok {
					walk(fn)
				}
			}
			if ci, ok := in.(ssa.CallInstruction); ok {
				walk(ci.Common().StaticCallee())
			}
		}
	}
	walk(root)
	return seen
}

func runC19(p *engine.Prog, r *engine.Report) {
	c := newCoord(p)
	mReplicas := p.Method(pkgShard, "ReplicasManager", "Replicas")
	coordT := p.Named(pkgCoord, "Coordinator")
	fMerged := p.Field(pkgCoord, "Coordinator", "lastGlobalScrapeStatus")
	if len(p.Problems) > 0 {
		return
	}
	r.Min("R19.1-failure-isolation", 1)
	r.Min("R19.2-no-carried-state", 2)
	r.Min("R19.3-merged-view-write-only", 2)
	r.Min("R19.4-own-replica", 2)
	for _, fn := range c.funcs {
		if fn.Parent() != nil || len(callsIn(fn, mReplicas)) == 0 || len(callsIn(fn, c.mShards)) == 0 {
			continue
		}
		{
			// the cycle: ChangeScale is reachable from it (possibly from a closure it creates)
			has := false
			for f := range reachableInPkg(c, fn) {
				if len(callsIn(f, c.mChangeScale)) > 0 {
					has = true
				}
			}
			if !has {
				continue
			}
		}
		fi := p.Info(fn)
		ck := "cycle " + engine.FuncName(fn)
		sh := callsIn(fn, c.mShards)
		if len(sh) != 1 {
			r.Add("R19.1-failure-isolation", ck, engine.FuncName(fn), "exactly one Shards() call marks the replica loop", fmt.Sprintf("%d", len(sh)), engine.Undecided)
			continue
		}
		loop := loopOf(fi, sh[0].Block())
		if loop == nil {
			r.Add("R19.1-failure-isolation", ck, engine.FuncName(fn), "Shards() is called inside a loop over the replicas", "no loop", engine.Undecided)
			continue
		}
		// R19.1
		var probs []string
		// an exit taken from inside an iteration is dominated by the loop body's entry (it is not part
		// of the natural loop, which only contains blocks that reach the back edge)
		var bodyEntry *ssa.BasicBlock
		for _, sc := range loop.header.Succs {
			if loop.blocks[sc.Index] {
				bodyEntry = sc
			}
		}
		for _, b := range fn.Blocks {
			if b == fn.Recover || bodyEntry == nil || !(bodyEntry == b || bodyEntry.Dominates(b)) {
				continue
			}
			switch last := b.Instrs[len(b.Instrs)-1].(type) {
			case *ssa.Return:
				probs = append(probs, "return inside the replica loop at "+p.Rel(last.Pos()))
			case *ssa.Panic:
				probs = append(probs, "panic inside the replica loop at "+p.Rel(last.Pos()))
			}
		}
		// nor by a break: the block after the loop is entered from the header only
		for _, sc := range loop.header.Succs {
			if loop.blocks[sc.Index] {
				continue
			}
			for _, pb := range sc.Preds {
				if pb != loop.header && bodyEntry != nil && (bodyEntry == pb || bodyEntry.Dominates(pb)) {
					last := pb.Instrs[len(pb.Instrs)-1]
					probs = append(probs, "the replica loop is left from inside an iteration (break) near "+p.Rel(last.Pos())+": the replicas after this one are not coordinated in the cycle")
				}
			}
		}
		// a method call on an interface value that is nil on every path to it panics just the same
		for f := range reachableInPkg(c, fn) {
			ffi := p.Info(f)
			for _, in := range allInstrs(f) {
				ci, ok := in.(ssa.CallInstruction)
				if !ok || !ci.Common().IsInvoke() {
					continue
				}
				if f == fn && !(bodyEntry != nil && (bodyEntry == in.Block() || bodyEntry.Dominates(in.Block()))) {
					continue
				}
				t := ffi.T(ci.Common().Value).S
				if t == "nil" {
					probs = append(probs, "method call on a nil interface at "+p.Rel(in.Pos()))
					continue
				}
				if !strings.Contains(strings.Join(ffi.AllAtoms(), " "), t) {
					continue
				}
				if ok, _ := ffi.View(engine.EqAtom(t, "nil")).Implies(in.Block(), engine.EqAtom(t, "nil")); ok {
					probs = append(probs, "method call on "+short(t)+", which is nil on every path to "+p.Rel(in.Pos())+" (a panic inside the cycle ends it for every replica)")
				}
			}
		}
		// a mutex taken while a replica is handled is released before that replica's iteration ends, whichever way it
		// ends: a lock still held after a 'continue' blocks the next replica's iteration for ever
		for _, in := range allInstrs(fn) {
			lk, ok := in.(*ssa.Call)
			if !ok || !loop.blocks[lk.Block().Index] {
				continue
			}
			op, key := engine.LockOp(lk.Common())
			if op != 1 {
				continue
			}
			rel := func(x ssa.Instruction) bool {
				if c2, ok := x.(ssa.CallInstruction); ok {
					if _, isDefer := x.(*ssa.Defer); !isDefer {
						o2, k2 := engine.LockOp(c2.Common())
						return o2 == -1 && k2 == key
					}
				}
				return false
			}
			if !fi.MustPass(lk, lk, rel) {
				probs = append(probs, "the lock "+key+" taken at "+p.Rel(lk.Pos())+" can still be held when the next replica's iteration takes it again (an iteration ends without releasing it): every later replica blocks")
			}
		}
		r.Check(len(probs) == 0, "R19.1-failure-isolation", ck, "replica loop in "+engine.FuncName(fn), "a failing replica is skipped (continue); the loop is never left early", strings.Join(probs, "; "))

		// R19.2 header phis
		probs = nil
		var merged *ssa.Phi
		for _, in := range loop.header.Instrs {
			ph, ok := in.(*ssa.Phi)
			if !ok {
				continue
			}
			if strings.Contains(ph.Comment, "rangeindex") || isCounter(ph) {
				continue
			}
			if _, isMap := ph.Type().Underlying().(*types.Map); isMap && merged == nil {
				merged = ph
				continue
			}
			probs = append(probs, "value "+ph.Comment+" ("+fi.T(ph).S+") is carried from one replica iteration to the next")
		}
		// captured variables declared outside the loop and written inside it
		for _, in := range allInstrs(fn) {
			st, ok := in.(*ssa.Store)
			if !ok || !loop.blocks[st.Block().Index] {
				continue
			}
			if al, ok := st.Addr.(*ssa.Alloc); ok && !loop.blocks[al.Block().Index] {
				if al.Comment == "err" || strings.HasPrefix(al.Comment, "~r") {
					continue
				}
				// the range variable itself (pre-1.22 semantics) is written by the loop
				isRangeVar := false
				if ext, ok := st.Val.(*ssa.UnOp); ok {
					if _, ok := ext.X.(*ssa.IndexAddr); ok {
						isRangeVar = true
					}
				}
				if !isRangeVar && !bookkeepingCell(fn, al) {
					probs = append(probs, "variable "+al.Comment+" declared outside the loop is written inside it")
				}
			}
		}
		// variables declared outside the loop that are updated through a call inside it (pointer receiver or
		// argument) and also read inside it: the next replica sees what the previous one left
		for _, in := range allInstrs(fn) {
			al, ok := in.(*ssa.Alloc)
			if !ok || loop.blocks[al.Block().Index] || al.Comment == "err" || strings.HasPrefix(al.Comment, "~r") || al.Comment == "" {
				continue
			}
			var writers, readers []string
			var visit func(v ssa.Value, depth int)
			visit = func(v ssa.Value, depth int) {
				if depth > 3 || v.Referrers() == nil {
					return
				}
				for _, rr := range *v.Referrers() {
					if !loop.blocks[rr.Block().Index] {
						continue
					}
					switch rr := rr.(type) {
					case *ssa.FieldAddr:
						visit(rr, depth+1)
					case *ssa.IndexAddr:
						visit(rr, depth+1)
					case *ssa.Store:
						if rr.Addr == v && depth > 0 {
							writers = append(writers, "store at "+p.Rel(rr.Pos()))
						}
					case *ssa.UnOp:
						readers = append(readers, p.Rel(rr.Pos()))
					case ssa.CallInstruction:
						callee := rr.Common().StaticCallee()
						w := false
						for i, a := range rr.Common().Args {
							if a == v && (callee == nil || callee.Blocks == nil || writesThroughParam(callee, i, 0)) {
								w = true
							}
						}
						name := "a call"
						if callee != nil {
							name = engine.FuncName(callee)
						}
						if w {
							writers = append(writers, name+" at "+p.Rel(rr.Pos()))
						} else {
							readers = append(readers, name+" at "+p.Rel(rr.Pos()))
						}
					}
				}
			}
			visit(al, 0)
			if len(writers) > 0 && len(readers) > 0 {
				probs = append(probs, "variable "+al.Comment+" declared outside the loop is updated inside it ("+writers[0]+") and read inside it ("+readers[0]+")")
			}
		}
		r.Check(len(probs) == 0, "R19.2-no-carried-state", ck+": loop-carried values", "replica loop header in "+engine.FuncName(fn), "only the range index and the merged status view are carried across iterations", strings.Join(probs, "; "))

		// R19.2 writes to Coordinator state / package variables reachable from the body
		probs = nil
		reach := reachableInPkg(c, fn)
		nW := 0
		for f := range reach {
			ffi := p.Info(f)
			for _, in := range allInstrs(f) {
				switch in := in.(type) {
				case *ssa.Store:
					switch a := in.Addr.(type) {
					case *ssa.FieldAddr:
						if isPtrTo(a.X.Type(), coordT) {
							nW++
							if f == fn && !loop.blocks[in.Block().Index] && engine.FieldOf(a) == fMerged {
								continue // the publication after the loop
							}
							if bookkeepingField(reach, fn, engine.FieldOf(a)) {
								continue // a statistic: counted and published, never consulted
							}
							probs = append(probs, "Coordinator."+engine.FieldOf(a).Name()+" is written in "+engine.FuncName(f)+" ("+p.Rel(in.Pos())+")")
						}
					case *ssa.Global:
						probs = append(probs, "package variable "+a.Name()+" is written in "+engine.FuncName(f)+" ("+p.Rel(in.Pos())+")")
					}
				case *ssa.MapUpdate:
					if u, ok := in.Map.(*ssa.UnOp); ok {
						if fa, ok := u.X.(*ssa.FieldAddr); ok && isPtrTo(fa.X.Type(), coordT) {
							probs = append(probs, "map Coordinator."+engine.FieldOf(fa).Name()+" is updated in "+engine.FuncName(f)+" ("+p.Rel(in.Pos())+")")
						}
						if g, ok := u.X.(*ssa.Global); ok {
							probs = append(probs, "package map "+g.Name()+" is updated in "+engine.FuncName(f)+" ("+p.Rel(in.Pos())+")")
						}
					}
				}
				_ = ffi
			}
		}
		r.Check(len(probs) == 0, "R19.2-no-carried-state", ck+": coordinator state", fmt.Sprintf("%d functions reachable from the cycle", len(reach)),
			"no Coordinator field, map behind one, or package variable is written while coordinating (except publishing the merged view after the loop)", strings.Join(probs, "; "))

		// R19.3 merged view write-only
		probs = nil
		for f := range reach {
			for _, in := range allInstrs(f) {
				if u, ok := in.(*ssa.UnOp); ok && u.Op == token.MUL {
					if fa, ok := u.X.(*ssa.FieldAddr); ok && engine.FieldOf(fa) == fMerged {
						probs = append(probs, "the merged view of all replicas is read in "+engine.FuncName(f)+" ("+p.Rel(u.Pos())+")")
					}
				}
			}
		}
		r.Check(len(probs) == 0, "R19.3-merged-view-write-only", ck+": field", "Coordinator.lastGlobalScrapeStatus", "read by no function reachable from the cycle (only by the exported getter)", strings.Join(probs, "; "))
		probs = nil
		if merged == nil {
			probs = append(probs, "no merged-view accumulator found among the loop header phis")
		} else {
			for _, rr := range *merged.Referrers() {
				switch rr := rr.(type) {
				case *ssa.Call:
					callee := rr.Call.StaticCallee()
					if callee == nil || !engine.InPkg(callee, pkgCoord) || len(rr.Call.Args) != 2 || rr.Call.Args[0] != ssa.Value(merged) {
						probs = append(probs, "the accumulator is passed to "+fi.T(rr).S)
						continue
					}
					// result must flow back into the accumulator
					back := false
					seen := map[ssa.Value]bool{}
					var flows func(v ssa.Value)
					flows = func(v ssa.Value) {
						if seen[v] {
							return
						}
						seen[v] = true
						if v == ssa.Value(rr) {
							back = true
						}
						// a loop with a post statement joins the iteration's exits before the header
						if ph, ok := v.(*ssa.Phi); ok && ph != merged && loop.blocks[ph.Block().Index] {
							for _, e := range ph.Edges {
								flows(e)
							}
						}
					}
					for _, e := range merged.Edges {
						flows(e)
					}
					if !back {
						probs = append(probs, "the merge result is used for something else")
					}
					// the merged view owns its entries: what the merge installs is a copy, never the pointer found in
					// the replica's view (that one belongs to a shard's status or to the explorer, and the merge
					// overwrites entries in place when a later replica knows better)
					for _, in := range allInstrs(callee) {
						mu, ok := in.(*ssa.MapUpdate)
						if !ok || mu.Map != ssa.Value(callee.Params[0]) {
							continue
						}
						if src := entryOfMap(mu.Value, callee.Params[1], map[ssa.Value]bool{}); src != nil {
							r.Add("R19.3-merged-view-write-only", ck+": owned entries in "+engine.FuncName(callee), "entry installed at "+p.Rel(mu.Pos()),
								"a copy of the replica's entry (the merged view is overwritten in place by later replicas)",
								"the replica's own entry is installed: overwriting it later changes the explorer's record or a shard's status that another replica reads", engine.Violated)
						} else {
							r.Add("R19.3-merged-view-write-only", ck+": owned entries in "+engine.FuncName(callee), "entry installed at "+p.Rel(mu.Pos()),
								"a copy of the replica's entry (the merged view is overwritten in place by later replicas)", "not the pointer found in the replica's view", engine.Discharged)
						}
					}
				case *ssa.Store:
					if fa, ok := rr.Addr.(*ssa.FieldAddr); !ok || engine.FieldOf(fa) != fMerged {
						probs = append(probs, "the accumulator is stored to "+fi.T(rr.Addr).S)
					}
				case *ssa.Phi, *ssa.DebugRef:
				default:
					probs = append(probs, "the accumulator is used by `"+rr.String()+"`")
				}
			}
		}
		r.Check(len(probs) == 0, "R19.3-merged-view-write-only", ck+": accumulator", "merged-view accumulator in "+engine.FuncName(fn), "flows only into the merge call (and back) and the final store", strings.Join(probs, "; "))

		// R19.4 own replica
		recvT := fi.T(recvOf(sh[0])).S
		nScale := 0
		for _, ci := range p.CallsTo(c.mChangeScale) {
			f := ci.Parent()
			if !reach[f] {
				continue
			}
			nScale++
			ck4 := fmt.Sprintf("%s: ChangeScale#%d", ck, nScale)
			var pr []string
			if f != fn {
				pr = append(pr, "the scale request is issued from "+engine.FuncName(f)+", not in the replica iteration itself")
			} else if !loop.blocks[ci.Block().Index] {
				pr = append(pr, "the scale request is outside the replica loop")
			}
			if got := p.Info(f).T(recvOf(ci)).S; got != recvT {
				pr = append(pr, "addressed to "+got+", while the iteration listed the shards of "+recvT)
			}
			r.Check(len(pr) == 0, "R19.4-own-replica", ck4, "scale request at "+c.at(ci), "ChangeScale is called on the manager whose Shards() were listed in this iteration, inside the iteration", strings.Join(pr, "; "))
		}
		if nScale == 0 {
			r.Add("R19.4-own-replica", ck+": ChangeScale", engine.FuncName(fn), "a scale request reachable from the cycle", "none", engine.Undecided)
		}
		// the iteration's manager is the loop element
		elemOK := false
		if u, ok := recvOf(sh[0]).(*ssa.UnOp); ok {
			if _, ok := u.X.(*ssa.IndexAddr); ok {
				elemOK = true
			}
			if al, ok := u.X.(*ssa.Alloc); ok && !loop.blocks[al.Block().Index] {
				elemOK = true // pre-1.22 range variable: one cell written per iteration
				_ = al
			}
		}
		r.Check(elemOK, "R19.4-own-replica", ck+": Shards receiver", "shard listing at "+c.at(sh[0]), "Shards() is called on the loop's current replica manager", "receiver "+recvT)
	}
}

func controlsC19(p *engine.Prog) []Control {
	// a failing replica ends the whole cycle: 'continue' in an error branch of the replica loop becomes 'return err' → R19.1
	c1 := astControl(p, pkgCoord, "replica error returns instead of continuing", "C19/R19.1", func(n ast.Node, src []byte, off func(token.Pos) int) (int, int, string, bool) {
		ifs, ok := n.(*ast.IfStmt)
		if !ok || ifs.Init == nil {
			return 0, 0, "", false
		}
		// if err := X.ChangeScale(...); err != nil { ...; continue }
		as, ok := ifs.Init.(*ast.AssignStmt)
		if !ok || len(as.Rhs) != 1 {
			return 0, 0, "", false
		}
		call, ok := as.Rhs[0].(*ast.CallExpr)
		if !ok {
			return 0, 0, "", false
		}
		sel, ok := call.Fun.(*ast.SelectorExpr)
		if !ok || sel.Sel.Name != "ChangeScale" {
			return 0, 0, "", false
		}
		for _, st := range ifs.Body.List {
			if br, ok := st.(*ast.BranchStmt); ok && br.Tok == token.CONTINUE {
				return off(br.Pos()), off(br.End()), "return err", true
			}
		}
		return 0, 0, "", false
	})
	// planning reads the merged view of all replicas → R19.3
	c2 := astControl(p, pkgCoord, "planning consults the merged view of all replicas", "C19/R19.3", func(n ast.Node, src []byte, off func(token.Pos) int) (int, int, string, bool) {
		call, ok := n.(*ast.CallExpr)
		if !ok {
			return 0, 0, "", false
		}
		sel, ok := call.Fun.(*ast.SelectorExpr)
		if !ok || sel.Sel.Name != "getExploreResult" || len(call.Args) != 1 {
			return 0, 0, "", false
		}
		recv := string(src[off(sel.X.Pos()):off(sel.X.End())])
		arg := string(src[off(call.Args[0].Pos()):off(call.Args[0].End())])
		return off(call.Pos()), off(call.End()), recv + ".lastGlobalScrapeStatus[" + arg + "]", true
	})
	return []Control{c1, c2}
}

// writesThroughParam: fn may store through its parameter idx (directly, through a field or element of
// what it points to, or by handing it to a function that does).
func writesThroughParam(fn *ssa.Function, idx int, depth int) bool {
	if fn == nil || fn.Blocks == nil {
		return true
	}
	if depth > 3 || idx >= len(fn.Params) {
		return true
	}
	var through func(v ssa.Value, d int) bool
	through = func(v ssa.Value, d int) bool {
		if d > 4 || v.Referrers() == nil {
			return false
		}
		for _, rr := range *v.Referrers() {
			switch rr := rr.(type) {
			case *ssa.FieldAddr:
				if through(rr, d+1) {
					return true
				}
			case *ssa.IndexAddr:
				if through(rr, d+1) {
					return true
				}
			case *ssa.Store:
				if rr.Addr == v {
					return true
				}
			case *ssa.MapUpdate:
				if rr.Map == v {
					return true
				}
			case ssa.CallInstruction:
				for i, a := range rr.Common().Args {
					if a == v && writesThroughParam(rr.Common().StaticCallee(), i, depth+1) {
						return true
					}
				}
			}
		}
		return false
	}
	return through(fn.Params[idx], 0)
}

// isCounter recognises a plain induction variable: a header phi of constants and of itself plus or minus a constant.
// It numbers the iterations and carries nothing an iteration produced.
func isCounter(ph *ssa.Phi) bool {
	if b, ok := ph.Type().Underlying().(*types.Basic); !ok || b.Info()&types.IsInteger == 0 {
		return false
	}
	step := false
	for _, e := range ph.Edges {
		switch x := e.(type) {
		case *ssa.Const:
		case *ssa.BinOp:
			if _, isC := x.Y.(*ssa.Const); !isC || x.X != ssa.Value(ph) || (x.Op != token.ADD && x.Op != token.SUB) {
				return false
			}
			step = true
		default:
			return false
		}
	}
	return step
}

// entryOfMap: v is (through phis) an element read out of map m: a range value or a lookup. Returns that read.
func entryOfMap(v, m ssa.Value, seen map[ssa.Value]bool) ssa.Value {
	if seen[v] {
		return nil
	}
	seen[v] = true
	switch x := v.(type) {
	case *ssa.Phi:
		for _, e := range x.Edges {
			if r := entryOfMap(e, m, seen); r != nil {
				return r
			}
		}
	case *ssa.Extract:
		switch t := x.Tuple.(type) {
		case *ssa.Next:
			if rg, ok := t.Iter.(*ssa.Range); ok && rg.X == m && x.Index == 2 {
				return x
			}
		case *ssa.Lookup:
			if t.X == m && x.Index == 0 {
				return x
			}
		}
	case *ssa.Lookup:
		if x.X == m {
			return x
		}
	}
	return nil
}

// Bookkeeping: a counter that the cycle only increments, resets and hands to a metric or a log line carries nothing
// from one replica to the next that planning could see.

// sinkOnly: every use of the value v (a number read from the counter) ends in the counter itself, in a metrics or
// logging call, or in a conversion leading there.
func sinkOnly(v ssa.Value, isSelf func(addr ssa.Value) bool, depth int) bool {
	if depth > 5 || v.Referrers() == nil {
		return false
	}
	for _, rr := range *v.Referrers() {
		switch x := rr.(type) {
		case *ssa.DebugRef:
		case *ssa.BinOp:
			if x.Op != token.ADD && x.Op != token.SUB {
				return false
			}
			if !sinkOnly(x, isSelf, depth+1) {
				return false
			}
		case *ssa.Convert:
			if !sinkOnly(x, isSelf, depth+1) {
				return false
			}
		case *ssa.MakeInterface:
			if !sinkOnly(x, isSelf, depth+1) {
				return false
			}
		case *ssa.Store:
			if x.Val != v {
				return false
			}
			if isSelf(x.Addr) {
				continue
			}
			// an element of a variadic argument list (log call)
			if ia, ok := x.Addr.(*ssa.IndexAddr); ok {
				if al, ok := ia.X.(*ssa.Alloc); ok && strings.Contains(al.Comment, "varargs") {
					okAll := true
					for _, r2 := range *al.Referrers() {
						if sl, ok := r2.(*ssa.Slice); ok && !sinkOnly(sl, isSelf, depth+1) {
							okAll = false
						}
					}
					if okAll {
						continue
					}
				}
			}
			return false
		case ssa.CallInstruction:
			if !isMetricOrLogCall(x.Common()) {
				return false
			}
		default:
			return false
		}
	}
	return true
}

func isMetricOrLogCall(c *ssa.CallCommon) bool {
	var pkg string
	if c.IsInvoke() {
		if c.Method.Pkg() != nil {
			pkg = c.Method.Pkg().Path()
		}
	} else if callee := c.StaticCallee(); callee != nil && callee.Pkg != nil {
		pkg = callee.Pkg.Pkg.Path()
	}
	return strings.HasPrefix(pkg, "github.com/prometheus/client_golang/") || strings.HasPrefix(pkg, "github.com/sirupsen/logrus")
}

// bookkeepingCell: the local variable (possibly captured by closures of fn) is only counted and published.
func bookkeepingCell(fn *ssa.Function, al *ssa.Alloc) bool {
	if b, ok := al.Type().Underlying().(*types.Pointer).Elem().Underlying().(*types.Basic); !ok || b.Info()&types.IsNumeric == 0 {
		return false
	}
	cells := []ssa.Value{al}
	// the same cell seen from closures
	var fns []*ssa.Function
	var collect func(f *ssa.Function)
	collect = func(f *ssa.Function) {
		fns = append(fns, f)
		for _, a := range f.AnonFuncs {
			collect(a)
		}
	}
	collect(fn)
	for _, f := range fns {
		for _, in := range allInstrs(f) {
			if mc, ok := in.(*ssa.MakeClosure); ok {
				cf := mc.Fn.(*ssa.Function)
				for i, b := range mc.Bindings {
					for _, c := range cells {
						if b == c && i < len(cf.FreeVars) {
							cells = append(cells, cf.FreeVars[i])
						}
					}
				}
			}
		}
	}
	isSelf := func(addr ssa.Value) bool {
		for _, c := range cells {
			if addr == c {
				return true
			}
		}
		return false
	}
	for _, c := range cells {
		if c.Referrers() == nil {
			continue
		}
		for _, rr := range *c.Referrers() {
			switch x := rr.(type) {
			case *ssa.Store:
				if x.Addr != c {
					return false // the address itself is stored somewhere
				}
				if _, isConst := x.Val.(*ssa.Const); !isConst {
					if bo, ok := x.Val.(*ssa.BinOp); !ok || (bo.Op != token.ADD && bo.Op != token.SUB) {
						return false
					}
				}
			case *ssa.UnOp:
				if !sinkOnly(x, isSelf, 0) {
					return false
				}
			case *ssa.MakeClosure, *ssa.DebugRef:
			default:
				return false
			}
		}
	}
	return true
}

// bookkeepingField: every access to the Coordinator field (or to the numeric fields of the struct it holds) in the
// functions reachable from the cycle, and in the cycle function itself, only counts and publishes.
func bookkeepingField(reach map[*ssa.Function]bool, cycle *ssa.Function, f *types.Var) bool {
	fns := map[*ssa.Function]bool{cycle: true}
	for g := range reach {
		fns[g] = true
	}
	numeric := func(t types.Type) bool {
		b, ok := t.Underlying().(*types.Basic)
		return ok && b.Info()&types.IsNumeric != 0
	}
	n := 0
	for g := range fns {
		for _, in := range allInstrs(g) {
			fa, ok := in.(*ssa.FieldAddr)
			if !ok || engine.FieldOf(fa) != f {
				continue
			}
			n++
			// addresses derived from the field: the field itself or numeric members of a struct held in it
			addrs := []ssa.Value{fa}
			if _, isStruct := f.Type().Underlying().(*types.Struct); isStruct {
				addrs = nil
				for _, rr := range *fa.Referrers() {
					switch x := rr.(type) {
					case *ssa.FieldAddr:
						if !numeric(engine.FieldOf(x).Type()) {
							return false
						}
						addrs = append(addrs, x)
					case *ssa.Store:
						// reset of the whole statistic to its zero value
						if x.Addr != ssa.Value(fa) {
							return false
						}
						if u, ok := x.Val.(*ssa.UnOp); ok {
							if al, ok := u.X.(*ssa.Alloc); ok && len(*al.Referrers()) == 1 {
								continue
							}
						}
						if c, ok := x.Val.(*ssa.Const); ok && c.Value == nil {
							continue
						}
						return false
					case *ssa.UnOp:
						// the statistic copied as a whole into a local (value receiver of a publishing helper)
						for _, r2 := range *x.Referrers() {
							st, ok := r2.(*ssa.Store)
							if !ok {
								if _, dbg := r2.(*ssa.DebugRef); dbg {
									continue
								}
								return false
							}
							loc, ok := st.Addr.(*ssa.Alloc)
							if !ok {
								return false
							}
							for _, r3 := range *loc.Referrers() {
								switch y := r3.(type) {
								case *ssa.Store, *ssa.DebugRef:
								case *ssa.FieldAddr:
									for _, r4 := range *y.Referrers() {
										ld, ok := r4.(*ssa.UnOp)
										if !ok || !sinkOnly(ld, func(ssa.Value) bool { return false }, 0) {
											return false
										}
									}
								case *ssa.UnOp:
									if len(*y.Referrers()) > 0 {
										return false
									}
								default:
									return false
								}
							}
						}
					case *ssa.DebugRef:
					default:
						return false
					}
				}
			} else if !numeric(f.Type()) {
				return false
			}
			for _, a := range addrs {
				isSelf := func(addr ssa.Value) bool {
					if fa2, ok := addr.(*ssa.FieldAddr); ok {
						if fa0, ok := a.(*ssa.FieldAddr); ok {
							return engine.FieldOf(fa2) == engine.FieldOf(fa0)
						}
					}
					return addr == a
				}
				for _, rr := range *a.Referrers() {
					switch x := rr.(type) {
					case *ssa.Store:
						if x.Addr != a {
							return false
						}
						if _, isConst := x.Val.(*ssa.Const); !isConst {
							if bo, ok := x.Val.(*ssa.BinOp); !ok || (bo.Op != token.ADD && bo.Op != token.SUB) {
								return false
							}
						}
					case *ssa.UnOp:
						if !sinkOnly(x, isSelf, 0) {
							return false
						}
					case *ssa.DebugRef:
					default:
						return false
					}
				}
			}
		}
	}
	return n > 0
}
