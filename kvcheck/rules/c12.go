package rules

import (
	"fmt"
	"go/ast"
	"go/token"
	"go/types"
	"regexp"
	"strings"

	"golang.org/x/tools/go/ssa"

	"kvcheck/engine"
)

func init() {
	register(&Rule{ID: "C12", Run: runC12, Controls: controlsC12,
		Explanation: "Byte equality is behavioural; decided are the orderings and data paths it depends on: " +
			"R12.1 tee completeness: in the wrapping reader's Read every writer is given slices p[written:n] of the very buffer and count of the underlying read, in a loop that advances by the writer's returned count until n (short writes), regardless of the read's error, and Read returns that n; " +
			"R12.2 scrape typestate: WithRawWriter (if any) precedes RequestTo, RequestTo precedes ParseResponse, on one Scraper value; " +
			"R12.3 decode before forwarding: the tee wraps the Scraper's reader field (gzip reader when the content is gzip-encoded) and is the last value stored to it; the parser reads that field; " +
			"R12.4 header before body: Content-Type is copied from the target's response between RequestTo and ParseResponse; " +
			"R12.5 single data path, assigned or not: the response writer is written by nothing but the tee (and failure status codes), and the forwarding calls are not conditional on the status-entry lookup. " +
			"R12.3 also: no method of the pooled gzip reader is called in kvass (it decodes every member of the body as handed out) and it is given back to the pool once (several release sites only if each forgets the reader). " +
			"Not decided: that the parser consumes the whole stream, line-length limits, chunking.",
		Assumptions: []string{"go/types and go/ssa are correct"}})
}

func runC12(p *engine.Prog, r *engine.Report) {
	mWith := p.Method(pkgScrape, "Scraper", "WithRawWriter")
	mReq := p.Method(pkgScrape, "Scraper", "RequestTo")
	mParse := p.Method(pkgScrape, "Scraper", "ParseResponse")
	fReader := p.Field(pkgScrape, "Scraper", "reader")
	fWriterS := p.Field(pkgScrape, "Scraper", "writer")
	fGz := p.Field(pkgScrape, "Scraper", "gZipReader")
	newScraper := p.FuncObj(pkgScrape, "NewScraper")
	if len(p.Problems) > 0 {
		return
	}
	r.Min("R12.1-tee-complete", 1)
	r.Min("R12.2-scrape-typestate", 2)
	r.Min("R12.3-decode-before-forward", 2)
	r.Min("R12.4-header-before-body", 1)
	r.Min("R12.5-single-data-path", 2)

	// ---- R12.1: the tee reader
	var teeType *types.Named
	nTee := 0
	for _, fn := range p.Funcs {
		if !engine.InPkg(fn, pkgScrape) || fn.Name() != "Read" || fn.Signature.Recv() == nil {
			continue
		}
		fi := p.Info(fn)
		var writes []*ssa.Call
		for _, in := range allInstrs(fn) {
			if call, ok := in.(*ssa.Call); ok && call.Call.IsInvoke() && call.Call.Method.Name() == "Write" {
				writes = append(writes, call)
			}
		}
		if len(writes) == 0 {
			continue
		}
		nTee++
		if pt, ok := fn.Signature.Recv().Type().(*types.Pointer); ok {
			teeType, _ = pt.Elem().(*types.Named)
		}
		ck := "tee reader " + engine.FuncName(fn)
		var probs []string
		buf := fn.Params[1]
		var rd *ssa.Call
		for _, in := range allInstrs(fn) {
			if call, ok := in.(*ssa.Call); ok && call.Call.IsInvoke() && call.Call.Method.Name() == "Read" && len(call.Call.Args) == 1 && call.Call.Args[0] == ssa.Value(buf) {
				rd = call
			}
		}
		if rd == nil {
			probs = append(probs, "the underlying reader is not read into the caller's buffer")
		} else {
			n := extractOf(rd, 0)
			rerr := extractOf(rd, 1)
			if n == nil {
				probs = append(probs, "the byte count of the underlying read is not used")
			} else {
				nt := fi.T(n).S
				for _, wcall := range writes {
					sl, ok := wcall.Call.Args[0].(*ssa.Slice)
					if ok {
						// data := p[:n] taken once, then data[written:]: the same bytes as p[written:n]
						if inner, isSl := sl.X.(*ssa.Slice); isSl && sl.High == nil && inner.X == ssa.Value(buf) && inner.High != nil &&
							(inner.Low == nil || (fi.T(inner.Low).IsConst() && fi.T(inner.Low).K == 0)) {
							sl = &ssa.Slice{X: inner.X, Low: sl.Low, High: inner.High}
						}
					}
					if !ok || sl.X != ssa.Value(buf) || sl.High == nil || fi.T(sl.High).S != nt || sl.Low == nil {
						probs = append(probs, "a writer is given "+fi.T(wcall.Call.Args[0]).S+", not p[written:n] of the read buffer")
						continue
					}
					ph, ok := sl.Low.(*ssa.Phi)
					if !ok {
						probs = append(probs, "the write offset is not a running count")
						continue
					}
					wn := extractOf(wcall, 0)
					okInit, okStep := false, false
					for k, e := range ph.Edges {
						et := fi.T(e)
						if fi.IsBackEdge(ph.Block().Preds[k], ph.Block()) {
							if wn != nil && et.S == engine.LinSum(engine.Sym(fi.T(ph).S), engine.Sym(fi.T(wn).S)).S {
								okStep = true
							}
						} else if et.IsConst() && et.K == 0 {
							okInit = true
						}
					}
					if !okInit || !okStep {
						probs = append(probs, "the write offset does not start at 0 and advance by the writer's returned count (short writes would lose bytes)")
					}
					// loop runs while written < n
					cont := engine.LtAtom(engine.Sym(fi.T(ph).S), engine.Sym(nt))
					if ok, _ := fi.Implies(wcall.Block(), cont); !ok {
						probs = append(probs, "the write is not inside 'while written < n'")
					}
					// the exit of the inner loop towards the next writer requires written >= n
					// not conditional on the read error
					if rerr != nil {
						for _, g := range fi.Guards(wcall.Block()) {
							if strings.Contains(g, fi.T(rerr).S) {
								probs = append(probs, "forwarding is conditional on the read's error ("+g+"): bytes delivered together with an error would be dropped")
							}
						}
					}
					// writer: element of the receiver's writer slice, all of them
					if !strings.Contains(fi.T(wcall.Call.Value).S, fi.T(fn.Params[0]).S+".") {
						probs = append(probs, "the writer is not one of the tee's writers")
					}
				}
				for _, ret := range returnsOf(fn) {
					if fi.T(ret.Results[0]).S != nt {
						probs = append(probs, "Read returns "+fi.T(ret.Results[0]).S+" instead of the underlying read's count")
					}
				}
				// every normal return passes the forwarding loop: the return with the read's error is after the loop over writers
				for _, ret := range returnsOf(fn) {
					if rerr != nil && fi.T(ret.Results[1]).S == fi.T(rerr).S {
						// must be the loop exit of the range over writers: all writes' blocks reach it, and it is not reachable bypassing the loop header
						hdrOK := false
						for _, wcall := range writes {
							if lp := loopOf(fi, wcall.Block()); lp != nil {
								outer := lp
								for {
									up := enclosingLoop(fi, outer)
									if up == nil {
										break
									}
									outer = up
								}
								if outer.header.Dominates(ret.Block()) {
									hdrOK = true
								}
							}
						}
						if !hdrOK {
							probs = append(probs, "the normal return does not follow the forwarding loop")
						}
					}
				}
			}
		}
		r.Check(len(probs) == 0, "R12.1-tee-complete", ck, engine.FuncName(fn)+" ("+p.Rel(fn.Pos())+")", "every writer receives p[0:n] of the underlying read, with short-write loop, regardless of the read error; Read returns n", strings.Join(probs, "; "))
	}
	if nTee == 0 {
		r.Add("R12.1-tee-complete", "tee reader", pkgScrape, "a Read method that forwards to io.Writers", "none found", engine.Undecided)
	}

	// ---- R12.2: typestate in every user of a Scraper
	nUse := 0
	for _, fn := range p.Funcs {
		var mk *ssa.Call
		for _, in := range allInstrs(fn) {
			if call, ok := in.(*ssa.Call); ok && engine.CalleeObj(call.Common()) == newScraper {
				mk = call
			}
		}
		if mk == nil {
			continue
		}
		nUse++
		fi := p.Info(fn)
		ck := "scraper use in " + engine.FuncName(fn)
		var probs []string
		get := func(m *types.Func) []ssa.CallInstruction {
			var out []ssa.CallInstruction
			for _, ci := range callsIn(fn, m) {
				if fi.T(recvOf(ci)).S == fi.T(mk).S {
					out = append(out, ci)
				}
			}
			return out
		}
		reqs, parses, withs := get(mReq), get(mParse), get(mWith)
		if len(reqs) != 1 || len(parses) != 1 {
			probs = append(probs, fmt.Sprintf("%d RequestTo and %d ParseResponse calls on the scraper (want 1 and 1)", len(reqs), len(parses)))
		} else {
			if !engine.InstrDominates(reqs[0], parses[0]) {
				probs = append(probs, "ParseResponse is not preceded by RequestTo on every path")
			}
			if ok, _ := fi.Implies(parses[0].Block(), engine.EqAtom(fi.T(reqs[0].(*ssa.Call)).S, "nil")); !ok {
				probs = append(probs, "ParseResponse is reachable after a failed RequestTo")
			}
			for _, w := range withs {
				if blockReaches(reqs[0].Block(), w.Block()) && !engine.InstrDominates(w, reqs[0]) {
					probs = append(probs, "WithRawWriter can run after RequestTo (the writers are captured when the reader is wrapped)")
				}
			}
		}
		r.Check(len(probs) == 0, "R12.2-scrape-typestate", ck, engine.FuncName(fn), "WithRawWriter* → RequestTo (ok) → ParseResponse", strings.Join(probs, "; "))
	}

	// ---- R12.3: inside RequestTo / ParseResponse
	if rq := p.SSAFunc(mReq); rq != nil {
		fi := p.Info(rq)
		var probs []string
		var wrapStore *ssa.Store
		var stores []*ssa.Store
		for _, in := range allInstrs(rq) {
			if st, ok := in.(*ssa.Store); ok {
				if fa, ok := st.Addr.(*ssa.FieldAddr); ok && engine.FieldOf(fa) == fReader {
					stores = append(stores, st)
					if call, ok := unwrapIface(st.Val).(*ssa.Call); ok && teeType != nil {
						if callee := call.Call.StaticCallee(); callee != nil && callee.Signature.Results().Len() == 1 && returnsTee(callee, teeType) {
							wrapStore = st
						}
					}
				}
			}
		}
		if wrapStore == nil {
			probs = append(probs, "the reader field is never set to the tee")
		} else {
			call := unwrapIface(wrapStore.Val).(*ssa.Call)
			// writers given to the tee are the scraper's writers
			okW := false
			for _, a := range call.Call.Args[1:] {
				if _, ok := loadOfField(a, fWriterS); ok {
					okW = true
				}
			}
			if !okW {
				probs = append(probs, "the tee is not given the scraper's raw writers")
			}
			for _, st := range stores {
				if st != wrapStore && blockReaches(wrapStore.Block(), st.Block()) && !engine.InstrDominates(st, wrapStore) {
					probs = append(probs, "the reader field is overwritten after the tee was installed (at "+p.Rel(st.Pos())+")")
				}
			}
			// the condition "the response is gzip-encoded"
			var gz *engine.Formula
			for _, b := range rq.Blocks {
				if len(b.Instrs) == 0 {
					continue
				}
				iff, ok := b.Instrs[len(b.Instrs)-1].(*ssa.If)
				if !ok {
					continue
				}
				ct := fi.T(iff.Cond).S
				if strings.Contains(ct, `"Content-Encoding")`) && strings.Contains(ct, `"gzip"`) && strings.Contains(ct, ".HTTPResponse") {
					gz = fi.Cond(iff.Cond)
					if gz.Op == '!' && len(gz.Sub) == 1 {
						gz = gz.Sub[0] // the test is written "!= gzip": the condition meant is still "is gzip"
					}
				}
			}
			// where the bytes handed to the tee come from
			type src struct {
				rdLeaf
				blocks []*ssa.BasicBlock // stores through the reader field: the storing blocks
			}
			var srcs []src
			for _, lf := range readerSources(p, rq, call.Call.Args[0]) {
				if _, ok := loadOfField(lf.v, fReader); ok && lf.fn == rq {
					// old form: the field is used as the variable; its earlier stores are the sources
					for _, st := range stores {
						if st == wrapStore || !engine.InstrDominates(st, wrapStore) && !blockReaches(st.Block(), wrapStore.Block()) {
							continue
						}
						for _, l2 := range readerSources(p, rq, st.Val) {
							srcs = append(srcs, src{rdLeaf: l2, blocks: []*ssa.BasicBlock{st.Block()}})
						}
					}
					continue
				}
				srcs = append(srcs, src{rdLeaf: lf})
			}
			bodyRe := regexp.MustCompile(`\.HTTPResponse(@[0-9a-f]+)?\.Body(@[0-9a-f]+)?$`)
			isBody := func(fn *ssa.Function, v ssa.Value) bool {
				return bodyRe.MatchString(p.Info(fn).T(v).S)
			}
			isGz := func(l rdLeaf) bool {
				t := p.Info(l.fn).T(l.v).S
				if strings.Contains(t, "GetGzipReader(") && strings.HasSuffix(t, ".0") {
					return true
				}
				if _, ok := loadOfField(l.v, fGz); ok {
					return true
				}
				return false
			}
			under := func(sr src, want *engine.Formula) bool {
				if gz == nil {
					return false
				}
				v := fi.View(want)
				for _, e := range sr.edges {
					if ok, _ := v.ImpliesEdge(e[0], e[1], want); ok {
						return true
					}
				}
				for _, b := range sr.blocks {
					if ok, _ := v.Implies(b, want); ok {
						return true
					}
				}
				return false
			}
			nBody, nGz := 0, 0
			for _, sr := range srcs {
				switch {
				case sr.kind == "load" && isBody(sr.fn, sr.v) && len(sr.via) == 0:
					nBody++
					if len(sr.blocks) > 0 {
						// field form: the plain body is installed first and replaced when the content is gzip-encoded
						over := false
						for _, o := range srcs {
							if isGz(o.rdLeaf) && len(o.blocks) > 0 && sr.blocks[0].Dominates(o.blocks[0]) && under(o, gz) {
								over = true
							}
						}
						if !over {
							probs = append(probs, "the plain body reaches the tee also when the content is gzip-encoded")
						}
					} else if !under(sr, engine.Not(gz)) {
						probs = append(probs, "the plain body reaches the tee also when the content is gzip-encoded")
					}
				case isGz(sr.rdLeaf) && len(sr.via) == 0:
					nGz++
					if !under(sr, gz) {
						probs = append(probs, "the gzip reader is installed without testing Content-Encoding")
					}
				default:
					what := p.Info(sr.fn).T(sr.v).S
					if sr.note != "" {
						what += ": " + sr.note
					}
					if len(sr.via) > 0 {
						what += " (through " + strings.Join(sr.via, " → ") + ")"
					}
					probs = append(probs, "the tee reads "+what+", which is neither the response body nor the gzip reader over it")
				}
			}
			// the gzip reader decodes the response body
			for _, in := range allInstrs(rq) {
				if c2, ok := in.(*ssa.Call); ok && strings.HasPrefix(fi.T(c2).S, "call github.com/VictoriaMetrics/VictoriaMetrics/lib/protoparser/common.GetGzipReader(") {
					if !isBody(rq, unwrapIface(c2.Call.Args[0])) {
						probs = append(probs, "the gzip reader decodes "+fi.T(c2.Call.Args[0]).S+" instead of the response body")
					}
				}
				if st, ok := in.(*ssa.Store); ok {
					if fa, ok := st.Addr.(*ssa.FieldAddr); ok && engine.FieldOf(fa) == fGz {
						if t := fi.T(st.Val).S; !(strings.Contains(t, "GetGzipReader(") && strings.HasSuffix(t, ".0")) {
							probs = append(probs, "the gzip reader field is set to "+t)
						}
					}
				}
			}
			if nGz == 0 {
				probs = append(probs, "no gzip-decoding reader is installed for gzip-encoded responses")
			}
			if nBody == 0 {
				probs = append(probs, "the response body never reaches the tee")
			}
			// the tee is installed on every successful return
			for _, ret := range returnsOf(rq) {
				if isNilConst(returnedValue(ret, 0)) && !engine.InstrDominates(wrapStore, ret) {
					probs = append(probs, "RequestTo can succeed without installing the tee")
				}
			}
		}
		r.Check(len(probs) == 0, "R12.3-decode-before-forward", "reader set-up in "+engine.FuncName(rq), engine.FuncName(rq), "body → (gzip reader if gzip-encoded) → tee, the tee installed last, on every successful return", strings.Join(probs, "; "))
	}
	if ps := p.SSAFunc(mParse); ps != nil {
		fi := p.Info(ps)
		ok := false
		for _, in := range allInstrs(ps) {
			if call, okc := in.(*ssa.Call); okc && strings.Contains(fi.T(call).S, "ParseStream") {
				a0 := call.Call.Args[0]
				if ci, okk := a0.(*ssa.ChangeInterface); okk {
					a0 = ci.X
				}
				if _, okr := loadOfField(unwrapIface(a0), fReader); okr {
					ok = true
				}
			}
		}
		r.Check(ok, "R12.3-decode-before-forward", "parser input in "+engine.FuncName(ps), engine.FuncName(ps), "the statistics parser reads the scraper's reader field (the tee), so parsing and forwarding share one pass", "")
	}

	// ---- R12.3 (decompressor): the pooled gzip reader is used as obtained and given back once
	{
		var conf, puts []string
		var putCalls []*ssa.Call
		for _, fn := range p.Funcs {
			for _, in := range allInstrs(fn) {
				call, ok := in.(*ssa.Call)
				if !ok || call.Call.StaticCallee() == nil {
					continue
				}
				callee := call.Call.StaticCallee()
				if rv := callee.Signature.Recv(); rv != nil && strings.HasSuffix(rv.Type().String(), "gzip.Reader") {
					conf = append(conf, callee.Name()+" in "+engine.FuncName(fn)+" ("+p.Rel(call.Pos())+")")
				}
				if callee.Name() == "PutGzipReader" {
					putCalls = append(putCalls, call)
					puts = append(puts, engine.FuncName(fn)+" ("+p.Rel(call.Pos())+")")
				}
			}
		}
		r.Check(len(conf) == 0, "R12.3-decode-before-forward", "decompressor configuration", "calls of gzip.Reader methods in kvass", "none: the reader decodes the whole body (every member) as the pool hands it out", strings.Join(conf, "; "))
		var probs []string
		if len(putCalls) > 1 {
			// several release sites are only safe when each forgets the reader it gave back
			fGz := p.Field(pkgScrape, "Scraper", "gZipReader")
			for _, pc := range putCalls {
				fi := p.Info(pc.Parent())
				cleared := fi.MustPass(pc, nil, func(in ssa.Instruction) bool {
					st, ok := in.(*ssa.Store)
					if !ok {
						return false
					}
					fa, ok := st.Addr.(*ssa.FieldAddr)
					return ok && engine.FieldOf(fa) == fGz && isNilConst(st.Val)
				})
				if !cleared {
					probs = append(probs, "released at "+p.Rel(pc.Pos())+" without forgetting it, and there are "+fmt.Sprint(len(putCalls))+" release sites: the same reader can enter the pool twice and then decode two responses at once")
				}
			}
		}
		r.Check(len(probs) == 0 && len(putCalls) > 0, "R12.3-decode-before-forward", "decompressor release", "release sites: "+strings.Join(puts, ", "), "the pooled reader is given back exactly once", strings.Join(probs, "; "))
	}

	// ---- R12.4 / R12.5 in the proxy
	pr := findProxy(p)
	if pr == nil || pr.request == nil || pr.parse == nil {
		r.Add("R12.4-header-before-body", "proxy", "Proxy.ServeHTTP", "handler with RequestTo and ParseResponse", "not found", engine.Undecided)
		return
	}
	fn, fi := pr.fn, pr.fi
	{
		var probs []string
		found := false
		for _, in := range allInstrs(fn) {
			call, ok := in.(*ssa.Call)
			if !ok || !engine.CalleeIs(call.Common(), "net/http", "Header", "Set") {
				continue
			}
			if fi.T(call.Call.Args[1]).S != `"Content-Type"` {
				continue
			}
			found = true
			if !strings.Contains(fi.T(call.Call.Args[0]).S, "(net/http.ResponseWriter).Header("+fi.T(pr.w).S+")") {
				probs = append(probs, "the header is set on "+fi.T(call.Call.Args[0]).S)
			}
			v := fi.T(call.Call.Args[2]).S
			if !(strings.HasPrefix(v, "call (net/http.Header).Get(") && strings.Contains(v, ".HTTPResponse") && strings.Contains(v, `.Header,"Content-Type")#`)) {
				probs = append(probs, "the value is "+v+", not the target response's Content-Type")
			}
			if !engine.InstrDominates(pr.request, call) || !engine.InstrDominates(call, pr.parse) {
				probs = append(probs, "the copy is not between RequestTo and ParseResponse")
			}
		}
		if !found {
			probs = append(probs, "Content-Type is never copied to the response")
		}
		r.Check(len(probs) == 0, "R12.4-header-before-body", "content type in "+engine.FuncName(fn), engine.FuncName(fn), "Content-Type copied from the target's response after RequestTo and before the body is streamed", strings.Join(probs, "; "))
	}
	{
		// who touches the response writer
		var probs []string
		wt := fi.T(pr.w).S
		for _, f := range append([]*ssa.Function{fn}, fn.AnonFuncs...) {
			ffi := p.Info(f)
			for _, in := range allInstrs(f) {
				ci, ok := in.(ssa.CallInstruction)
				if !ok {
					continue
				}
				c := ci.Common()
				uses := false
				if c.IsInvoke() && ffi.T(c.Value).S == wt {
					uses = true
				}
				for _, a := range c.Args {
					if ffi.T(unwrapIface(a)).S == wt {
						uses = true
					}
					for _, e := range varargElems(a) {
						if ffi.T(unwrapIface(e)).S == wt {
							uses = true
						}
					}
				}
				if !uses {
					continue
				}
				switch {
				case c.IsInvoke() && (c.Method.Name() == "WriteHeader" || c.Method.Name() == "Header"):
				case engine.CalleeObj(c) == mWith:
				default:
					name := "?"
					if o := engine.CalleeObj(c); o != nil {
						name = o.FullName()
					}
					probs = append(probs, "the response writer is also used by "+name+" at "+p.Rel(ci.Pos())+" (bytes would reach Prometheus outside the tee)")
				}
			}
		}
		r.Check(len(probs) == 0, "R12.5-single-data-path", "users of the response writer in "+engine.FuncName(fn), engine.FuncName(fn), "only the tee (WithRawWriter), Header() and failure status codes touch the response writer", strings.Join(probs, "; "))
		probs = nil
		for _, call := range []*ssa.Call{pr.with, pr.request, pr.parse} {
			if call == nil {
				continue
			}
			for _, g := range fi.Guards(call.Block()) {
				if strings.Contains(g, "getStatus()") {
					probs = append(probs, engine.CalleeObj(call.Common()).Name()+" is conditional on the status-entry lookup ("+g+")")
				}
			}
		}
		if pr.with == nil {
			probs = append(probs, "the writer is never handed to the scraper")
		}
		r.Check(len(probs) == 0, "R12.5-single-data-path", "forwarding independent of assignment in "+engine.FuncName(fn), engine.FuncName(fn), "hand-over, request and parse do not depend on whether the target is assigned to this shard", strings.Join(probs, "; "))
	}
}

func returnsTee(fn *ssa.Function, tee *types.Named) bool {
	if fn.Blocks == nil {
		return false
	}
	for _, ret := range returnsOf(fn) {
		v := ret.Results[0]
		if mi, ok := v.(*ssa.MakeInterface); ok {
			v = mi.X
		}
		if al, ok := v.(*ssa.Alloc); ok {
			if pt, ok := al.Type().(*types.Pointer); ok {
				if n, ok := pt.Elem().(*types.Named); ok && n.Obj() == tee.Obj() {
					return true
				}
			}
		}
	}
	return false
}

func enclosingLoop(fi *engine.FuncInfo, inner *loopInfo) *loopInfo {
	var best *loopInfo
	for _, h := range fi.Fn.Blocks {
		if h == inner.header {
			continue
		}
		lp := loopOfHeader(fi, h)
		if lp == nil || !lp.blocks[inner.header.Index] {
			continue
		}
		if best == nil || len(lp.blocks) < len(best.blocks) {
			best = lp
		}
	}
	return best
}

func loopOfHeader(fi *engine.FuncInfo, h *ssa.BasicBlock) *loopInfo {
	var latches []*ssa.BasicBlock
	for _, pr := range h.Preds {
		if fi.IsBackEdge(pr, h) {
			latches = append(latches, pr)
		}
	}
	if len(latches) == 0 {
		return nil
	}
	mem := map[int]bool{h.Index: true}
	stack := append([]*ssa.BasicBlock{}, latches...)
	for len(stack) > 0 {
		x := stack[len(stack)-1]
		stack = stack[:len(stack)-1]
		if mem[x.Index] {
			continue
		}
		mem[x.Index] = true
		stack = append(stack, x.Preds...)
	}
	return &loopInfo{header: h, blocks: mem}
}

func controlsC12(p *engine.Prog) []Control {
	// the decompressor is told to stop after the first gzip member -> R12.3 (a rule whose instance count is zero on the tree)
	c1 := astControl(p, pkgScrape, "gzip reader configured to stop at the first member", "C12/R12.3", func(n ast.Node, src []byte, off func(token.Pos) int) (int, int, string, bool) {
		as, ok := n.(*ast.AssignStmt)
		if !ok || len(as.Lhs) != 1 || len(as.Rhs) != 1 {
			return 0, 0, "", false
		}
		sel, ok := as.Rhs[0].(*ast.SelectorExpr)
		if !ok || sel.Sel.Name != "gZipReader" {
			return 0, 0, "", false
		}
		rhs := string(src[off(sel.Pos()):off(sel.End())])
		return off(as.Pos()), off(as.Pos()), rhs + ".Multistream(false)\n", true
	})
	return []Control{c1}
}
