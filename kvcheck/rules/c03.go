package rules

import (
	"fmt"
	"go/token"
	"go/types"
	"strings"

	"golang.org/x/tools/go/ssa"

	"kvcheck/engine"
)

func init() {
	register(&Rule{ID: "C03", Run: runC03, Controls: controlsC03,
		Explanation: "Convergence over many cycles is out of reach of a static argument; decided is the per-cycle skeleton the last sentence of the property rests on, and one liveness skeleton: " +
			"R3.1 place or account: in the assigner's loop over the discovered map every iteration either places the target, or adds its space to the needed-space value, or leaves through one of the enumerated skip edges (already scraped by a reporting shard, no status, not healthy, too big); no return precedes the loop and the accumulated value is what is returned; " +
			"R3.2 needed space decides the direction: the assigner's result is added (both dimensions) to the value whose zero test selects between scale-up (only when non-zero, given that very value) and the idle scan; " +
			"R3.3 pending transfers complete: the delete that finishes a hand-over carries no condition beyond the documented ones (discovered, both counts reached, distinct non-nil in-sync holder, own in-transfer, other normal), so a transfer cannot stay pending once both sides have scraped enough. " +
			"R3.4 the scale-up function adds at least one shard to the in-sync count (so that, with all shards in sync, an unplaceable eligible target makes the request exceed the current count). " +
			"Not decided: the exact scale-up amount, boundedness of the number of cycles, idempotence at the fixed point.",
		Assumptions: []string{"go/types and go/ssa are correct", "field-based may-alias memory model"}})
}

func runC03(p *engine.Prog, r *engine.Report) {
	c := newCoord(p)
	activeT := sdMapType(p)
	spaceT := p.Named(pkgCoord, "space")
	if len(p.Problems) > 0 {
		return
	}
	r.Min("R3.1-place-or-account", 2)
	r.Min("R3.2-direction", 1)
	r.Min("R3.3-handover-exact", 1)
	r.Min("R3.4-scale-up-amount", 2)

	var assigner *ssa.Function
	for _, mw := range c.mapWrites {
		fn := mw.Parent()
		d, _ := loadOfField(mw.Map, c.fScraping)
		q, ok := d.(*ssa.Call)
		if !ok {
			continue
		}
		assigner = fn
		fi := p.Info(fn)
		ck := "assigner " + engine.FuncName(fn)
		// the loop over the discovered map
		var rng *ssa.Range
		for _, in := range allInstrs(fn) {
			if rg, ok := in.(*ssa.Range); ok && activeT != nil && types.Identical(rg.X.Type().Underlying(), activeT) {
				if mi := loopOf(fi, mw.Block()); mi != nil {
					for _, rr := range *rg.Referrers() {
						if nx, ok := rr.(*ssa.Next); ok && mi.blocks[nx.Block().Index] {
							rng = rg
						}
					}
				}
			}
		}
		if rng == nil {
			r.Add("R3.1-place-or-account", ck, "first assignment at "+c.at(mw), "inside a loop over the discovered map", "no enclosing range over the discovered map", engine.Undecided)
			continue
		}
		var hdr *ssa.BasicBlock
		for _, rr := range *rng.Referrers() {
			if nx, ok := rr.(*ssa.Next); ok {
				hdr = nx.Block()
			}
		}
		body := hdr.Succs[0]
		// accounting calls: methods on *space called inside the loop with a space built from the entry
		var acct []*ssa.Call
		for _, in := range allInstrs(fn) {
			call, ok := in.(*ssa.Call)
			if !ok || call.Call.StaticCallee() == nil || call.Call.StaticCallee().Signature.Recv() == nil {
				continue
			}
			if isPtrTo(call.Call.StaticCallee().Signature.Recv().Type(), spaceT) && body.Dominates(call.Block()) {
				acct = append(acct, call)
			}
		}
		entry := fi.T(mw.Value).S
		key := fi.T(mw.Key).S
		// allowed skip edges
		var skips []*engine.Formula
		var skipTxt []string
		for _, lit := range fi.AllAtoms() {
			switch {
			case strings.HasPrefix(lit, "true(") && strings.Contains(lit, "["+key+"]") && !strings.Contains(lit, "call "):
				skips = append(skips, engine.A(lit))
				skipTxt = append(skipTxt, "already scraped")
			case strings.HasPrefix(lit, "eq(") && strings.Contains(lit, entry) && strings.Contains(lit, "nil") && !strings.Contains(lit, "call "):
				skips = append(skips, engine.A(lit))
				skipTxt = append(skipTxt, "no status")
			case strings.HasPrefix(lit, "eq(\"up\",") && strings.Contains(lit, entry+"."+c.fHealth.Name()):
				skips = append(skips, engine.Not(engine.A(lit)))
				skipTxt = append(skipTxt, "not healthy")
			case strings.HasPrefix(lit, "true(call ") && strings.Contains(lit, entry) && strings.Contains(lit, "isTooBig") == strings.Contains(lit, "isTooBig"):
				if cv, ok := fi.Calls[strings.TrimSuffix(strings.TrimPrefix(lit, "true("), ")")]; ok {
					if cc, ok := cv.(*ssa.Call); ok && cc.Call.StaticCallee() != nil && cc.Call.StaticCallee().Signature.Results().Len() == 1 {
						if bt, ok := cc.Call.StaticCallee().Signature.Results().At(0).Type().Underlying().(*types.Basic); ok && bt.Kind() == types.Bool {
							skips = append(skips, engine.A(lit))
							skipTxt = append(skipTxt, "too big")
						}
					}
				}
			}
		}
		j := engine.Or(skips...)
		cut := []*ssa.BasicBlock{mw.Block()}
		for _, a := range acct {
			cut = append(cut, a.Block())
		}
		v := fi.ViewOpt(j, body, cut...)
		var probs []string
		for _, pr := range hdr.Preds {
			if !fi.IsBackEdge(pr, hdr) || !v.Reachable(pr) {
				continue
			}
			if ok, have := v.ImpliesEdge(pr, hdr, j); !ok {
				probs = append(probs, "an iteration can end without placing or accounting the target and without a recognised skip reason: "+strings.Join(nonStructural(have), " ∧ "))
			}
		}
		if len(acct) == 0 {
			probs = append(probs, "no needed-space accounting in the loop")
		}
		// accounting happens exactly when the query found no shard: on the nil edge of the query result
		for _, a := range acct {
			if ok, _ := fi.Implies(a.Block(), engine.EqAtom(fi.T(q).S, "nil")); !ok {
				probs = append(probs, "needed space is accounted on a path where a free shard was found")
			}
			// the space accounted is the entry's series pair
			if len(a.Call.Args) >= 2 {
				hs := fi.StructField(a.Call.Args[1], c.fHeadSpace).S
				ps := fi.StructField(a.Call.Args[1], c.fProcSpace).S
				if !strings.HasPrefix(hs, entry) || !strings.HasSuffix(hs, c.fSeries.Name()) && !strings.Contains(hs, "."+c.fSeries.Name()+"@") {
					probs = append(probs, "accounted head space is "+hs+", not the entry's Series")
				}
				if !strings.HasPrefix(ps, entry) || !strings.Contains(ps, "."+c.fTotal.Name()) {
					probs = append(probs, "accounted process space is "+ps+", not the entry's TotalSeries")
				}
			}
		}
		r.Check(len(probs) == 0, "R3.1-place-or-account", ck+": loop", "loop over the discovered map at "+c.at(rng),
			"every iteration places the target, accounts its space, or skips for one of: "+strings.Join(uniq(skipTxt), ", "), strings.Join(probs, "; "))
		// no return before the loop; the returned value is the accumulator that the accounting writes
		var probs2 []string
		for _, b := range fn.Blocks {
			ret, ok := b.Instrs[len(b.Instrs)-1].(*ssa.Return)
			if !ok {
				continue
			}
			// the loop's exit edge (range exhausted) must lie on every path to a return
			var done *ssa.BasicBlock
			for _, sc := range hdr.Succs {
				if sc != body {
					done = sc
				}
			}
			if done == nil || !(done == b || done.Dominates(b)) {
				probs2 = append(probs2, "return at "+p.Rel(ret.Pos())+" is reachable without the loop over the discovered targets having run to its end")
			}
			if len(ret.Results) == 1 {
				okAcc := false
				if u, ok := ret.Results[0].(*ssa.UnOp); ok && u.Op == token.MUL {
					for _, a := range acct {
						if a.Call.Args[0] == u.X {
							okAcc = true
						}
					}
				}
				if !okAcc {
					probs2 = append(probs2, "the returned value "+fi.T(ret.Results[0]).S+" is not the accumulator the accounting adds to")
				}
			}
		}
		r.Check(len(probs2) == 0, "R3.1-place-or-account", ck+": result", "returns of "+engine.FuncName(fn), "every return follows the loop and yields the accumulated needed space", strings.Join(probs2, "; "))
	}

	// ---- R3.2 in the cycle
	for _, fn := range c.funcs {
		if assigner == nil || len(callsIn(fn, c.mChangeScale)) == 0 {
			continue
		}
		fi := p.Info(fn)
		var acall *ssa.Call
		for _, in := range allInstrs(fn) {
			if call, ok := in.(*ssa.Call); ok && call.Call.StaticCallee() == assigner {
				acall = call
			}
		}
		if acall == nil {
			continue
		}
		ck := "cycle " + engine.FuncName(fn)
		var probs []string
		// result is added to an accumulator A via a method on *space
		var acc ssa.Value
		for _, rr := range *acall.Referrers() {
			if call, ok := rr.(*ssa.Call); ok && call.Call.StaticCallee() != nil && call.Call.StaticCallee().Signature.Recv() != nil &&
				isPtrTo(call.Call.StaticCallee().Signature.Recv().Type(), spaceT) && len(call.Call.Args) == 2 && call.Call.Args[1] == ssa.Value(acall) {
				if c.isAddMethod(call.Call.StaticCallee()) {
					acc = call.Call.Args[0]
				} else {
					probs = append(probs, engine.FuncName(call.Call.StaticCallee())+" does not add both dimensions")
				}
			}
		}
		if acc == nil {
			probs = append(probs, "the assigner's needed space is not added to the cycle's needed-space value")
		} else {
			var zero *ssa.Call
			for _, in := range allInstrs(fn) {
				if call, ok := in.(*ssa.Call); ok && call.Call.StaticCallee() != nil && len(call.Call.Args) == 1 && call.Call.Args[0] == acc && c.isZeroPredicate(call.Call.StaticCallee()) {
					if engine.InstrDominates(acall, call) {
						zero = call
					}
				}
			}
			if zero == nil {
				probs = append(probs, "no zero test of the needed-space value after the assignment")
			} else {
				// calls that receive the needed space by value: the scale-up function
				nUp := 0
				for _, in := range allInstrs(fn) {
					call, ok := in.(*ssa.Call)
					if !ok || call.Call.StaticCallee() == nil || !engine.InPkg(call.Call.StaticCallee(), pkgCoord) {
						continue
					}
					for _, a := range call.Call.Args {
						if u, ok := a.(*ssa.UnOp); ok && u.Op == token.MUL && u.X == acc && call != zero {
							nUp++
							if ok, have := fi.Implies(call.Block(), engine.Not(engine.TrueAtom(fi.T(zero).S))); !ok {
								probs = append(probs, "the scale-up function is called without 'needed space non-zero' on the path: "+strings.Join(nonStructural(have), " ∧ "))
							}
							if !engine.InstrDominates(zero, call) {
								probs = append(probs, "scale-up is not decided by the zero test")
							}
						}
					}
				}
				if nUp == 0 {
					probs = append(probs, "no scale-up function receives the needed space")
				}
			}
		}
		r.Check(len(probs) == 0, "R3.2-direction", ck, "needed space in "+engine.FuncName(fn), "assigner result added to the needed-space value; scale-up called with it exactly under 'non-zero'", strings.Join(probs, "; "))
	}

	// ---- R3.4 the scale-up amount is at least one shard whenever the scale-up function is called
	for _, fn := range c.funcs {
		if len(callsIn(fn, c.mChangeScale)) == 0 {
			continue
		}
		for _, in := range allInstrs(fn) {
			call, ok := in.(*ssa.Call)
			if !ok || call.Call.StaticCallee() == nil || !engine.InPkg(call.Call.StaticCallee(), pkgCoord) {
				continue
			}
			up := call.Call.StaticCallee()
			takesSpace := false
			for _, q := range up.Params {
				if n, ok := q.Type().(*types.Named); ok && n.Obj() == spaceT.Obj() {
					takesSpace = true
				}
			}
			if !takesSpace || up.Signature.Results().Len() != 1 || !isIntBasic(up.Signature.Results().At(0).Type()) || len(up.Params) < 2 || !isSliceOfPtrTo(up.Params[1].Type(), c.shardInfo) {
				continue
			}
			ufi := p.Info(up)
			// result = len(in-sync) + amount (then floored by len(all)): find the addition whose one operand is len(filter(...))
			var probs []string
			found := false
			for _, in2 := range allInstrs(up) {
				bo, ok := in2.(*ssa.BinOp)
				if !ok || bo.Op != token.ADD || !isIntBasic(bo.Type()) {
					continue
				}
				for k, opnd := range []ssa.Value{bo.X, bo.Y} {
					if !strings.HasPrefix(ufi.T(opnd).S, "len(call ") && !isCountPhi(opnd) {
						continue
					}
					found = true
					amount := []ssa.Value{bo.Y, bo.X}[k]
					if !atLeastOne(ufi, amount, map[ssa.Value]bool{}) {
						probs = append(probs, "the number of shards added ("+short(ufi.T(amount).S)+") is not bounded below by 1 (an unplaceable target could leave the requested count unchanged)")
					}
				}
			}
			if !found {
				probs = append(probs, "the result is not 'in-sync shards + amount'")
			}
			// whenever space is needed the scale-up function decides: between the point where the needed space is
			// final and the call, the path depends on nothing but that space value
			{
				var probs2 []string
				fi := p.Info(fn)
				var spArg ssa.Value
				for _, a := range call.Call.Args {
					if n, ok := a.Type().(*types.Named); ok && n.Obj() == spaceT.Obj() {
						spArg = a
					}
				}
				var marks []string
				var from *ssa.BasicBlock
				if u, ok := spArg.(*ssa.UnOp); ok {
					if al, ok := u.X.(*ssa.Alloc); ok {
						marks = []string{"local:" + al.Name(), "mem:" + al.Name(), "cell:" + al.Name()}
						var last ssa.Instruction
						for _, rr := range *al.Referrers() {
							switch rr.(type) {
							case *ssa.Store, ssa.CallInstruction:
							default:
								continue
							}
							if rr == ssa.Instruction(call) || !engine.InstrDominates(rr, call) {
								continue
							}
							// writers only
							if ci, ok := rr.(ssa.CallInstruction); ok {
								w := false
								for i, a := range ci.Common().Args {
									if a == ssa.Value(al) && writesThroughParam(ci.Common().StaticCallee(), i, 0) {
										w = true
									}
								}
								if !w {
									continue
								}
							}
							if last == nil || engine.InstrDominates(last, rr) {
								last = rr
							}
						}
						if last != nil {
							from = last.Block()
						}
					}
				} else if spArg != nil {
					marks = []string{fi.T(spArg).S}
					if in, ok := spArg.(ssa.Instruction); ok {
						from = in.Block()
					}
				}
				if from == nil || len(marks) == 0 {
					probs2 = append(probs2, "the needed space handed to the scale-up function cannot be followed to where it is computed")
				} else {
					before := map[string]bool{}
					for _, g := range fi.Guards(from) {
						before[g] = true
					}
					for _, g := range fi.Guards(call.Block()) {
						if before[g] || engine.IsStructuralLiteral(g) {
							continue
						}
						about := false
						for _, m := range marks {
							if strings.Contains(g, m) {
								about = true
							}
						}
						if !about {
							probs2 = append(probs2, "scale-up is additionally conditional on "+short(g)+": space can be needed without the requested count rising")
						}
					}
				}
				r.Check(len(probs2) == 0, "R3.4-scale-up-amount", "scale-up decided by the needed space alone in "+engine.FuncName(fn), "call at "+c.at(call), "between the final needed space and the scale-up call, no condition on anything else", strings.Join(probs2, "; "))
			}
			r.Check(len(probs) == 0, "R3.4-scale-up-amount", "amount in "+engine.FuncName(up), engine.FuncName(up)+" ("+p.Rel(up.Pos())+")", "requested = in-sync count + amount with amount ≥ 1 (quotients of non-negative needed space assumed ≥ 0)", strings.Join(probs, "; "))
		}
	}

	// ---- R3.3 the hand-over delete is not over-constrained
	nH := 0
	for _, del := range c.mapDeletes {
		fn := del.Parent()
		fi := p.Info(fn)
		s, _ := loadOfField(del.Call.Args[0], c.fScraping)
		st, kt := fi.T(s).S, fi.T(del.Call.Args[1]).S
		for _, in := range allInstrs(fn) {
			lk, ok := in.(*ssa.Lookup)
			if !ok || fi.T(lk.Index).S != kt {
				continue
			}
			o, ok := loadOfField(lk.X, c.fScraping)
			if !ok || fi.T(o).S == st {
				continue
			}
			oe := ownBase(fi, lk)
			se := fi.ElemPath(fi.FieldPath(st, del, c.fScraping), c.fScraping.Type(), kt, lk)
			j2a := engine.And(engine.EqAtom(fi.FieldPath(se, lk, c.fState), `"in_transfer"`), engine.EqAtom(fi.FieldPath(oe, lk, c.fState), `""`))
			for _, site := range c.decisionSites(del) {
				if ok, _ := site.implies(fi, j2a); !ok {
					continue
				}
				nH++
				allowed := func(lit string) bool {
					lit = strings.TrimPrefix(lit, "¬")
					switch {
					case engine.IsStructuralLiteral("x"+lit) || engine.IsStructuralLiteral(lit):
						return true
					case strings.HasPrefix(lit, "has(") && strings.Contains(lit, "["+kt+"]"):
						return true
					case strings.Contains(lit, se+"."+c.fTimes.Name()) || strings.Contains(lit, oe+"."+c.fTimes.Name()):
						return true
					case strings.Contains(lit, se+"."+c.fState.Name()) || strings.Contains(lit, oe+"."+c.fState.Name()):
						return true
					case lit == "eq("+min2(st, fi.T(o).S)+","+max2(st, fi.T(o).S)+")":
						return true
					case strings.HasPrefix(lit, "eq(") && strings.Contains(lit, oe) && strings.Contains(lit, "nil"):
						return true
					case strings.HasPrefix(lit, "true(") && strings.HasSuffix(lit, "."+c.fChangeAble.Name()+")"):
						return true
					}
					return false
				}
				var extra []string
				for _, g := range fi.Guards(site.blk) {
					if !allowed(g) {
						extra = append(extra, g)
					}
				}
				// a condition spread over alternative paths (load compared one way when a limit is set, another way when not)
				// is no literal of the path condition: look at what reaching the delete depends on, over all branch conditions
				if v := fi.ViewAll(j2a, nil); v != nil && len(extra) == 0 {
					for _, a := range v.Atoms() {
						if allowed(a) || strings.HasPrefix(a, "eq0(") && strings.Contains(a, ".option.") {
							continue
						}
						if v.DependsOn(site.blk, a) {
							extra = append(extra, "depends on "+a)
						}
					}
				}
				r.Check(len(extra) == 0, "R3.3-handover-exact", fmt.Sprintf("hand-over delete#%d in %s", nH, engine.FuncName(fn)), "removal of the in-transfer copy at "+c.at(del),
					"no condition beyond: discovered, both scrape counts reached, distinct non-nil in-sync holder, own in-transfer, other normal", "additional necessary conditions: "+strings.Join(extra, " ∧ "))
			}
		}
	}
}

func min2(a, b string) string {
	if a < b {
		return a
	}
	return b
}
func max2(a, b string) string {
	if a < b {
		return b
	}
	return a
}

func uniq(xs []string) []string {
	seen := map[string]bool{}
	var out []string
	for _, x := range xs {
		if !seen[x] {
			seen[x] = true
			out = append(out, x)
		}
	}
	return out
}

// isAddMethod: method (s *space) f(src space) with s.head = s.head + src.head and s.proc = s.proc + src.proc.
func (c *coord) isAddMethod(fn *ssa.Function) bool {
	if len(fn.Params) != 2 {
		return false
	}
	fi := c.p.Info(fn)
	got := map[*types.Var]bool{}
	for _, in := range allInstrs(fn) {
		st, ok := in.(*ssa.Store)
		if !ok {
			continue
		}
		fa, ok := st.Addr.(*ssa.FieldAddr)
		if !ok || fa.X != ssa.Value(fn.Params[0]) {
			continue
		}
		f := engine.FieldOf(fa)
		want := engine.LinSum(engine.Sym(fi.FieldPath(fi.T(fn.Params[0]).S, st, f)), engine.Sym(fi.T(fn.Params[1]).S+"."+f.Name()))
		if fi.T(st.Val).S == want.S {
			got[f] = true
		}
	}
	return got[c.fHeadSpace] && got[c.fProcSpace]
}

func controlsC03(p *engine.Prog) []Control { return nil }

// atLeastOne: v is (q + 1) for a quotient q, a conversion of such, or a phi of such values.
func atLeastOne(fi *engine.FuncInfo, v ssa.Value, seen map[ssa.Value]bool) bool {
	if seen[v] {
		return true
	}
	seen[v] = true
	switch x := v.(type) {
	case *ssa.Convert:
		return atLeastOne(fi, x.X, seen)
	case *ssa.Phi:
		for _, e := range x.Edges {
			if !atLeastOne(fi, e, seen) {
				return false
			}
		}
		return true
	case *ssa.BinOp:
		if x.Op == token.ADD {
			for k, o := range []ssa.Value{x.X, x.Y} {
				if t := fi.T(o); t.IsConst() && t.K >= 1 {
					other := []ssa.Value{x.Y, x.X}[k]
					if q, ok := other.(*ssa.BinOp); ok && q.Op == token.QUO {
						return true
					}
				}
			}
		}
	case *ssa.Const:
		t := fi.T(x)
		return t.IsConst() && t.K >= 1
	}
	return false
}

// isCountPhi: v counts things in a loop: a phi whose value is, through further phis, either the constant 0 or one of
// the family plus one (n := 0; for ... { if ... { n++ } }).
func isCountPhi(v ssa.Value) bool {
	root, ok := v.(*ssa.Phi)
	if !ok {
		return false
	}
	fam := map[ssa.Value]bool{}
	okAll, zero, inc := true, false, false
	var walk func(x ssa.Value)
	walk = func(x ssa.Value) {
		if fam[x] {
			return
		}
		switch y := x.(type) {
		case *ssa.Phi:
			fam[y] = true
			for _, e := range y.Edges {
				walk(e)
			}
		case *ssa.Const:
			if y.Value != nil && y.Value.ExactString() == "0" {
				zero = true
			} else {
				okAll = false
			}
		case *ssa.BinOp:
			c, isC := y.Y.(*ssa.Const)
			if y.Op != token.ADD || !isC || c.Value == nil || c.Value.ExactString() != "1" {
				okAll = false
				return
			}
			fam[y] = true
			inc = true
			walk(y.X)
		default:
			okAll = false
		}
	}
	walk(root)
	return okAll && zero && inc
}
