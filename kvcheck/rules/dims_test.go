package rules

import (
	"os"
	"path/filepath"
	"strings"
	"testing"

	"kvcheck/engine"
)

// A miniature of the kvass type vocabulary, so that the seeds of the units inference resolve.
var dimFiles = map[string]string{
	"pkg/shard/t.go": `package shard
type RuntimeInfo struct{ HeadSeries, ProcessSeries int64 }`,
	"pkg/target/t.go": `package target
type ScrapeStatus struct{ Series, TotalSeries int64 }
type Target struct{ Series, TotalSeries int64 }
func NewScrapeStatus(series, total int64) *ScrapeStatus { return &ScrapeStatus{Series: series, TotalSeries: total} }`,
	"pkg/scrape/t.go": `package scrape
type StatisticsSeriesResult struct{ ScrapedTotal, Total float64 }
type MetricSamplesInfo struct{ Total, Scraped float64 }`,
	"pkg/coordinator/t.go": `package coordinator
import (
	"tkestack.io/kvass/pkg/shard"
	"tkestack.io/kvass/pkg/target"
)
type Option struct{ MaxHeadSeries, MaxProcessSeries int64 }
type space struct{ headSpace, processSpace int64 }

func ok(o *Option, r *shard.RuntimeInfo, s *target.ScrapeStatus) bool {
	sp := space{headSpace: s.Series, processSpace: s.TotalSeries}
	return r.HeadSeries+sp.headSpace < o.MaxHeadSeries && r.ProcessSeries+sp.processSpace < o.MaxProcessSeries
}

func mixedCompare(o *Option, s *target.ScrapeStatus) bool { return s.Series > o.MaxProcessSeries }

func mixedStore(r *shard.RuntimeInfo, s *target.ScrapeStatus) { r.ProcessSeries += s.Series }

func swappedArgs(t *target.Target) *target.ScrapeStatus { return target.NewScrapeStatus(t.TotalSeries, t.Series) }

func rate(x int64, f float64) int64 { return int64(float64(x) * f) }

func throughHelper(o *Option, r *shard.RuntimeInfo) bool { return r.ProcessSeries >= rate(o.MaxHeadSeries, 1.0) }
`,
}

func TestDimensionInference(t *testing.T) {
	dir := t.TempDir()
	must := func(err error) {
		if err != nil {
			t.Fatal(err)
		}
	}
	must(os.WriteFile(filepath.Join(dir, "go.mod"), []byte("module "+engine.ModPath+"\n\ngo 1.17\n"), 0644))
	must(os.WriteFile(filepath.Join(dir, "go.sum"), nil, 0644))
	for f, src := range dimFiles {
		must(os.MkdirAll(filepath.Dir(filepath.Join(dir, f)), 0755))
		must(os.WriteFile(filepath.Join(dir, f), []byte(src), 0644))
	}
	p, err := engine.Load(engine.LoadOptions{RepoDir: dir})
	must(err)
	r := engine.NewReport("T", "quick")
	runDims(p, r, "dims", []string{pkgCoord, pkgTarget})
	if len(p.Problems) > 0 {
		t.Fatalf("anchors: %v", p.Problems)
	}
	got := map[string]bool{}
	for _, o := range r.Obligations {
		if o.Status == engine.Violated {
			got[o.Key] = true
		}
	}
	want := []string{"comparison in pkg/coordinator.mixedCompare", "store into ProcessSeries in pkg/coordinator.mixedStore", "pkg/target.NewScrapeStatus", "pkg/coordinator.throughHelper"}
	for _, w := range want {
		found := false
		for k := range got {
			if strings.Contains(k, w) {
				found = true
			}
		}
		if !found {
			t.Errorf("expected a dimension violation mentioning %q; got %v", w, got)
		}
	}
	for k := range got {
		if strings.Contains(k, "coordinator.ok") {
			t.Errorf("false alarm on consistent code: %s", k)
		}
	}
}
