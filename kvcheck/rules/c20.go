package rules

import (
	"fmt"
	"go/token"
	"go/types"
	"strings"

	"golang.org/x/tools/go/ssa"

	"kvcheck/engine"
)

func init() {
	register(&Rule{ID: "C20", Run: runC20, Controls: controlsC20,
		Explanation: "Structural necessary conditions of 'every discovered target gets a series estimate; failed probes are retried', decided on pkg/explore, pkg/scrape and the assigner: " +
			"R20.1 who may enqueue: every send on the explore queue is a blocking send (a dropped enqueue loses the target for ever because the one-shot flag stays set); the first-lookup send happens under ¬exploring with exploring=true stored before it, under the table lock; the flag is never reset; " +
			"R20.2 retry: the retry goroutine is created only under probe error ≠ nil (so after the probe returned and never after a success), sleeps retryInterval before it re-enqueues the very target that was probed, under the lock and only if the hash is still in the table; " +
			"R20.3 estimate on success: the window update and the stores to Target.Series/TotalSeries happen only under error = nil, from the probe's ScrapedTotal/Total respectively; " +
			"R20.4 truthful probe outcome: SetScrapeErr receives the function's final error (not a value captured when the defer statement ran); " +
			"R20.5 the estimate gates assignment: a first assignment happens only for a non-nil status whose health is up; " +
			"R20.6 the probe uses the current job configuration: the scrape manager's job table is rebuilt only from the configuration being applied. " +
			"R20.2 also: between the probe and the scheduling of the retry nothing but 'the probe returned an error' decides (every failed probe of a discovered target is retried). " +
			"Not decided: timing, queue capacity, remove/re-add histories.",
		Assumptions: []string{"go/types and go/ssa are correct", "lock identity is by mutex field, not by instance"}})
}

// deferArgStale reports whether a directly deferred call evaluates argument idx from a local
// variable that is (re)assigned after the defer statement on some path (A13).
func deferArgStale(fi *engine.FuncInfo, d *ssa.Defer, arg ssa.Value) (bool, string) {
	// the argument is a load of a local cell placed at the defer site, or a constant/zero value
	switch a := arg.(type) {
	case *ssa.Const:
		if a.Value == nil {
			return true, "the argument is the constant nil at the defer statement"
		}
	case *ssa.UnOp:
		if al, ok := a.X.(*ssa.Alloc); ok && a.Op == token.MUL {
			for _, rr := range *al.Referrers() {
				if st, ok := rr.(*ssa.Store); ok && st.Addr == ssa.Value(al) && !engine.InstrDominates(st, d) {
					return true, "variable " + al.Comment + " is assigned after the defer statement (" + fi.P.Rel(st.Pos()) + "), the deferred call sees its earlier value"
				}
			}
			// stores in closures
			for _, rr := range *al.Referrers() {
				if _, ok := rr.(*ssa.MakeClosure); ok {
					return true, "variable " + al.Comment + " is shared with a closure and read when the defer statement runs"
				}
			}
		}
	}
	return false, ""
}

// setScrapeErrSites checks every call of ScrapeStatus.SetScrapeErr in the given package.
func checkSetScrapeErr(p *engine.Prog, r *engine.Report, rule, pkg string) int {
	m := p.Method(pkgTarget, "ScrapeStatus", "SetScrapeErr")
	n := 0
	for _, ci := range p.CallsTo(m) {
		fn := ci.Parent()
		if !engine.InPkg(fn, pkg) {
			continue
		}
		n++
		fi := p.Info(fn)
		ck := fmt.Sprintf("SetScrapeErr#%d in %s", n, engine.FuncName(fn))
		args := ci.Common().Args
		errArg := args[len(args)-1]
		if d, ok := ci.(*ssa.Defer); ok {
			stale, why := deferArgStale(fi, d, errArg)
			r.Check(!stale, rule, ck, "deferred SetScrapeErr at "+engine.FuncName(fn)+" ("+p.Rel(ci.Pos())+")", "the error argument is read when the function exits, not when the defer statement runs", why)
			continue
		}
		// a plain call: it must run at function exit with the final value: inside a deferred closure reading
		// the captured variable, or placed after all assignments (dominated by them)
		ok := false
		why := "argument " + fi.T(errArg).S
		if fn.Parent() != nil {
			// deferred closure? the closure must be deferred in its parent
			pfi := fi.Parent
			if pfi != nil && fi.MC != nil {
				for _, rr := range *fi.MC.Referrers() {
					if _, isDefer := rr.(*ssa.Defer); isDefer {
						if u, isLoad := errArg.(*ssa.UnOp); isLoad {
							if _, isFree := u.X.(*ssa.FreeVar); isFree {
								ok = true
								why = "deferred closure reads the captured error variable at exit"
							}
						}
						// a phi/merge computed inside the closure from the captured variable is fine too
						if !ok {
							ok = dependsOnlyOnCaptured(errArg, map[ssa.Value]bool{})
							why = "deferred closure computes the error from captured variables at exit"
						}
					}
				}
			}
		}
		r.Check(ok, rule, ck, "SetScrapeErr at "+engine.FuncName(fn)+" ("+p.Rel(ci.Pos())+")", "runs at function exit (deferred closure) with the final error", why)
	}
	return n
}

func dependsOnlyOnCaptured(v ssa.Value, seen map[ssa.Value]bool) bool {
	if seen[v] {
		return true
	}
	seen[v] = true
	switch x := v.(type) {
	case *ssa.UnOp:
		if _, ok := x.X.(*ssa.FreeVar); ok {
			return true
		}
	case *ssa.Phi:
		for _, e := range x.Edges {
			if !dependsOnlyOnCaptured(e, seen) {
				return false
			}
		}
		return true
	case *ssa.Call, *ssa.Const, *ssa.MakeInterface:
		return true
	}
	return false
}

func runC20(p *engine.Prog, r *engine.Report) {
	fQueue := p.Field(pkgExpl, "Explore", "needExplore")
	fTargets := p.Field(pkgExpl, "Explore", "targets")
	fRetry := p.Field(pkgExpl, "Explore", "retryInterval")
	fExploreFn := p.Field(pkgExpl, "Explore", "explore")
	fExploring := p.Field(pkgExpl, "exploringTarget", "exploring")
	fRt := p.Field(pkgExpl, "exploringTarget", "rt")
	fTarget := p.Field(pkgExpl, "exploringTarget", "target")
	fTSeries := p.Field(pkgTarget, "Target", "Series")
	fTTotal := p.Field(pkgTarget, "Target", "TotalSeries")
	fScraped := p.Field(pkgScrape, "StatisticsSeriesResult", "ScrapedTotal")
	fTotal := p.Field(pkgScrape, "StatisticsSeriesResult", "Total")
	mUpdate := p.Method(pkgTarget, "ScrapeStatus", "UpdateScrapeResult")
	fJobs := p.Field(pkgScrape, "Manager", "jobs")
	if len(p.Problems) > 0 {
		return
	}
	lockKey := "tkestack.io/kvass/pkg/explore.Explore.targetsLock"
	r.Min("R20.1-enqueue", 3)
	r.Min("R20.2-retry", 1)
	r.Min("R20.3-estimate-on-success", 1)
	r.Min("R20.4-truthful-outcome", 1)
	r.Min("R20.5-estimate-gates", 1)
	r.Min("R20.6-current-job-config", 1)

	isQueue := func(v ssa.Value) bool { _, ok := loadOfField(v, fQueue); return ok }
	var explFuncs []*ssa.Function
	for _, fn := range p.Funcs {
		if engine.InPkg(fn, pkgExpl) {
			explFuncs = append(explFuncs, fn)
		}
	}
	// the probe: method calling the injected explore function
	var probe *ssa.Function
	var probeCall *ssa.Call
	for _, fn := range explFuncs {
		for _, in := range allInstrs(fn) {
			if call, ok := in.(*ssa.Call); ok {
				if _, ok := loadOfField(call.Call.Value, fExploreFn); ok {
					probe, probeCall = fn, call
				}
			}
		}
	}

	// ---- R20.1 / R20.2
	nSend := 0
	for _, fn := range explFuncs {
		fi := p.Info(fn)
		for _, in := range allInstrs(fn) {
			switch in := in.(type) {
			case *ssa.Select:
				for _, st := range in.States {
					if st.Dir == types.SendOnly && isQueue(st.Chan) {
						nSend++
						r.Add("R20.1-enqueue", fmt.Sprintf("select-send#%d in %s", nSend, engine.FuncName(fn)), "send on the explore queue inside a select at "+engine.FuncName(fn)+" ("+p.Rel(in.Pos())+")",
							"every enqueue is a blocking send (nothing re-enqueues a target whose exploring flag is already set)", map[bool]string{true: "blocking select with other cases", false: "non-blocking select: the enqueue can be dropped"}[in.Blocking], engine.Violated)
					}
				}
			case *ssa.Send:
				if !isQueue(in.Chan) {
					continue
				}
				nSend++
				held := p.HeldAt(in)
				ent := fi.T(in.X).S
				notExploring := engine.Not(engine.TrueAtom(fi.FieldPath(ent, in, fExploring)))
				// classify: first lookup when the flag is tested on the path
				flagStore := false
				for _, in2 := range allInstrs(fn) {
					if st, ok := in2.(*ssa.Store); ok {
						if fa, ok := st.Addr.(*ssa.FieldAddr); ok && engine.FieldOf(fa) == fExploring && isConstBool(st.Val, true) && fi.T(fa.X).S == ent && engine.InstrDominates(st, in) {
							flagStore = true
						}
					}
				}
				if flagStore {
					ck := fmt.Sprintf("first-lookup send in %s", engine.FuncName(fn))
					var probs []string
					// the flag test precedes the flag store: evaluate ¬exploring as of the store
					okFlag := false
					for _, in2 := range allInstrs(fn) {
						if st, ok := in2.(*ssa.Store); ok {
							if fa, ok := st.Addr.(*ssa.FieldAddr); ok && engine.FieldOf(fa) == fExploring && fi.T(fa.X).S == ent {
								ne := engine.Not(engine.TrueAtom(fi.FieldPath(ent, st, fExploring)))
								if ok, _ := fi.Implies(st.Block(), ne); ok {
									okFlag = true
								}
							}
						}
					}
					_ = notExploring
					if !okFlag {
						probs = append(probs, "the flag is set and the target enqueued without testing ¬exploring first (a target could be probed twice concurrently)")
					}
					if !held[lockKey] {
						probs = append(probs, "the table lock is not held (held: "+strings.Join(held.Names(), ",")+")")
					}
					// the entry is the table's entry for the requested hash
					if _, ok := in.X.(*ssa.Lookup); !ok {
						probs = append(probs, "the enqueued value is not the table entry looked up")
					}
					r.Check(len(probs) == 0, "R20.1-enqueue", ck, "send at "+engine.FuncName(fn)+" ("+p.Rel(in.Pos())+")", "¬exploring tested, exploring=true stored before the send, under the table lock", strings.Join(probs, "; "))
					continue
				}
				// retry send
				ck := fmt.Sprintf("retry send in %s", engine.FuncName(fn))
				var probs []string
				if fn.Parent() == nil || fi.MC == nil {
					probs = append(probs, "a send that is neither the first lookup (no exploring=true store before it) nor inside the retry closure")
					r.Check(false, "R20.2-retry", ck, "send at "+engine.FuncName(fn)+" ("+p.Rel(in.Pos())+")", "the only other enqueue is the retry goroutine", strings.Join(probs, "; "))
					continue
				}
				pfi := fi.Parent
				// created under probe error != nil
				var pc *ssa.Call
				if probe != nil {
					for _, ci := range callsIn(pfi.Fn, probe.Object().(*types.Func)) {
						if call, ok := ci.(*ssa.Call); ok {
							pc = call
						}
					}
				}
				if pc == nil {
					probs = append(probs, "the creating function does not call the probe")
				} else {
					needErr := engine.Not(engine.EqAtom(pfi.T(pc).S, "nil"))
					if ok, have := pfi.Implies(fi.MC.Block(), needErr); !ok {
						probs = append(probs, "the retry is scheduled without 'probe returned an error' on the path: "+strings.Join(nonStructural(have), " ∧ "))
					}
					// ... and for every probe error: nothing else decides between the probe and the scheduling
					before := map[string]bool{}
					for _, g := range pfi.Guards(pc.Block()) {
						before[g] = true
					}
					errT := pfi.T(pc).S
					for _, g := range nonStructural(pfi.Guards(fi.MC.Block())) {
						if before[g] || strings.Contains(g, "eq("+min2(errT, "nil")+","+max2(errT, "nil")+")") {
							continue
						}
						probs = append(probs, "a failed probe is retried only when "+short(g)+" (every failed probe of a discovered target must be retried)")
					}
					// same target as probed
					if len(pc.Call.Args) > 0 && fi.T(in.X).S != pfi.T(pc.Call.Args[len(pc.Call.Args)-1]).S {
						probs = append(probs, "the re-enqueued value "+fi.T(in.X).S+" is not the target that was probed")
					}
				}
				// the goroutine outlives the iteration that created it: a captured variable that later iterations
				// assign again would make it re-enqueue whatever the worker handled last
				if lp := loopOf(pfi, fi.MC.Block()); lp != nil {
					for _, b := range fi.MC.Bindings {
						al, ok := b.(*ssa.Alloc)
						if !ok || lp.blocks[al.Block().Index] {
							continue
						}
						for _, rr := range *al.Referrers() {
							if st, ok := rr.(*ssa.Store); ok && st.Addr == ssa.Value(al) && lp.blocks[st.Block().Index] {
								probs = append(probs, "the retry goroutine captures variable "+al.Comment+", which is declared outside the worker loop and assigned again by later iterations (at "+p.Rel(st.Pos())+"): after the sleep it holds another target")
							}
						}
					}
				}
				isGo := false
				for _, rr := range *fi.MC.Referrers() {
					if _, ok := rr.(*ssa.Go); ok {
						isGo = true
					}
				}
				if !isGo {
					probs = append(probs, "the retry closure is not started as a goroutine (the worker would block for the retry interval)")
				}
				// sleep(retryInterval) dominates the send
				slept := false
				for _, in2 := range allInstrs(fn) {
					if call, ok := in2.(*ssa.Call); ok && engine.CalleeIs(call.Common(), "time", "", "Sleep") {
						if _, ok := loadOfField(call.Call.Args[0], fRetry); ok && engine.InstrDominates(call, in) {
							slept = true
						}
					}
				}
				if !slept {
					probs = append(probs, "no time.Sleep(retryInterval) precedes the re-enqueue")
				}
				if !held[lockKey] {
					probs = append(probs, "the table lock is not held at the re-enqueue (held: "+strings.Join(held.Names(), ",")+")")
				}
				// still in the table
				still := false
				for _, g := range fi.Guards(in.Block()) {
					if strings.HasPrefix(g, "¬eq(") && strings.Contains(g, "."+fTargets.Name()+"[") && strings.Contains(g, "nil") {
						still = true
					}
				}
				if !still {
					probs = append(probs, "the re-enqueue is not conditional on the hash still being in the table")
				}
				r.Check(len(probs) == 0, "R20.2-retry", ck, "send at "+engine.FuncName(fn)+" ("+p.Rel(in.Pos())+")",
					"retry goroutine created only under probe error, sleeps retryInterval, re-enqueues the probed target under the lock if still present", strings.Join(probs, "; "))
				r.Add("R20.1-enqueue", ck, "send at "+engine.FuncName(fn)+" ("+p.Rel(in.Pos())+")", "blocking send", "ssa.Send", engine.Discharged)
			}
		}
	}
	// the flag is never reset
	nReset := 0
	for _, fn := range p.Funcs {
		for _, in := range allInstrs(fn) {
			if st, ok := in.(*ssa.Store); ok {
				if fa, ok := st.Addr.(*ssa.FieldAddr); ok && engine.FieldOf(fa) == fExploring && !isConstBool(st.Val, true) {
					nReset++
					r.Add("R20.1-enqueue", fmt.Sprintf("flag reset#%d in %s", nReset, engine.FuncName(fn)), "store to exploringTarget.exploring at "+p.Rel(st.Pos()), "the one-shot flag is only ever set to true (after a success no further probes)", "stores "+p.Info(fn).T(st.Val).S, engine.Violated)
				}
			}
		}
	}
	r.Add("R20.1-enqueue", "writers of exploringTarget.exploring", "who-may-write table", "only stores of true", fmt.Sprintf("%d other stores", nReset), engine.Discharged)

	// ---- R20.3
	if probe == nil {
		r.Add("R20.3-estimate-on-success", "probe", "pkg/explore", "a method calling the injected explore function", "not found", engine.Undecided)
	} else {
		fi := p.Info(probe)
		ck := "probe " + engine.FuncName(probe)
		var probs []string
		// error nil literal for the probe call's error
		errNil := func(b *ssa.BasicBlock) bool {
			for _, g := range fi.Guards(b) {
				if !strings.HasPrefix(g, "eq(") || !strings.Contains(g, "nil") {
					continue
				}
				// the error of the probe call, directly or through the variable it was stored to
				if strings.Contains(g, fi.T(probeCall).S+".1") {
					return true
				}
				if ex := extractOf(probeCall, 1); ex != nil {
					for _, rr := range *ex.Referrers() {
						if st, ok := rr.(*ssa.Store); ok {
							if al, ok := st.Addr.(*ssa.Alloc); ok && strings.Contains(g, "local:"+al.Name()) {
								return true
							}
						}
					}
				}
			}
			return false
		}
		nUpd := 0
		for _, ci := range callsIn(probe, mUpdate) {
			nUpd++
			if !errNil(ci.Block()) {
				probs = append(probs, "the window update at "+p.Rel(ci.Pos())+" is reachable with a failed probe")
			}
			if _, ok := loadOfField(recvOf(ci), fRt); !ok {
				probs = append(probs, "the window update is not on the target's own status")
			}
		}
		if nUpd == 0 {
			probs = append(probs, "the probe never updates the status window")
		}
		got := map[*types.Var]bool{}
		for _, in := range allInstrs(probe) {
			st, ok := in.(*ssa.Store)
			if !ok {
				continue
			}
			fa, ok := st.Addr.(*ssa.FieldAddr)
			if !ok {
				continue
			}
			f := engine.FieldOf(fa)
			if f != fTSeries && f != fTTotal {
				continue
			}
			if _, ok := loadOfField(fa.X, fTarget); !ok {
				probs = append(probs, "estimate stored into a target other than the probed one")
			}
			if !errNil(st.Block()) {
				probs = append(probs, "Target."+f.Name()+" is written on a path where the probe failed")
			}
			want := fScraped
			if f == fTTotal {
				want = fTotal
			}
			src := st.Val
			if cv, ok := src.(*ssa.Convert); ok {
				src = cv.X
			}
			if _, ok := loadOfField(src, want); ok {
				got[f] = true
			} else {
				probs = append(probs, "Target."+f.Name()+" is set from "+fi.T(st.Val).S+", not from the probe's "+want.Name())
			}
		}
		if !got[fTSeries] || !got[fTTotal] {
			probs = append(probs, "the probe does not store both Series and TotalSeries estimates")
		}
		r.Check(len(probs) == 0, "R20.3-estimate-on-success", ck, engine.FuncName(probe)+" ("+p.Rel(probe.Pos())+")",
			"under error = nil: status window updated, Target.Series = ScrapedTotal (after relabel), Target.TotalSeries = Total (before relabel)", strings.Join(probs, "; "))
	}

	// ---- R20.4
	checkSetScrapeErr(p, r, "R20.4-truthful-outcome", pkgExpl)

	// ---- R20.5
	c := newCoord(p)
	if len(p.Problems) == 0 {
		for _, mw := range c.mapWrites {
			fn := mw.Parent()
			d, _ := loadOfField(mw.Map, c.fScraping)
			if _, ok := d.(*ssa.Call); !ok {
				continue
			}
			fi := p.Info(fn)
			e := fi.T(mw.Value).S
			need := engine.And(engine.Not(engine.EqAtom(e, "nil")), engine.EqAtom(fi.FieldPath(e, mw, c.fHealth), `"up"`))
			ok, have := fi.Implies(mw.Block(), need)
			r.Check(ok, "R20.5-estimate-gates", "assigner "+engine.FuncName(fn), "first assignment at "+c.at(mw), "status != nil ∧ status.Health == up", "path condition: "+strings.Join(nonStructural(have), " ∧ "))
		}
	}

	// ---- R20.6 job table rebuilt from the applied configuration only
	newJob := p.FuncObj(pkgScrape, "newJobInfo")
	nJ := 0
	for _, fn := range p.Funcs {
		if !engine.InPkg(fn, pkgScrape) {
			continue
		}
		fi := p.Info(fn)
		for _, in := range allInstrs(fn) {
			st, ok := in.(*ssa.Store)
			if !ok {
				continue
			}
			fa, ok := st.Addr.(*ssa.FieldAddr)
			if !ok || engine.FieldOf(fa) != fJobs {
				continue
			}
			if fn.Name() == "New" || strings.HasPrefix(fn.Name(), "New") {
				continue
			}
			nJ++
			ck := fmt.Sprintf("job table store#%d in %s", nJ, engine.FuncName(fn))
			var probs []string
			mm, ok := st.Val.(*ssa.MakeMap)
			if !ok {
				probs = append(probs, "the installed table is not a fresh map ("+fi.T(st.Val).S+")")
			} else {
				for _, rr := range *mm.Referrers() {
					mu, ok := rr.(*ssa.MapUpdate)
					if !ok || mu.Map != ssa.Value(mm) {
						continue
					}
					okv := false
					if ex, ok := mu.Value.(*ssa.Extract); ok && ex.Index == 0 {
						if call, ok := ex.Tuple.(*ssa.Call); ok && engine.CalleeObj(call.Common()) == newJob {
							// argument 0: the scrape config of the configuration being applied (a parameter-rooted value)
							if strings.HasPrefix(fi.T(call.Call.Args[0]).S, "*"+fi.T(fn.Params[len(fn.Params)-1]).S) || strings.Contains(fi.T(call.Call.Args[0]).S, fi.T(fn.Params[len(fn.Params)-1]).S+".") {
								okv = true
							} else {
								probs = append(probs, "newJobInfo is given "+fi.T(call.Call.Args[0]).S+", not a job of the configuration being applied")
							}
						}
					}
					if !okv && len(probs) == 0 {
						probs = append(probs, "a job entry is taken from "+fi.T(mu.Value).S+" instead of being rebuilt from the applied configuration (stale relabel rules would be used for the estimate)")
					}
				}
			}
			r.Check(len(probs) == 0, "R20.6-current-job-config", ck, "store to scrape.Manager.jobs at "+engine.FuncName(fn)+" ("+p.Rel(st.Pos())+")",
				"a fresh table whose every entry is newJobInfo(job of the configuration being applied)", strings.Join(probs, "; "))
		}
	}
}

func controlsC20(p *engine.Prog) []Control { return nil }
