package rules

import (
	"go/token"
	"go/types"
	"strings"

	"golang.org/x/tools/go/ssa"

	"kvcheck/engine"
)

const (
	pkgCoord  = "pkg/coordinator"
	pkgShard  = "pkg/shard"
	pkgTarget = "pkg/target"
	pkgSide   = "pkg/sidecar"
	pkgScrape = "pkg/scrape"
	pkgDisc   = "pkg/discovery"
	pkgExpl   = "pkg/explore"
	pkgProm   = "pkg/prom"
	pkgK8s    = "pkg/shard/kubernetes"
)

// coord gathers the anchors and roles of pkg/coordinator (discovered by effect, not by name).
type coord struct {
	p *engine.Prog

	shardInfo                                                               *types.Named
	fChangeAble, fShard, fRuntime, fScraping, fNewTargets                   *types.Var
	fMaxHead, fMaxProc, fMaxShard, fMinShard, fMaxIdle                      *types.Var
	fHeadSpace, fProcSpace                                                  *types.Var
	fHead, fProc, fCfgHash, fIdleStart                                      *types.Var // shard.RuntimeInfo
	fSeries, fTotal, fState, fTimes, fHealth                                *types.Var // target.ScrapeStatus
	mTargetStatus, mRuntimeInfo, mUpdateConfig, mUpdateTarget, mUpdateExtra *types.Func
	mShards, mChangeScale                                                   *types.Func

	funcs []*ssa.Function // all functions of pkg/coordinator (incl. closures)

	mapWrites    []*ssa.MapUpdate       // m[k]=v with m loaded from shardInfo.scraping
	mapDeletes   []*ssa.Call            // delete(m,k) with m loaded from shardInfo.scraping
	fieldStores  []*ssa.Store           // whole-field stores to shardInfo.scraping
	filters      map[*ssa.Function]bool // []*shardInfo -> []*shardInfo keeping only changeAble elements
	listBuilders map[*ssa.Function]bool // functions returning the unfiltered list (one shardInfo per shard)
}

func newCoord(p *engine.Prog) *coord {
	c := &coord{p: p, filters: map[*ssa.Function]bool{}, listBuilders: map[*ssa.Function]bool{}}
	c.shardInfo = p.Named(pkgCoord, "shardInfo")
	c.fChangeAble = p.Field(pkgCoord, "shardInfo", "changeAble")
	c.fShard = p.Field(pkgCoord, "shardInfo", "shard")
	c.fRuntime = p.Field(pkgCoord, "shardInfo", "runtime")
	c.fScraping = p.Field(pkgCoord, "shardInfo", "scraping")
	c.fNewTargets = p.Field(pkgCoord, "shardInfo", "newTargets")
	c.fMaxHead = p.Field(pkgCoord, "Option", "MaxHeadSeries")
	c.fMaxProc = p.Field(pkgCoord, "Option", "MaxProcessSeries")
	c.fMaxShard = p.Field(pkgCoord, "Option", "MaxShard")
	c.fMinShard = p.Field(pkgCoord, "Option", "MinShard")
	c.fMaxIdle = p.Field(pkgCoord, "Option", "MaxIdleTime")
	c.fHeadSpace = p.Field(pkgCoord, "space", "headSpace")
	c.fProcSpace = p.Field(pkgCoord, "space", "processSpace")
	c.fHead = p.Field(pkgShard, "RuntimeInfo", "HeadSeries")
	c.fProc = p.Field(pkgShard, "RuntimeInfo", "ProcessSeries")
	c.fCfgHash = p.Field(pkgShard, "RuntimeInfo", "ConfigHash")
	c.fIdleStart = p.Field(pkgShard, "RuntimeInfo", "IdleStartAt")
	c.fSeries = p.Field(pkgTarget, "ScrapeStatus", "Series")
	c.fTotal = p.Field(pkgTarget, "ScrapeStatus", "TotalSeries")
	c.fState = p.Field(pkgTarget, "ScrapeStatus", "TargetState")
	c.fTimes = p.Field(pkgTarget, "ScrapeStatus", "ScrapeTimes")
	c.fHealth = p.Field(pkgTarget, "ScrapeStatus", "Health")
	c.mTargetStatus = p.Method(pkgShard, "Shard", "TargetStatus")
	c.mRuntimeInfo = p.Method(pkgShard, "Shard", "RuntimeInfo")
	c.mUpdateConfig = p.Method(pkgShard, "Shard", "UpdateConfig")
	c.mUpdateTarget = p.Method(pkgShard, "Shard", "UpdateTarget")
	c.mUpdateExtra = p.Method(pkgShard, "Shard", "UpdateExtraConfig")
	c.mShards = p.Method(pkgShard, "Manager", "Shards")
	c.mChangeScale = p.Method(pkgShard, "Manager", "ChangeScale")
	if len(p.Problems) > 0 {
		return c
	}
	for _, fn := range p.Funcs {
		if engine.InPkg(fn, pkgCoord) {
			c.funcs = append(c.funcs, fn)
		}
	}
	for _, fn := range c.funcs {
		for _, b := range fn.Blocks {
			for _, in := range b.Instrs {
				switch in := in.(type) {
				case *ssa.MapUpdate:
					if _, ok := loadOfField(in.Map, c.fScraping); ok {
						c.mapWrites = append(c.mapWrites, in)
					}
				case *ssa.Call:
					if bi, ok := in.Call.Value.(*ssa.Builtin); ok && bi.Name() == "delete" {
						if _, ok := loadOfField(in.Call.Args[0], c.fScraping); ok {
							c.mapDeletes = append(c.mapDeletes, in)
						}
					}
				case *ssa.Store:
					if fa, ok := in.Addr.(*ssa.FieldAddr); ok && engine.FieldOf(fa) == c.fScraping {
						c.fieldStores = append(c.fieldStores, in)
					}
				}
			}
		}
	}
	c.findFilters()
	return c
}

// loadOfField: v is a load (*p.f) of the given field; returns the struct pointer p.
func loadOfField(v ssa.Value, f *types.Var) (ssa.Value, bool) {
	u, ok := v.(*ssa.UnOp)
	if !ok || u.Op != token.MUL {
		return nil, false
	}
	fa, ok := u.X.(*ssa.FieldAddr)
	if !ok || engine.FieldOf(fa) != f {
		return nil, false
	}
	return fa.X, true
}

func isSliceOfPtrTo(t types.Type, n *types.Named) bool {
	s, ok := t.Underlying().(*types.Slice)
	if !ok {
		return false
	}
	return isPtrTo(s.Elem(), n)
}

func isPtrTo(t types.Type, n *types.Named) bool {
	p, ok := t.Underlying().(*types.Pointer)
	if !ok {
		return false
	}
	nn, ok := p.Elem().(*types.Named)
	return ok && nn.Obj() == n.Obj()
}

// findFilters finds functions []*shardInfo -> []*shardInfo whose every appended element e has
// PC(append) ⇒ e.changeAble, and whose result is only built from such appends (role "filter"),
// and functions that return a slice made with one shardInfo per *shard.Shard (role "list builder").
func (c *coord) findFilters() {
	for _, fn := range c.funcs {
		sig := fn.Signature
		if sig.Results().Len() != 1 || !isSliceOfPtrTo(sig.Results().At(0).Type(), c.shardInfo) {
			continue
		}
		fi := c.p.Info(fn)
		okAll, nApp := true, 0
		for _, b := range fn.Blocks {
			for _, in := range b.Instrs {
				switch in := in.(type) {
				case *ssa.Call:
					bi, ok := in.Call.Value.(*ssa.Builtin)
					if !ok || bi.Name() != "append" || !isSliceOfPtrTo(in.Type(), c.shardInfo) {
						continue
					}
					nApp++
					// appended elements: stores into the varargs array
					elems := varargElems(in.Call.Args[1])
					if len(elems) == 0 {
						okAll = false
					}
					for _, e := range elems {
						need := engine.TrueAtom(fi.T(e).S + "." + c.fChangeAble.Name())
						if ok, _ := fi.Implies(in.Block(), need); !ok {
							okAll = false
						}
					}
				case *ssa.Return:
					// result must be rooted in make/nil + appends
					if !rootedInFreshSlice(in.Results[0], map[ssa.Value]bool{}) {
						okAll = false
					}
				}
			}
		}
		if okAll && nApp > 0 {
			c.filters[fn] = true
		}
	}
}

// varargElems returns the values stored into the fresh array behind a "slice t[:]" varargs operand.
func varargElems(v ssa.Value) []ssa.Value {
	sl, ok := v.(*ssa.Slice)
	if !ok {
		return nil
	}
	al, ok := sl.X.(*ssa.Alloc)
	if !ok {
		return nil
	}
	var out []ssa.Value
	for _, r := range *al.Referrers() {
		if ia, ok := r.(*ssa.IndexAddr); ok {
			for _, rr := range *ia.Referrers() {
				if st, ok := rr.(*ssa.Store); ok && st.Addr == ia {
					out = append(out, st.Val)
				}
			}
		}
	}
	return out
}

func rootedInFreshSlice(v ssa.Value, seen map[ssa.Value]bool) bool {
	if seen[v] {
		return true
	}
	seen[v] = true
	switch v := v.(type) {
	case *ssa.Phi:
		for _, e := range v.Edges {
			if !rootedInFreshSlice(e, seen) {
				return false
			}
		}
		return true
	case *ssa.Call:
		if bi, ok := v.Call.Value.(*ssa.Builtin); ok && bi.Name() == "append" {
			return rootedInFreshSlice(v.Call.Args[0], seen)
		}
	case *ssa.MakeSlice:
		return true
	case *ssa.Slice:
		if al, ok := v.X.(*ssa.Alloc); ok && strings.Contains(al.Comment, "makeslice") {
			return true
		}
	case *ssa.Const:
		return v.Value == nil
	}
	return false
}

// ---------------------------------------------------------------------------
// provenance: is a *shardInfo value certified in-sync (changeAble) at an instruction?

type caCtx struct {
	c     *coord
	depth int
	seen  map[string]bool
}

// certified reports whether the *shardInfo value v is known to have changeAble==true at instruction 'at'
// in function fn. why describes the derivation or the failure.
func (c *coord) certified(fn *ssa.Function, v ssa.Value, at ssa.Instruction) (bool, string) {
	return (&caCtx{c: c, seen: map[string]bool{}}).value(fn, v, at)
}

func (x *caCtx) value(fn *ssa.Function, v ssa.Value, at ssa.Instruction) (bool, string) {
	c := x.c
	fi := c.p.Info(fn)
	key := "v:" + fn.String() + ":" + v.Name() + ":" + fi.T(v).S
	if x.seen[key] {
		return true, "cycle"
	}
	x.seen[key] = true
	if x.depth > 6 {
		return false, "inlining bound exceeded"
	}
	// (1) guard on the path
	need := engine.TrueAtom(fi.T(v).S + "." + c.fChangeAble.Name())
	if ok, _ := fi.Implies(at.Block(), need); ok {
		return true, "guarded by " + need.String()
	}
	switch v := v.(type) {
	case *ssa.UnOp:
		if v.Op == token.MUL {
			// element of a certified slice
			if ia, ok := v.X.(*ssa.IndexAddr); ok {
				return x.slice(fn, ia.X, at)
			}
			// captured variable / single-store local
			if al, ok := v.X.(*ssa.Alloc); ok {
				if sv := fi.SingleStore(al, v); sv != nil {
					return x.value(fn, sv, at)
				}
			}
			if fv, ok := v.X.(*ssa.FreeVar); ok && fi.Parent != nil && fi.MC != nil {
				for i, f := range fn.FreeVars {
					if f == fv {
						if al, ok := fi.MC.Bindings[i].(*ssa.Alloc); ok {
							if sv := singleStoreOf(al); sv != nil {
								return x.value(fn.Parent(), sv, fi.MC)
							}
						}
					}
				}
			}
		}
	case *ssa.Parameter:
		return x.param(fn, v)
	case *ssa.Phi:
		for _, e := range v.Edges {
			if cst, ok := e.(*ssa.Const); ok && cst.Value == nil {
				continue
			}
			if ok, why := x.value(fn, e, at); !ok {
				return false, why
			}
		}
		return true, "all phi edges certified"
	case *ssa.Call:
		if callee := v.Call.StaticCallee(); callee != nil && callee.Blocks != nil && engine.InPkg(callee, pkgCoord) {
			return x.result(callee)
		}
	case *ssa.TypeAssert:
		return x.picked(fn, v)
	}
	return false, "no guard '" + need.String() + "' on the path and no certified provenance for " + fi.T(v).S
}

func singleStoreOf(al *ssa.Alloc) ssa.Value {
	var st *ssa.Store
	for _, r := range *al.Referrers() {
		if s, ok := r.(*ssa.Store); ok && s.Addr == al {
			if st != nil {
				return nil
			}
			st = s
		}
	}
	if st == nil {
		return nil
	}
	return st.Val
}

func (x *caCtx) slice(fn *ssa.Function, s ssa.Value, at ssa.Instruction) (bool, string) {
	c := x.c
	switch s := s.(type) {
	case *ssa.Call:
		if callee := s.Call.StaticCallee(); callee != nil && c.filters[callee] {
			return true, "element of the result of filter " + engine.FuncName(callee)
		}
	case *ssa.Slice:
		return x.slice(fn, s.X, at)
	case *ssa.Parameter:
		return x.param(fn, s)
	case *ssa.Phi:
		for _, e := range s.Edges {
			if ok, why := x.slice(fn, e, at); !ok {
				return false, why
			}
		}
		return true, "all phi edges certified"
	case *ssa.UnOp:
		if s.Op == token.MUL {
			fi := c.p.Info(fn)
			if al, ok := s.X.(*ssa.Alloc); ok {
				if sv := fi.SingleStore(al, s); sv != nil {
					return x.slice(fn, sv, at)
				}
			}
			if fv, ok := s.X.(*ssa.FreeVar); ok && fi.Parent != nil && fi.MC != nil {
				for i, f := range fn.FreeVars {
					if f == fv {
						if al, ok := fi.MC.Bindings[i].(*ssa.Alloc); ok {
							if sv := singleStoreOf(al); sv != nil {
								return x.slice(fn.Parent(), sv, fi.MC)
							}
						}
					}
				}
			}
		}
	}
	return false, "slice " + c.p.Info(fn).T(s).S + " is not the result of the in-sync filter"
}

// param: every call site passes a certified argument.
func (x *caCtx) param(fn *ssa.Function, pv *ssa.Parameter) (bool, string) {
	c := x.c
	idx := -1
	for i, q := range fn.Params {
		if q == pv {
			idx = i
		}
	}
	if idx < 0 {
		return false, "parameter not found"
	}
	sites := 0
	x.depth++
	defer func() { x.depth-- }()
	for _, caller := range c.funcs {
		for _, b := range caller.Blocks {
			for _, in := range b.Instrs {
				ci, ok := in.(ssa.CallInstruction)
				if !ok || ci.Common().StaticCallee() != fn {
					continue
				}
				sites++
				arg := ci.Common().Args[idx]
				var ok2 bool
				var why string
				if isSliceOfPtrTo(arg.Type(), c.shardInfo) {
					ok2, why = x.slice(caller, arg, ci)
				} else {
					ok2, why = x.value(caller, arg, ci)
				}
				if !ok2 {
					return false, "call in " + engine.FuncName(caller) + " (" + c.p.Rel(ci.Pos()) + "): " + why
				}
			}
		}
	}
	// the function must not be used as a value (unknown callers)
	if fnUsedAsValue(c.p, fn) {
		return false, engine.FuncName(fn) + " is used as a function value"
	}
	if sites == 0 {
		return false, "no call sites of " + engine.FuncName(fn)
	}
	return true, "all call sites pass certified values"
}

func fnUsedAsValue(p *engine.Prog, fn *ssa.Function) bool {
	for _, f := range p.Funcs {
		for _, b := range f.Blocks {
			for _, in := range b.Instrs {
				for _, op := range in.Operands(nil) {
					if *op == ssa.Value(fn) {
						if ci, ok := in.(ssa.CallInstruction); ok && ci.Common().Value == ssa.Value(fn) {
							continue
						}
						return true
					}
				}
			}
		}
	}
	return false
}

// result: every non-nil *shardInfo returned by callee is certified.
func (x *caCtx) result(callee *ssa.Function) (bool, string) {
	x.depth++
	defer func() { x.depth-- }()
	for _, b := range callee.Blocks {
		for _, in := range b.Instrs {
			ret, ok := in.(*ssa.Return)
			if !ok {
				continue
			}
			for _, rv := range ret.Results {
				if !isPtrTo(rv.Type(), x.c.shardInfo) {
					continue
				}
				if cst, ok := rv.(*ssa.Const); ok && cst.Value == nil {
					continue
				}
				if ok, why := x.value(callee, rv, ret); !ok {
					return false, "result of " + engine.FuncName(callee) + ": " + why
				}
			}
		}
	}
	return true, "every result of " + engine.FuncName(callee) + " is certified"
}

// picked: v = chooser.Pick().(*shardInfo) where the chooser is built in this function from Choice
// values whose Item is certified at the point it is stored. Library summary (reviewed in
// github.com/mroth/weightedrand v0.4.1): Pick returns the Item of one of the Choices given to NewChooser.
func (x *caCtx) picked(fn *ssa.Function, ta *ssa.TypeAssert) (bool, string) {
	items := pickedItems(fn, ta)
	if items == nil {
		return false, "type assertion is not on the result of weightedrand Chooser.Pick of a locally built chooser"
	}
	for _, st := range items {
		mi, ok := st.Val.(*ssa.MakeInterface)
		if !ok {
			return false, "Choice.Item is not a direct *shardInfo"
		}
		if ok, why := x.value(fn, mi.X, st); !ok {
			return false, "Choice.Item stored at " + x.c.p.Rel(st.Pos()) + ": " + why
		}
	}
	return true, "every Choice.Item is certified"
}

// pickedItems returns the stores to weightedrand.Choice.Item in fn if v is Pick() of a chooser whose
// choices are all built in fn (slice rooted in a fresh slice); nil otherwise.
func pickedItems(fn *ssa.Function, ta *ssa.TypeAssert) []*ssa.Store {
	// the Item of one of the locally collected choices taken directly (cs[i].Item): same provenance as a pick
	if u, ok := ta.X.(*ssa.UnOp); ok {
		if fa, ok := u.X.(*ssa.FieldAddr); ok {
			f := engine.FieldOf(fa)
			if ia, ok := fa.X.(*ssa.IndexAddr); ok && f.Name() == "Item" && f.Pkg() != nil && f.Pkg().Path() == "github.com/mroth/weightedrand" && rootedInFreshSlice(ia.X, map[ssa.Value]bool{}) {
				return choiceItemStores(fn)
			}
		}
	}
	call, ok := ta.X.(*ssa.Call)
	if !ok || !engine.CalleeIs(call.Common(), "github.com/mroth/weightedrand", "Chooser", "Pick") {
		return nil
	}
	// receiver: *extract(NewChooser(cs...))#0
	var nc *ssa.Call
	var find func(v ssa.Value, d int)
	find = func(v ssa.Value, d int) {
		if d > 6 || nc != nil {
			return
		}
		switch v := v.(type) {
		case *ssa.Call:
			if engine.CalleeIs(v.Common(), "github.com/mroth/weightedrand", "", "NewChooser") {
				nc = v
			}
		case *ssa.Extract:
			find(v.Tuple, d+1)
		case *ssa.UnOp:
			find(v.X, d+1)
		}
	}
	if len(call.Call.Args) == 0 {
		return nil
	}
	find(call.Call.Args[0], 0)
	if nc == nil || !rootedInFreshSlice(nc.Call.Args[0], map[ssa.Value]bool{}) {
		return nil
	}
	return choiceItemStores(fn)
}

func choiceItemStores(fn *ssa.Function) []*ssa.Store {
	var items []*ssa.Store
	for _, b := range fn.Blocks {
		for _, in := range b.Instrs {
			st, ok := in.(*ssa.Store)
			if !ok {
				continue
			}
			if fa, ok := st.Addr.(*ssa.FieldAddr); ok {
				f := engine.FieldOf(fa)
				if f.Name() == "Item" && f.Pkg() != nil && f.Pkg().Path() == "github.com/mroth/weightedrand" {
					items = append(items, st)
				}
			}
		}
	}
	if len(items) == 0 {
		return nil
	}
	return items
}

// describe returns "kind in Func (file:line)".
func (c *coord) at(in ssa.Instruction) string {
	return engine.FuncName(in.Parent()) + " (" + c.p.Rel(in.Pos()) + ")"
}

// decisionSite: a block in which it is decided that an instruction elsewhere runs, with the condition under which
// the decision is positive there (nil: unconditionally).
type decisionSite struct {
	blk    *ssa.BasicBlock
	assume *engine.Formula
	val    ssa.Value // the value whose truth is assumed (for looking through a helper predicate)
}

// implies decides PC(site) ∧ assume ⇒ f.
func (d decisionSite) implies(fi *engine.FuncInfo, f *engine.Formula) (bool, []string) {
	if d.assume == nil {
		return fi.Implies(d.blk, f)
	}
	ok, have := fi.Implies(d.blk, engine.Or(engine.Not(d.assume), f))
	if !ok && d.val != nil {
		// the assumed condition may be the call of a helper predicate: take its expansion
		dfi := fi.Deep()
		if ok2, have2 := dfi.Implies(d.blk, engine.Or(engine.Not(dfi.Cond(d.val)), f)); ok2 {
			return true, have2
		}
	}
	return ok, have
}

// decisionSites: where it is decided that the instruction runs. Normally its own block; when the instruction is
// guarded by a boolean variable that is set earlier (found := false; for .. { if cond { found = true; break } };
// if found { instruction }) the places that can make the variable true.
func (c *coord) decisionSites(at ssa.Instruction) []decisionSite {
	blk := at.Block()
	fi := c.p.Info(at.Parent())
	own := []decisionSite{{blk: blk}}
	for d := blk.Idom(); d != nil; d = d.Idom() {
		iff, ok := d.Instrs[len(d.Instrs)-1].(*ssa.If)
		if !ok {
			continue
		}
		onTrue := d.Succs[0] == blk || d.Succs[0].Dominates(blk)
		// (an edge back to an enclosing loop's header does not lead here without coming through d again)
		onFalse := !fi.IsBackEdge(d, d.Succs[1]) && (d.Succs[1] == blk || d.Succs[1].Dominates(blk))
		if fi.IsBackEdge(d, d.Succs[0]) {
			onTrue = false
		}
		if !onTrue || onFalse {
			continue
		}
		ph, ok := iff.Cond.(*ssa.Phi)
		if !ok {
			return own
		}
		out := phiTrueSites(fi, ph)
		if len(out) == 0 {
			return own
		}
		return out
	}
	return own
}

// phiTrueSites: the places that can make a boolean variable (in SSA: a phi) true.
func phiTrueSites(fi *engine.FuncInfo, ph *ssa.Phi) []decisionSite {
	var out []decisionSite
	seen := map[*ssa.Phi]bool{}
	var walk func(q *ssa.Phi)
	walk = func(q *ssa.Phi) {
		if seen[q] {
			return
		}
		seen[q] = true
		for i, e := range q.Edges {
			switch x := e.(type) {
			case *ssa.Const:
				if isConstBool(x, true) {
					out = append(out, decisionSite{blk: q.Block().Preds[i]})
				}
			case *ssa.Phi:
				walk(x)
			default:
				out = append(out, decisionSite{blk: q.Block().Preds[i], assume: fi.Cond(e), val: e})
			}
		}
	}
	walk(ph)
	return out
}

// postedListOwner: the shard whose list of targets to post the map update fills: the map is x.newTargets, or a map
// made in the function that is stored into x.newTargets (built first, installed afterwards).
func (c *coord) postedListOwner(mu *ssa.MapUpdate) (ssa.Value, bool) {
	if x, ok := loadOfField(mu.Map, c.fNewTargets); ok {
		return x, true
	}
	mm, ok := mu.Map.(*ssa.MakeMap)
	if !ok || mm.Referrers() == nil {
		return nil, false
	}
	for _, rr := range *mm.Referrers() {
		if st, ok := rr.(*ssa.Store); ok && st.Val == ssa.Value(mm) {
			if fa, ok := st.Addr.(*ssa.FieldAddr); ok && engine.FieldOf(fa) == c.fNewTargets {
				return fa.X, true
			}
		}
	}
	return nil, false
}
