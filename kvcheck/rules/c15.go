package rules

import (
	"fmt"
	"go/types"
	"sort"
	"strings"

	"golang.org/x/tools/go/ssa"

	"kvcheck/engine"
)

func init() {
	register(&Rule{ID: "C15", Run: runC15, Controls: controlsC15, ThoroughWhole: true,
		Explanation: "Structural necessary conditions of 'a target's hash depends only on its final labels and URL, and is stable', decided on pkg/discovery: " +
			"R15.1 determinism: every function the hash function (the one whose result is stored into Target.Hash) calls, transitively through kvass code, belongs to an allow-list of deterministic packages; per-process or time-dependent sources (hash/maphash, math/rand, crypto/rand, time, os, runtime, reflect pointers, unsafe) are denied; the label slice is sorted before it is hashed (the thorough tier extends the closure through the whole program's call graph); " +
			"R15.2 inputs: both parameters flow into the digest; at the call site the arguments are exactly the final labels (the very value given to scrape.NewTarget as the target's labels and shipped as ShardTarget.Labels' source) and the String() of that target's URL; the label slice handed to label population comes from labels.New (sorted, de-duplicated by the library); " +
			"R15.3 collapse: a target is appended only under 'hash not yet seen' and the hash is marked seen on that path; the by-hash view is keyed by ShardTarget.Hash; " +
			"R15.4 single definition: Target.Hash is written by the group translator only (JSON decoding aside). " +
			"R15.5 the proxy handler reads the hash parameter by exactly one strconv.ParseUint(text, 10, 64) (the writer renders decimal: C02 R2.4). " +
			"Not decided: collision freedom and sensitivity (properties of the hash functions).",
		Assumptions: []string{"go/types and go/ssa are correct", "the allow-listed standard-library and Prometheus label functions are deterministic across processes (reviewed: fnv, sort, fmt, labels.Hash = xxhash over sorted labels)"}})
}

var c15Allow = []string{"hash/fnv", "hash", "sort", "fmt", "strings", "strconv", "bytes", "encoding/binary", "io", "unicode/utf8", "math/bits",
	"github.com/prometheus/prometheus/model/labels", "github.com/cespare/xxhash/v2", "net/url"}
var c15Deny = []string{"hash/maphash", "math/rand", "crypto/rand", "time", "os", "runtime", "reflect", "unsafe", "sync/atomic"}

func runC15(p *engine.Prog, r *engine.Report) {
	fHash := p.Field(pkgTarget, "Target", "Hash")
	fShardTarget := p.Field(pkgDisc, "SDTargets", "ShardTarget")
	fTLabels := p.Field(pkgTarget, "Target", "Labels")
	if len(p.Problems) > 0 {
		return
	}
	r.Min("R15.1-determinism", 1)
	r.Min("R15.2-inputs", 2)
	r.Min("R15.3-collapse", 2)
	r.Min("R15.4-single-definition", 1)

	// ---- R15.4 + role discovery
	var hashCall *ssa.Call
	var translator *ssa.Function
	nW := 0
	var writers []string
	for _, fn := range p.Funcs {
		for _, in := range allInstrs(fn) {
			st, ok := in.(*ssa.Store)
			if !ok {
				continue
			}
			fa, ok := st.Addr.(*ssa.FieldAddr)
			if !ok || engine.FieldOf(fa) != fHash {
				continue
			}
			nW++
			writers = append(writers, engine.FuncName(fn)+" ("+p.Rel(st.Pos())+")")
			if call, ok := st.Val.(*ssa.Call); ok && call.Call.StaticCallee() != nil && engine.InPkg(fn, pkgDisc) {
				hashCall, translator = call, fn
			}
		}
	}
	// ---- R15.5 the hash travels to the proxy as decimal text and is read back by one decimal parse
	{
		r.Min("R15.5-hash-text", 1)
		var parses, probs []string
		handler := p.SSAFunc(p.Method(pkgSide, "Proxy", "ServeHTTP"))
		for _, fn := range p.Funcs {
			// the proxy's handler (and its closures)
			in := false
			for g := fn; g != nil; g = g.Parent() {
				if g == handler {
					in = true
				}
			}
			if !in {
				continue
			}
			for _, in := range allInstrs(fn) {
				call, ok := in.(*ssa.Call)
				if !ok || !engine.CalleeIs(call.Common(), "strconv", "", "ParseUint") || len(call.Call.Args) != 3 {
					continue
				}
				parses = append(parses, engine.FuncName(fn)+" ("+p.Rel(call.Pos())+")")
				b, okb := call.Call.Args[1].(*ssa.Const)
				if !okb || b.Value == nil || b.Value.ExactString() != "10" {
					probs = append(probs, "parse at "+p.Rel(call.Pos())+" is not base 10")
				}
				sz, oks := call.Call.Args[2].(*ssa.Const)
				if !oks || sz.Value == nil || sz.Value.ExactString() != "64" {
					probs = append(probs, "parse at "+p.Rel(call.Pos())+" is not 64 bit")
				}
			}
		}
		if len(parses) > 1 {
			probs = append(probs, fmt.Sprintf("%d parses of the hash text in the proxy handler: a text with two readings identifies two different targets", len(parses)))
		}
		if len(parses) == 0 {
			probs = append(probs, "no decimal parse of the hash parameter found")
		}
		r.Check(len(probs) == 0, "R15.5-hash-text", "reading the hash parameter", "the proxy handler's parse of the hash parameter", "exactly one strconv.ParseUint(text, 10, 64)", strings.Join(append(probs, parses...), "; "))
	}
	r.Check(nW == 1 && hashCall != nil, "R15.4-single-definition", "writers of Target.Hash", "program-wide who-may-write table", "exactly one writer: the group translator storing the hash function's result", strings.Join(writers, "; "))
	if hashCall == nil {
		return
	}
	hf := hashCall.Call.StaticCallee()
	hfi := p.Info(hf)
	fi := p.Info(translator)

	// ---- R15.1
	{
		var probs []string
		seen := map[*ssa.Function]bool{}
		callees := map[string]bool{}
		thirdParty := map[string]bool{}
		libSeen := map[*ssa.Function]bool{}
		var libProbs []string
		var walkLib func(f *ssa.Function, depth int)
		walkLib = func(f *ssa.Function, depth int) {
			if libSeen[f] || depth > 8 {
				return
			}
			libSeen[f] = true
			for _, in := range allInstrs(f) {
				ci, ok := in.(ssa.CallInstruction)
				if !ok {
					continue
				}
				o := engine.CalleeObj(ci.Common())
				if o == nil || o.Pkg() == nil {
					continue
				}
				pk := o.Pkg().Path()
				bad := false
				switch pk {
				case "hash/maphash", "math/rand", "crypto/rand":
					bad = true
				case "time":
					bad = o.Name() == "Now" || o.Name() == "Since"
				case "os":
					bad = o.Name() == "Getpid" || o.Name() == "Hostname" || o.Name() == "Getenv" || o.Name() == "Environ"
				}
				if bad {
					libProbs = append(libProbs, "library function "+f.String()+" reached from the hash computation calls "+o.FullName())
				}
				if strings.Contains(strings.Split(pk, "/")[0], ".") {
					if sc := ci.Common().StaticCallee(); sc != nil && sc.Blocks != nil {
						walkLib(sc, depth+1)
					}
				}
			}
		}
		var walk func(f *ssa.Function)
		walk = func(f *ssa.Function) {
			if seen[f] {
				return
			}
			seen[f] = true
			for _, in := range allInstrs(f) {
				ci, ok := in.(ssa.CallInstruction)
				if !ok {
					continue
				}
				c := ci.Common()
				if _, isBuiltin := c.Value.(*ssa.Builtin); isBuiltin {
					continue
				}
				o := engine.CalleeObj(c)
				if o == nil {
					probs = append(probs, "dynamic call at "+p.Rel(ci.Pos())+" inside the hash computation")
					continue
				}
				pk := ""
				if o.Pkg() != nil {
					pk = o.Pkg().Path()
				}
				callees[o.FullName()] = true
				if strings.HasPrefix(pk, engine.ModPath) {
					if sc := c.StaticCallee(); sc != nil && sc.Blocks != nil {
						walk(sc)
					}
					continue
				}
				denied := false
				for _, d := range c15Deny {
					if pk == d {
						denied = true
					}
				}
				// whole-program tier: third-party callees (non standard library) are traversed too
				if !denied && p.Whole && strings.Contains(strings.Split(pk, "/")[0], ".") {
					if sc := c.StaticCallee(); sc != nil && sc.Blocks != nil {
						thirdParty[o.FullName()] = true
						walkLib(sc, 0)
					}
				}
				if denied {
					probs = append(probs, "the hash computation calls "+o.FullName()+" ("+p.Rel(ci.Pos())+"): its result differs between processes or runs")
					continue
				}
				allowed := false
				for _, a := range c15Allow {
					if pk == a {
						allowed = true
					}
				}
				if !allowed {
					probs = append(probs, "the hash computation calls "+o.FullName()+", which is outside the reviewed deterministic set")
				}
			}
			// package-level variables read by the hash computation (e.g. a per-process seed)
			for _, in := range allInstrs(f) {
				if u, ok := in.(*ssa.UnOp); ok {
					if g, ok := u.X.(*ssa.Global); ok {
						probs = append(probs, "the hash computation reads package variable "+g.Name()+" ("+p.Rel(u.Pos())+")")
					}
				}
			}
		}
		walk(hf)
		r.Analysed["hash_third_party_functions_traversed"] = len(libSeen)
		probs = append(probs, libProbs...)
		// sort before hashing the label slice
		var sortCall, lhash ssa.Instruction
		for _, in := range allInstrs(hf) {
			if call, ok := in.(*ssa.Call); ok {
				if engine.CalleeIs(call.Common(), "sort", "", "Sort") && hfi.T(call.Call.Args[0]).S == hfi.T(hf.Params[0]).S {
					sortCall = call
				}
				if engine.CalleeIs(call.Common(), "github.com/prometheus/prometheus/model/labels", "Labels", "Hash") {
					lhash = call
				}
			}
		}
		if lhash != nil && (sortCall == nil || !engine.InstrDominates(sortCall, lhash)) {
			probs = append(probs, "the label slice is hashed without being sorted first (the hash would depend on label order)")
		}
		var cs []string
		for c := range callees {
			cs = append(cs, c)
		}
		sort.Strings(cs)
		r.Analysed["hash_callees"] = cs
		r.Check(len(probs) == 0, "R15.1-determinism", "closure of "+engine.FuncName(hf), engine.FuncName(hf)+" ("+p.Rel(hf.Pos())+")", "only reviewed deterministic callees; labels sorted before hashing", strings.Join(probs, "; "))
	}

	// ---- R15.2
	{
		// (a) inside: both parameters reach a Write on the hasher
		var probs []string
		reaches := func(param *ssa.Parameter) bool {
			seen := map[ssa.Value]bool{}
			var walk func(v ssa.Value) bool
			walk = func(v ssa.Value) bool {
				if seen[v] {
					return false
				}
				seen[v] = true
				refs := v.Referrers()
				if refs == nil {
					return false
				}
				for _, rr := range *refs {
					switch x := rr.(type) {
					case *ssa.Call:
						if x.Call.IsInvoke() && x.Call.Method.Name() == "Write" {
							return true
						}
						if engine.CalleeObj(x.Common()) != nil && engine.CalleeObj(x.Common()).Name() == "WriteString" {
							return true
						}
						// fmt.Fprint*(h, ...): formatted straight into the hasher
						if o := engine.CalleeObj(x.Common()); o != nil && o.Pkg() != nil && o.Pkg().Path() == "fmt" && strings.HasPrefix(o.Name(), "Fprint") {
							return true
						}
						if walk(x) {
							return true
						}
					case *ssa.Store:
						if walk(x.Addr) {
							return true
						}
						if ia, ok := x.Addr.(*ssa.IndexAddr); ok && walk(ia.X) {
							return true
						}
					case ssa.Value:
						if walk(x) {
							return true
						}
					}
				}
				return false
			}
			return walk(param)
		}
		for _, q := range hf.Params {
			if !reaches(q) {
				probs = append(probs, "parameter "+q.Name()+" does not flow into the digest")
			}
		}
		if len(hf.Params) != 2 {
			probs = append(probs, fmt.Sprintf("the hash function takes %d parameters (labels and URL expected)", len(hf.Params)))
		}
		r.Check(len(probs) == 0, "R15.2-inputs", "parameters of "+engine.FuncName(hf), engine.FuncName(hf), "labels and URL both flow into the digest", strings.Join(probs, "; "))
		// (b) call site
		probs = nil
		var nt *ssa.Call
		for _, in := range allInstrs(translator) {
			if call, ok := in.(*ssa.Call); ok && engine.CalleeIs(call.Common(), "github.com/prometheus/prometheus/scrape", "", "NewTarget") {
				nt = call
			}
		}
		if nt == nil {
			probs = append(probs, "the Prometheus target (scrape.NewTarget) is not built in the translator")
		} else if len(hashCall.Call.Args) == 2 {
			if fi.T(hashCall.Call.Args[0]).S != fi.T(nt.Call.Args[0]).S {
				probs = append(probs, "the labels hashed are "+short(fi.T(hashCall.Call.Args[0]).S)+", not the target's final labels "+short(fi.T(nt.Call.Args[0]).S))
			}
			wantURL := "call (*net/url.URL).String(call (*github.com/prometheus/prometheus/scrape.Target).URL(" + fi.T(nt).S + ")"
			if !strings.HasPrefix(fi.T(hashCall.Call.Args[1]).S, wantURL) {
				probs = append(probs, "the URL hashed is "+short(fi.T(hashCall.Call.Args[1]).S)+", not the String() of the target's URL")
			}
			// the shipped labels derive from the same final labels
			for _, in := range allInstrs(translator) {
				if st, ok := in.(*ssa.Store); ok {
					if fa, ok := st.Addr.(*ssa.FieldAddr); ok && engine.FieldOf(fa) == fTLabels {
						if !strings.Contains(fi.T(st.Val).S, fi.T(nt.Call.Args[0]).S) {
							probs = append(probs, "the shipped labels do not derive from the hashed final labels")
						}
					}
				}
			}
			// label population is fed by labels.New
			fed := false
			for _, in := range allInstrs(translator) {
				if call, ok := in.(*ssa.Call); ok && call.Call.StaticCallee() != nil && engine.InPkg(call.Call.StaticCallee(), pkgDisc) && len(call.Call.Args) > 0 {
					if inner, ok := call.Call.Args[0].(*ssa.Call); ok && (engine.CalleeIs(inner.Common(), "github.com/prometheus/prometheus/model/labels", "", "New") || engine.CalleeIs(inner.Common(), "github.com/prometheus/prometheus/model/labels", "", "FromMap")) {
						if strings.Contains(fi.T(nt.Call.Args[0]).S, fi.T(call).S) {
							fed = true
						}
					}
				}
			}
			if !fed {
				probs = append(probs, "the labels are not built through labels.New or labels.FromMap (sorted) before population")
			}
			// nothing else: no Source / index / clock in the arguments
			for _, a := range hashCall.Call.Args {
				t := fi.T(a).S
				for _, bad := range []string{".Source", "call time.", "phi:"} {
					if strings.Contains(strings.ReplaceAll(strings.ReplaceAll(t, "labels.New(phi:", "labels.New("), "labels.FromMap(phi:", "labels.FromMap("), bad) {
						probs = append(probs, "a hash argument depends on "+bad)
					}
				}
			}
		}
		r.Check(len(probs) == 0, "R15.2-inputs", "hash call in "+engine.FuncName(translator), "call at "+p.Rel(hashCall.Pos()), "hash(final labels given to NewTarget, that target's URL string)", strings.Join(probs, "; "))
	}

	// ---- R15.3
	{
		var probs []string
		// append of SDTargets holding the target: block condition ¬seen[hash]; mark on the path
		var app *ssa.Call
		for _, in := range allInstrs(translator) {
			if call, ok := in.(*ssa.Call); ok {
				if bi, ok := call.Call.Value.(*ssa.Builtin); ok && bi.Name() == "append" && strings.Contains(call.Type().String(), "SDTargets") {
					app = call
				}
			}
		}
		if app == nil {
			probs = append(probs, "no append of translated targets")
		} else {
			ht := fi.T(hashCall).S
			var seenMap *ssa.MakeMap
			seenIsSet := false
			for _, in := range allInstrs(translator) {
				if mm, ok := in.(*ssa.MakeMap); ok {
					if mt, ok := mm.Type().Underlying().(*types.Map); ok {
						if b, ok := mt.Elem().Underlying().(*types.Basic); ok && b.Kind() == types.Bool {
							seenMap = mm
						}
						// a set written as map[uint64]struct{}
						if st, ok := mt.Elem().Underlying().(*types.Struct); ok && st.NumFields() == 0 {
							if kb, ok := mt.Key().Underlying().(*types.Basic); ok && kb.Kind() == types.Uint64 {
								seenMap, seenIsSet = mm, true
							}
						}
					}
				}
			}
			if seenMap == nil {
				probs = append(probs, "no 'seen' set in the translator")
			} else {
				okGuard := false
				for _, g := range fi.Guards(app.Block()) {
					if strings.HasPrefix(g, "¬true("+fi.T(seenMap).S+"["+ht+"]") {
						okGuard = true
					}
					if seenIsSet && strings.HasPrefix(g, "¬has("+fi.T(seenMap).S+"["+ht+"]") {
						okGuard = true
					}
				}
				if !okGuard {
					probs = append(probs, "the append is not conditional on 'hash not yet seen'")
				}
				marked := false
				for _, rr := range *seenMap.Referrers() {
					if mu, ok := rr.(*ssa.MapUpdate); ok && fi.T(mu.Key).S == ht && (isConstBool(mu.Value, true) || seenIsSet) && engine.InstrDominates(mu, app) {
						marked = true
					}
				}
				if !marked {
					probs = append(probs, "the hash is not marked seen before the target is appended")
				}
				// the set must live for the whole group (allocated outside the per-target loop)
				if lp := loopOf(fi, app.Block()); lp != nil && lp.blocks[seenMap.Block().Index] {
					probs = append(probs, "the seen set is re-created for every target")
				}
			}
		}
		r.Check(len(probs) == 0, "R15.3-collapse", "de-duplication in "+engine.FuncName(translator), engine.FuncName(translator), "append under ¬seen[hash], hash marked seen on that path, one set per group", strings.Join(probs, "; "))
		// by-hash view
		probs = nil
		n := 0
		for _, fn := range p.Funcs {
			if !engine.InPkg(fn, pkgDisc) || fn.Signature.Results().Len() != 1 {
				continue
			}
			mt, ok := fn.Signature.Results().At(0).Type().Underlying().(*types.Map)
			if !ok {
				continue
			}
			if b, ok := mt.Key().Underlying().(*types.Basic); !ok || b.Kind() != types.Uint64 {
				continue
			}
			ffi := p.Info(fn)
			for _, in := range allInstrs(fn) {
				if mu, ok := in.(*ssa.MapUpdate); ok {
					if _, isMake := mu.Map.(*ssa.MakeMap); !isMake {
						continue
					}
					n++
					tgt, ok := loadOfField(mu.Key, fHash)
					if !ok {
						probs = append(probs, "the by-hash view in "+engine.FuncName(fn)+" is keyed by "+ffi.T(mu.Key).S)
						continue
					}
					sd, ok := loadOfField(tgt, fShardTarget)
					if !ok || ffi.T(sd).S != ffi.T(mu.Value).S {
						probs = append(probs, "the by-hash view maps a hash to a different target than the one it belongs to")
					}
				}
			}
		}
		if n == 0 {
			probs = append(probs, "no by-hash view found")
		}
		r.Check(len(probs) == 0, "R15.3-collapse", "by-hash view", "pkg/discovery", "keyed by ShardTarget.Hash of the very element stored", strings.Join(probs, "; "))
	}
}

func short(s string) string {
	if len(s) > 140 {
		return s[:70] + "…" + s[len(s)-60:]
	}
	return s
}

func controlsC15(p *engine.Prog) []Control { return nil }
