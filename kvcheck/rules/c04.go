package rules

import (
	"fmt"
	"go/token"
	"go/types"
	"strings"

	"golang.org/x/tools/go/ssa"

	"kvcheck/engine"
)

func init() {
	register(&Rule{ID: "C04", Run: runC04, Controls: controlsC04,
		Explanation: "Structural necessary conditions of 'targets are only placed where they fit', decided on the SSA form of pkg/coordinator for every path and call site: " +
			"R4.1 every write into a shard's planned set (map write through shardInfo.scraping) is enumerated; helper functions move the obligation to their call sites; " +
			"R4.2 at each placement the path condition implies (MaxHeadSeries==0 ∨ dest.head+series<MaxHeadSeries) ∧ dest.process+total<MaxProcessSeries, strict, in linear normal form, for the series pair of the very entry that is placed - directly or through the verified summary of the free-shard query; " +
			"R4.3 each placement adds the entry's Series to the destination's HeadSeries and its TotalSeries to ProcessSeries on the same path, and the running load is written nowhere else (it never shrinks within a cycle); " +
			"R4.4 head-series and process-series quantities are never added, compared, stored or passed across dimensions (units inference over pkg/coordinator, pkg/sidecar, pkg/target, pkg/explore); " +
			"R4.5 first assignment and needed-space accounting happen only under ¬tooBig, and the predicate flags a target whose Series exceeds the head limit or whose TotalSeries exceeds the process limit. " +
			"Not decided: that sums over many placements stay below the limits (R4.3 is its structural part), integer overflow, the scale-down feasibility pre-check (its placements go through the free-shard query).",
		Assumptions: []string{"go/types and go/ssa are correct", "int64 arithmetic does not overflow", "reported loads are non-negative"}})
}

// capacity builds the required capacity formula for destination d (canonical text of a *shardInfo)
// and the series pair, with option fields read through opt (canonical text of *Option), as of 'at'.
func (c *coord) capacity(fi *engine.FuncInfo, d, opt string, series, total *engine.Term, at ssa.Instruction) (*engine.Formula, string) {
	head := engine.Sym(fi.FieldPath(d, at, c.fRuntime, c.fHead))
	proc := engine.Sym(fi.FieldPath(d, at, c.fRuntime, c.fProc))
	maxH := engine.Sym(fi.FieldPath(opt, at, c.fMaxHead))
	maxP := engine.Sym(fi.FieldPath(opt, at, c.fMaxProc))
	f := engine.And(
		engine.Or(engine.EqIntAtom(maxH, engine.Int(0)), engine.LtAtom(engine.LinSum(head, series), maxH)),
		engine.LtAtom(engine.LinSum(proc, total), maxP))
	txt := fmt.Sprintf("(%s == 0 ∨ %s + %s < %s) ∧ %s + %s < %s", maxH.S, head.S, series.S, maxH.S, proc.S, total.S, maxP.S)
	return f, txt
}

// optText finds the canonical text of the *Option value used in fn (e.g. "c.option").
func (c *coord) optText(fn *ssa.Function) string {
	fi := c.p.Info(fn)
	optT := c.p.Named(pkgCoord, "Option")
	for _, b := range fn.Blocks {
		for _, in := range b.Instrs {
			if fa, ok := in.(*ssa.FieldAddr); ok {
				if isPtrTo(fa.X.Type(), optT) {
					return fi.T(fa.X).S
				}
			}
		}
	}
	// fall back: receiver.option
	if len(fn.Params) > 0 {
		if f := c.p.Field(pkgCoord, "Coordinator", "option"); f != nil && isPtrTo(fn.Params[0].Type(), c.p.Named(pkgCoord, "Coordinator")) {
			return fi.T(fn.Params[0]).S + "." + f.Name()
		}
	}
	return "?option"
}

// loadUpdate describes "base.runtime.<f> = base.runtime.<f> + X".
type loadUpdate struct {
	st   *ssa.Store
	base ssa.Value // the *shardInfo
	f    *types.Var
	add  ssa.Value // X (nil if the stored value is not old+X)
	sub  bool
}

// runtimeStores finds every store to RuntimeInfo.HeadSeries/ProcessSeries in pkg/coordinator.
func (c *coord) runtimeStores() []loadUpdate {
	var out []loadUpdate
	for _, fn := range c.funcs {
		for _, b := range fn.Blocks {
			for _, in := range b.Instrs {
				st, ok := in.(*ssa.Store)
				if !ok {
					continue
				}
				fa, ok := st.Addr.(*ssa.FieldAddr)
				if !ok {
					continue
				}
				f := engine.FieldOf(fa)
				if f != c.fHead && f != c.fProc {
					continue
				}
				lu := loadUpdate{st: st, f: f}
				if b2, ok := loadOfField(fa.X, c.fRuntime); ok {
					lu.base = b2
				}
				if bo, ok := st.Val.(*ssa.BinOp); ok && (bo.Op == token.ADD || bo.Op == token.SUB) {
					isOld := func(v ssa.Value) bool {
						u, ok := v.(*ssa.UnOp)
						if !ok || u.Op != token.MUL {
							return false
						}
						fa2, ok := u.X.(*ssa.FieldAddr)
						return ok && engine.FieldOf(fa2) == f && c.p.Info(fn).T(fa2).S == c.p.Info(fn).T(fa).S
					}
					switch {
					case isOld(bo.X):
						lu.add = bo.Y
					case isOld(bo.Y) && bo.Op == token.ADD:
						lu.add = bo.X
					}
					lu.sub = bo.Op == token.SUB
				}
				out = append(out, lu)
			}
		}
	}
	return out
}

// entryField: v is a load of field f of a *ScrapeStatus value; returns that pointer value.
func entryField(v ssa.Value, f *types.Var) (ssa.Value, bool) {
	return loadOfField(v, f)
}

type placement struct {
	mw     *ssa.MapUpdate
	fn     *ssa.Function
	dest   ssa.Value // *shardInfo
	entry  ssa.Value // *ScrapeStatus whose series pair is added (nil if undetermined)
	helper bool
	ord    int
}

func runC04(p *engine.Prog, r *engine.Report) {
	c := newCoord(p)
	if len(p.Problems) > 0 {
		return
	}
	r.Min("R4.1-placement", 2)
	r.Min("R4.2-capacity", 4)
	r.Min("R4.3-running-load", 2)
	r.Min("R4.5-oversized", 3)
	updates := c.runtimeStores()
	usedUpdate := map[*ssa.Store]bool{}
	summaryDone := map[*ssa.Function]bool{}

	for i, mw := range c.mapWrites {
		fn := mw.Parent()
		fi := p.Info(fn)
		d, _ := loadOfField(mw.Map, c.fScraping)
		pl := &placement{mw: mw, fn: fn, dest: d, ord: i + 1}
		_, pl.helper = d.(*ssa.Parameter)
		pkey := fmt.Sprintf("placement#%d in %s", pl.ord, engine.FuncName(fn))
		r.Add("R4.1-placement", pkey, "write into shardInfo.scraping at "+c.at(mw), "enumerated", map[bool]string{true: "helper: obligations move to call sites", false: "direct placement"}[pl.helper], engine.Discharged).Trivial = true

		// ---- R4.3: running load updates for this placement
		var hUp, pUp *loadUpdate
		for k := range updates {
			u := &updates[k]
			if u.st.Parent() != fn || u.base == nil || fi.T(u.base).S != fi.T(d).S {
				continue
			}
			if u.f == c.fHead {
				hUp = u
			} else {
				pUp = u
			}
		}
		var probs []string
		var eH, eP ssa.Value
		check := func(u *loadUpdate, dim string, ef *types.Var) ssa.Value {
			if u == nil {
				probs = append(probs, "no update of destination."+dim+" in the placing function")
				return nil
			}
			usedUpdate[u.st] = true
			if u.add == nil || u.sub {
				probs = append(probs, "destination."+dim+" is not increased by the entry's value")
				return nil
			}
			e, ok := entryField(u.add, ef)
			if !ok {
				probs = append(probs, "destination."+dim+" is increased by "+fi.T(u.add).S+", which is not the "+ef.Name()+" of a status entry")
				return nil
			}
			if !(engine.InstrDominates(u.st, mw) || (engine.InstrDominates(mw, u.st) && fi.MustPass(mw, nil, func(in ssa.Instruction) bool { return in == ssa.Instruction(u.st) }))) {
				probs = append(probs, "the "+dim+" update is not on every path through the placement")
			}
			return e
		}
		eH = check(hUp, "HeadSeries", c.fSeries)
		eP = check(pUp, "ProcessSeries", c.fTotal)
		if eH != nil && eP != nil {
			if fi.T(eH).S != fi.T(eP).S {
				probs = append(probs, "head and process updates use different entries: "+fi.T(eH).S+" vs "+fi.T(eP).S)
			} else {
				pl.entry = eH
				// the stored value is that entry or a fresh copy of it
				vt := fi.T(mw.Value).S
				et := fi.T(eH).S
				same := vt == et
				if al, ok := mw.Value.(*ssa.Alloc); ok && !same {
					if sv := singleStoreOf(al); sv != nil && fi.T(sv).S == "*"+et {
						same = true
					}
				}
				if !same {
					probs = append(probs, "the value placed ("+vt+") is not the entry whose series are added ("+et+")")
				}
			}
		}
		r.Check(len(probs) == 0, "R4.3-running-load", pkey, "placement at "+c.at(mw),
			"destination.runtime.HeadSeries += entry.Series and destination.runtime.ProcessSeries += entry.TotalSeries for the entry that is placed, on every path through the placement", strings.Join(probs, "; "))

		// ---- R4.2: capacity guard
		if !pl.helper {
			c.capacityAt(r, summaryDone, fn, mw, d, pl.entry, "direct "+pkey)
			continue
		}
		// helper: entry must be <pfrom>.scraping[<pkey>] of parameters; obligations at call sites
		toIdx, fromIdx, keyIdx := paramIndex(fn, d), -1, -1
		if pl.entry != nil {
			if lk, ok := pl.entry.(*ssa.Lookup); ok {
				if fb, ok := loadOfField(lk.X, c.fScraping); ok {
					fromIdx = paramIndex(fn, fb)
					keyIdx = paramIndex(fn, lk.Index)
				}
			}
		}
		if fromIdx < 0 || keyIdx < 0 || paramIndex(fn, mw.Key) != keyIdx {
			r.Add("R4.2-capacity", "helper "+pkey, "placement helper "+engine.FuncName(fn), "the helper moves from.scraping[key] to to.scraping[key] for parameters from,to,key", "shape not recognised", engine.Undecided)
			continue
		}
		sites := 0
		for _, caller := range c.funcs {
			cfi := p.Info(caller)
			for _, b := range caller.Blocks {
				for _, in := range b.Instrs {
					ci, ok := in.(ssa.CallInstruction)
					if !ok || ci.Common().StaticCallee() != fn {
						continue
					}
					sites++
					args := ci.Common().Args
					scr := cfi.FieldPath(cfi.T(args[fromIdx]).S, ci, c.fScraping)
					e := cfi.ElemPath(scr, c.fScraping.Type(), cfi.T(args[keyIdx]).S, ci)
					ck := fmt.Sprintf("call#%d of %s in %s", countCallsBefore(caller, fn, ci)+1, engine.FuncName(fn), engine.FuncName(caller))
					c.capacityAtText(r, summaryDone, caller, ci, args[toIdx], e, ck)
				}
			}
		}
		if sites == 0 || fnUsedAsValue(p, fn) {
			r.Add("R4.2-capacity", "helper "+pkey, "placement helper "+engine.FuncName(fn), "all callers are visible static calls", fmt.Sprintf("%d call sites; used as value: %v", sites, fnUsedAsValue(p, fn)), engine.Undecided)
		}
	}
	// stores to the running load that belong to no placement
	for k := range updates {
		u := &updates[k]
		if usedUpdate[u.st] {
			continue
		}
		fn := u.st.Parent()
		if fa, ok := u.st.Addr.(*ssa.FieldAddr); ok {
			if _, fresh := fa.X.(*ssa.Alloc); fresh {
				continue // a RuntimeInfo value built locally (API answer), not a shard's running load
			}
		}
		r.Add("R4.3-running-load", fmt.Sprintf("stray store to RuntimeInfo.%s in %s", u.f.Name(), engine.FuncName(fn)), "store at "+c.at(u.st),
			"the running load of a shard is only written as destination += placed entry (it never shrinks and is never overwritten within a cycle)", "store of "+p.Info(fn).T(u.st.Val).S, engine.Violated)
	}

	c.checkOversized(r)
	runDims(p, r, "R4.4-dimension", []string{pkgCoord, pkgSide, pkgTarget, pkgExpl})
}

func paramIndex(fn *ssa.Function, v ssa.Value) int {
	for i, q := range fn.Params {
		if ssa.Value(q) == v {
			return i
		}
	}
	return -1
}

func countCallsBefore(caller, callee *ssa.Function, stop ssa.CallInstruction) int {
	n := 0
	for _, b := range caller.Blocks {
		for _, in := range b.Instrs {
			if ci, ok := in.(ssa.CallInstruction); ok && ci.Common().StaticCallee() == callee {
				if ci == stop {
					return n
				}
				n++
			}
		}
	}
	return n
}

// capacityAt: direct placement; entry is an SSA value.
func (c *coord) capacityAt(r *engine.Report, done map[*ssa.Function]bool, fn *ssa.Function, at ssa.Instruction, d ssa.Value, entry ssa.Value, ck string) {
	if entry == nil {
		r.Add("R4.2-capacity", ck, "placement at "+c.at(at), "capacity guard for the placed entry", "the placed entry could not be identified (see R4.3)", engine.Undecided)
		return
	}
	c.capacityAtText(r, done, fn, at, d, c.p.Info(fn).T(entry).S, ck)
}

// capacityAtText checks R4.2 at instruction 'at' in fn for destination d and entry text e.
func (c *coord) capacityAtText(r *engine.Report, done map[*ssa.Function]bool, fn *ssa.Function, at ssa.Instruction, d ssa.Value, e string, ck string) {
	p := c.p
	fi := p.Info(fn)
	series := engine.Sym(fi.FieldPath(e, at, c.fSeries))
	total := engine.Sym(fi.FieldPath(e, at, c.fTotal))
	need, needTxt := c.capacity(fi, fi.T(d).S, c.optText(fn), series, total, at)
	if ok, _ := fi.Implies(at.Block(), need); ok {
		r.Add("R4.2-capacity", ck, "placement at "+c.at(at), needTxt, "implied by the path condition", engine.Discharged)
		return
	}
	v := fi.View(need)
	have := v.Literals(at.Block())
	// option B: destination is the result of a free-shard query G(…, space)
	if call, ok := d.(*ssa.Call); ok {
		if g := call.Call.StaticCallee(); g != nil && g.Blocks != nil && engine.InPkg(g, pkgCoord) {
			spIdx := -1
			spaceT := p.Named(pkgCoord, "space")
			for i, q := range g.Params {
				if n, ok := q.Type().(*types.Named); ok && n.Obj() == spaceT.Obj() {
					spIdx = i
				}
			}
			if spIdx >= 0 {
				if !done[g] {
					done[g] = true
					c.checkFreeShardSummary(r, g, spIdx)
				}
				cfi := p.Info(call.Parent())
				arg := call.Call.Args[spIdx]
				hs := cfi.StructField(arg, c.fHeadSpace)
				ps := cfi.StructField(arg, c.fProcSpace)
				var probs []string
				if hs.S != series.S {
					probs = append(probs, "space.headSpace passed is "+hs.S+", not the entry's Series "+series.S)
				}
				if ps.S != total.S {
					probs = append(probs, "space.processSpace passed is "+ps.S+", not the entry's TotalSeries "+total.S)
				}
				// the query's answer must still be valid: no write to the running load between query and placement other than this placement
				r.Check(len(probs) == 0, "R4.2-capacity", ck, "placement at "+c.at(at)+" on the result of "+engine.FuncName(g),
					"the free-shard query is asked with space{entry.Series, entry.TotalSeries} of the entry that is placed (its summary is checked separately)", strings.Join(probs, "; "))
				return
			}
		}
	}
	r.Add("R4.2-capacity", ck, "placement at "+c.at(at), needTxt, "path condition only gives: "+strings.Join(have, " ∧ "), engine.Violated)
}

// checkFreeShardSummary: every *shardInfo the query returns (directly, or boxed as a weighted choice)
// satisfies the capacity formula for (sp.headSpace, sp.processSpace).
func (c *coord) checkFreeShardSummary(r *engine.Report, g *ssa.Function, spIdx int) {
	p := c.p
	fi := p.Info(g)
	sp := g.Params[spIdx]
	series := engine.Sym(fi.T(sp).S + "." + c.fHeadSpace.Name())
	total := engine.Sym(fi.T(sp).S + "." + c.fProcSpace.Name())
	opt := c.optText(g)
	n := 0
	checkAt := func(v ssa.Value, at ssa.Instruction, what string) {
		n++
		need, needTxt := c.capacity(fi, fi.T(v).S, opt, series, total, at)
		ok, have := fi.Implies(at.Block(), need)
		r.Check(ok, "R4.2-capacity", fmt.Sprintf("summary of %s: %s#%d", engine.FuncName(g), what, n), what+" at "+c.at(at), needTxt, "path condition gives: "+strings.Join(have, " ∧ "))
	}
	for _, b := range g.Blocks {
		for _, in := range b.Instrs {
			ret, ok := in.(*ssa.Return)
			if !ok {
				continue
			}
			for _, rv := range ret.Results {
				if !isPtrTo(rv.Type(), c.shardInfo) || isNilConst(rv) {
					continue
				}
				if ta, ok := rv.(*ssa.TypeAssert); ok {
					items := pickedItems(g, ta)
					if items == nil {
						r.Add("R4.2-capacity", "summary of "+engine.FuncName(g)+": picked", "return at "+c.at(ret), "result is Pick() of a locally built chooser", "not recognised", engine.Undecided)
						continue
					}
					for _, st := range items {
						if mi, ok := st.Val.(*ssa.MakeInterface); ok {
							checkAt(mi.X, st, "weighted choice")
						}
					}
					continue
				}
				checkAt(rv, ret, "returned shard")
			}
		}
	}
}

// checkOversized implements R4.5.
func (c *coord) checkOversized(r *engine.Report) {
	p := c.p
	// the assigner: direct placement whose destination is a call result
	for _, mw := range c.mapWrites {
		fn := mw.Parent()
		d, _ := loadOfField(mw.Map, c.fScraping)
		q, ok := d.(*ssa.Call)
		if !ok {
			continue
		}
		fi := p.Info(fn)
		entry := fi.T(mw.Value).S
		// find a call of a bool predicate over the entry guarding the query
		var pred *ssa.Call
		for _, lit := range fi.Guards(q.Block()) {
			if !strings.HasPrefix(lit, "¬true(call ") {
				continue
			}
			t := strings.TrimSuffix(strings.TrimPrefix(lit, "¬true("), ")")
			if cv, ok := fi.Calls[t]; ok {
				if call, ok := cv.(*ssa.Call); ok && call.Call.StaticCallee() != nil {
					for _, a := range call.Call.Args {
						if fi.T(a).S == entry {
							pred = call
						}
					}
				}
			}
		}
		ck := "assigner " + engine.FuncName(fn)
		if pred == nil {
			r.Add("R4.5-oversized", ck+": gate", "free-shard query at "+c.at(q), "reached only under ¬tooBig(entry) for a predicate over the entry that is placed", "no such guard: "+strings.Join(fi.Guards(q.Block()), " ∧ "), engine.Violated)
			continue
		}
		r.Add("R4.5-oversized", ck+": gate", "free-shard query at "+c.at(q), "reached only under ¬tooBig(entry)", "guarded by ¬"+engine.FuncName(pred.Call.StaticCallee()), engine.Discharged)
		// needed-space accounting under the same gate: every call of a method on *space in fn
		for _, b := range fn.Blocks {
			for _, in := range b.Instrs {
				call, ok := in.(*ssa.Call)
				if !ok || call.Call.StaticCallee() == nil || call.Call.StaticCallee().Signature.Recv() == nil {
					continue
				}
				if !isPtrTo(call.Call.StaticCallee().Signature.Recv().Type(), p.Named(pkgCoord, "space")) {
					continue
				}
				okg, _ := fi.Implies(call.Block(), engine.Not(engine.TrueAtom(fi.T(pred).S)))
				r.Check(okg, "R4.5-oversized", ck+": accounting", "needed-space accounting at "+c.at(call), "only under ¬tooBig(entry)", strings.Join(fi.Guards(call.Block()), " ∧ "))
			}
		}
		// the predicate itself
		g := pred.Call.StaticCallee()
		gfi := p.Info(g)
		var tarP ssa.Value
		for i, a := range pred.Call.Args {
			if fi.T(a).S == entry {
				tarP = g.Params[i]
			}
		}
		opt := c.optText(g)
		var ret *ssa.Return
		for _, b := range g.Blocks {
			if rt, ok := b.Instrs[len(b.Instrs)-1].(*ssa.Return); ok {
				ret = rt
			}
		}
		if ret == nil || len(ret.Results) != 1 || tarP == nil {
			r.Add("R4.5-oversized", ck+": predicate", "predicate "+engine.FuncName(g), "single boolean result over the entry", "shape not recognised", engine.Undecided)
			continue
		}
		res := gfi.Cond(ret.Results[0])
		tt := gfi.T(tarP).S
		maxH := engine.Sym(gfi.FieldPath(opt, ret, c.fMaxHead))
		maxP := engine.Sym(gfi.FieldPath(opt, ret, c.fMaxProc))
		ser := engine.Sym(gfi.FieldPath(tt, ret, c.fSeries))
		tot := engine.Sym(gfi.FieldPath(tt, ret, c.fTotal))
		// a predicate written with several returns: its result as a formula over the caller's terms
		nRet := 0
		for _, b := range g.Blocks {
			if _, ok := b.Instrs[len(b.Instrs)-1].(*ssa.Return); ok && b != g.Recover {
				nRet++
			}
		}
		if nRet > 1 {
			if ex := fi.Deep().Cond(pred); ex != nil && !(ex.Op == 'a') {
				res = ex
				copt := c.optText(fn)
				maxH = engine.Sym(fi.FieldPath(copt, pred, c.fMaxHead))
				maxP = engine.Sym(fi.FieldPath(copt, pred, c.fMaxProc))
				ser = engine.Sym(fi.FieldPath(entry, pred, c.fSeries))
				tot = engine.Sym(fi.FieldPath(entry, pred, c.fTotal))
			}
		}
		headBig := engine.And(engine.Not(engine.EqIntAtom(maxH, engine.Int(0))), engine.LtAtom(maxH, ser))
		procBig := engine.LtAtom(maxP, tot)
		okH, _ := engine.Implies(headBig, res, engine.LinAxioms(append(res.Atoms(), headBig.Atoms()...))...)
		okP, _ := engine.Implies(procBig, res, engine.LinAxioms(append(res.Atoms(), procBig.Atoms()...))...)
		r.Check(okH, "R4.5-oversized", "predicate "+engine.FuncName(g)+": head", "predicate "+engine.FuncName(g)+" ("+p.Rel(g.Pos())+")",
			"MaxHeadSeries != 0 ∧ entry.Series > MaxHeadSeries ⇒ too big", "result = "+res.String())
		r.Check(okP, "R4.5-oversized", "predicate "+engine.FuncName(g)+": process", "predicate "+engine.FuncName(g)+" ("+p.Rel(g.Pos())+")",
			"entry.TotalSeries > MaxProcessSeries ⇒ too big", "result = "+res.String())
	}
}

func controlsC04(p *engine.Prog) []Control { return nil }
