package rules

import (
	"fmt"
	"go/ast"
	"go/constant"
	"go/token"
	"sort"
	"strings"

	"golang.org/x/tools/go/ssa"

	"kvcheck/engine"
)

func init() {
	register(&Rule{ID: "C02", Run: runC02, Controls: controlsC02,
		Explanation: "Equivalence of the re-implemented label/URL pipeline with the Prometheus library for every relabel program is a semantic, input-quantified property that no static argument in reach decides. Decided are the writer/reader agreements without which no input can round-trip through coordinator → sidecar → Prometheus → proxy: " +
			"R2.1 routing-parameter table: the set of names written unconditionally as __param_<name> labels into every generated static group equals the set the proxy reads (Get) and strips (Del), and URL.Scheme is assigned directly from the scheme parameter; " +
			"R2.2 invalid-label-name escape: the prefix the discovery side prepends and the prefix of the generated labelmap rule are the same constant; the rule is LabelMap with regex prefix+(.+) and replacement $1, set on every job; " +
			"R2.3 plain http to the proxy, original scheme carried: job.Scheme and the group's __scheme__ label are the constant http (the label written after the target's labels were copied), and the scheme parameter carries the target's own __scheme__ label (default http); " +
			"R2.5 label precedence on the discovery side: all per-target labels enter the label set, group labels only where the target does not define the label itself (Prometheus' rule); R2.4 group shape: one group per assigned target, every label of the target copied unconditionally, __address__ taken from the target's labels, the hash parameter rendered from Target.Hash. " +
			"R2.6 completed address: after relabeling, __address__ and the instance default are the port-completed address and the address check is made on it (Prometheus' order); R2.7 fresh translation: every published target is translated in the current update under the job configuration that is current then (kept translations are reported: their invalidation is not decidable). " +
			"R2.6 also: the job defaults (job, metrics path, scheme) are set before relabeling exactly under 'discovered value is empty'; R2.8 the labels derived from the job's params are removed by their full name __param_<key> or by the name with exactly that prefix removed (no cut-set trimming or replacing of the name). " +
			"R2.9 no field of a url.URL is written in pkg/scrape: the target is requested at the URL the proxy rebuilt. " +
			"Not decided: everything that depends on label values (relabel evaluation, de-duplication, dropped targets).",
		Assumptions: []string{"go/types and go/ssa are correct"}})
}

func constString(v ssa.Value) (string, bool) {
	for i := 0; i < 4; i++ {
		switch x := v.(type) {
		case *ssa.MakeInterface:
			v = x.X
			continue
		case *ssa.ChangeType:
			v = x.X
			continue
		case *ssa.Convert:
			v = x.X
			continue
		}
		break
	}
	c, ok := v.(*ssa.Const)
	if !ok || c.Value == nil || c.Value.Kind() != constant.String {
		return "", false
	}
	return constant.StringVal(c.Value), true
}

// sprintfConcat: v is fmt.Sprintf("%s%s", a, b) (through ChangeType) with constant a, b; returns a, b.
func sprintfConcat(v ssa.Value) (string, string, bool) {
	if ct, ok := v.(*ssa.ChangeType); ok {
		v = ct.X
	}
	call, ok := v.(*ssa.Call)
	if !ok || !engine.CalleeIs(call.Common(), "fmt", "", "Sprintf") {
		return "", "", false
	}
	if f, ok := constString(call.Call.Args[0]); !ok || f != "%s%s" {
		return "", "", false
	}
	// the varargs array may be ordered by index
	sl, ok := call.Call.Args[1].(*ssa.Slice)
	if !ok {
		return "", "", false
	}
	al, ok := sl.X.(*ssa.Alloc)
	if !ok {
		return "", "", false
	}
	vals := map[int64]string{}
	for _, rr := range *al.Referrers() {
		ia, ok := rr.(*ssa.IndexAddr)
		if !ok {
			continue
		}
		ic, ok := ia.Index.(*ssa.Const)
		if !ok {
			return "", "", false
		}
		idx, _ := constant.Int64Val(ic.Value)
		for _, r2 := range *ia.Referrers() {
			if st, ok := r2.(*ssa.Store); ok {
				s, ok := constString(st.Val)
				if !ok {
					return "", "", false
				}
				vals[idx] = s
			}
		}
	}
	if len(vals) != 2 {
		return "", "", false
	}
	return vals[0], vals[1], true
}

func runC02(p *engine.Prog, r *engine.Report) {
	fURLScheme := p.Field("net/url", "URL", "Scheme")
	fLabels := p.Field(pkgTarget, "Target", "Labels")
	fHash := p.Field(pkgTarget, "Target", "Hash")
	prefixObj := p.Object(pkgTarget, "PrefixForInvalidLabelName")
	if len(p.Problems) > 0 {
		return
	}
	prefix := ""
	if c, ok := prefixObj.(interface{ Val() constant.Value }); ok {
		prefix = constant.StringVal(c.Val())
	}
	r.Min("R2.1-routing-parameters", 2)
	r.Min("R2.2-invalid-label-escape", 2)
	r.Min("R2.3-scheme", 2)
	r.Min("R2.4-group-shape", 1)
	r.Min("R2.5-label-precedence", 1)
	r.Min("R2.6-completed-address", 1)
	r.Min("R2.7-fresh-translation", 1)
	r.Min("R2.8-param-labels", 1)
	r.Min("R2.9-request-url", 1)
	r.Min("R2.10-scheme-only-for-default-port", 1)
	checkPopulate(p, r)
	checkFreshTranslation(p, r)
	checkParamFilter(p, r)
	checkRequestURL(p, r)

	// ---- the group writer: function building targetgroup.Group from []*target.Target
	var writer *ssa.Function
	var groupAppend *ssa.Call
	for _, fn := range p.Funcs {
		if !engine.InPkg(fn, pkgSide) {
			continue
		}
		for _, in := range allInstrs(fn) {
			if al, ok := in.(*ssa.Alloc); ok && strings.HasSuffix(al.Type().String(), "targetgroup.Group") {
				for _, in2 := range allInstrs(fn) {
					if call, ok := in2.(*ssa.Call); ok {
						if bi, ok := call.Call.Value.(*ssa.Builtin); ok && bi.Name() == "append" {
							for _, e := range varargElems(call.Call.Args[1]) {
								if e == ssa.Value(al) {
									writer, groupAppend = fn, call
								}
							}
						}
					}
				}
			}
		}
	}
	written := map[string]ssa.Value{} // param name -> value written
	if writer == nil {
		r.Add("R2.4-group-shape", "group writer", pkgSide, "a function appending targetgroup.Group values", "not found", engine.Undecided)
	} else {
		fi := p.Info(writer)
		tgtLoop := loopOf(fi, groupAppend.Block())
		var probs, probsScheme, probsParams []string
		if tgtLoop == nil {
			probs = append(probs, "groups are not appended in a loop over the targets")
		} else {
			for _, pr := range tgtLoop.header.Preds {
				if fi.IsBackEdge(pr, tgtLoop.header) && !groupAppend.Block().Dominates(pr) {
					probs = append(probs, "a target can be skipped without a group being generated for it")
				}
			}
		}
		// the target being written: element of the slice parameter
		var tgt string
		for _, in := range allInstrs(writer) {
			if u, ok := in.(*ssa.UnOp); ok {
				if ia, ok := u.X.(*ssa.IndexAddr); ok {
					if _, isParam := ia.X.(*ssa.Parameter); isParam && tgtLoop != nil && tgtLoop.blocks[u.Block().Index] {
						if strings.HasSuffix(u.Type().String(), "target.Target") {
							tgt = fi.T(u).S
						}
					}
				}
			}
		}
		// label set map: the MakeMap stored into Group.Labels
		var ls *ssa.MakeMap
		for _, in := range allInstrs(writer) {
			if st, ok := in.(*ssa.Store); ok {
				if fa, ok := st.Addr.(*ssa.FieldAddr); ok && engine.FieldOf(fa).Name() == "Labels" && strings.HasSuffix(fa.X.Type().String(), "targetgroup.Group") {
					ls, _ = st.Val.(*ssa.MakeMap)
				}
			}
		}
		if ls == nil || tgt == "" {
			probs = append(probs, "the group's label set or the target element could not be identified")
		} else {
			copied := false
			var schemeConst *ssa.MapUpdate
			var copyUpd *ssa.MapUpdate
			for _, rr := range *ls.Referrers() {
				mu, ok := rr.(*ssa.MapUpdate)
				if !ok || mu.Map != ssa.Value(ls) {
					continue
				}
				if a, b, ok := sprintfConcat(mu.Key); ok && a == "__param_" {
					written[b] = mu.Value
					// unconditional per target
					if tgtLoop != nil {
						for _, pr := range tgtLoop.header.Preds {
							if fi.IsBackEdge(pr, tgtLoop.header) && !mu.Block().Dominates(pr) {
								probsParams = append(probsParams, "routing parameter "+b+" is not written for every target")
							}
						}
						if lp := loopOf(fi, mu.Block()); lp == nil || lp.header != tgtLoop.header {
							probsParams = append(probsParams, "routing parameter "+b+" is written inside an inner loop")
						}
					}
					continue
				}
				if k, ok := constString(mu.Key); ok && strings.HasPrefix(k, "__param_") && len(k) > len("__param_") {
					b := k[len("__param_"):]
					written[b] = mu.Value
					if tgtLoop != nil {
						for _, pr := range tgtLoop.header.Preds {
							if fi.IsBackEdge(pr, tgtLoop.header) && !mu.Block().Dominates(pr) {
								probsParams = append(probsParams, "routing parameter "+b+" is not written for every target")
							}
						}
						if lp := loopOf(fi, mu.Block()); lp == nil || lp.header != tgtLoop.header {
							probsParams = append(probsParams, "routing parameter "+b+" is written inside an inner loop")
						}
					}
					continue
				}
				if k, ok := constString(mu.Key); ok {
					if k == "__scheme__" {
						schemeConst = mu
						if v, ok := constString(mu.Value); !ok || v != "http" {
							probsScheme = append(probsScheme, "the group's __scheme__ label is "+fi.T(mu.Value).S+", not the constant http")
						}
					}
					continue
				}
				// copy of the target's labels
				kt, vt := fi.T(mu.Key).S, fi.T(mu.Value).S
				if strings.HasPrefix(kt, tgt+"."+fLabels.Name()+"[") && strings.HasSuffix(kt, ".Name") && strings.HasPrefix(vt, tgt+"."+fLabels.Name()+"[") && strings.HasSuffix(vt, ".Value") {
					copied = true
					copyUpd = mu
					if lp := loopOf(fi, mu.Block()); lp != nil {
						for _, pr := range lp.header.Preds {
							if fi.IsBackEdge(pr, lp.header) && !mu.Block().Dominates(pr) {
								probs = append(probs, "a label of the target can be left out of the generated group (labels with the invalid-name prefix and internal labels must reach Prometheus)")
							}
						}
					}
				} else {
					probs = append(probs, "the group's label set receives "+kt+" = "+vt)
				}
			}
			if !copied {
				probs = append(probs, "the target's labels are not copied into the group")
			}
			if schemeConst == nil {
				probsScheme = append(probsScheme, "the group's __scheme__ label is not forced to http")
			} else if copyUpd != nil && !blockReaches(copyUpd.Block(), schemeConst.Block()) {
				probsScheme = append(probsScheme, "__scheme__ = http is written before the target's labels are copied (the target's own scheme would win)")
			}
			// scheme parameter value: phi over default http and the target's __scheme__ label value
			if v, ok := written["_scheme"]; ok {
				okS := false
				x := v
				if ct, ok := x.(*ssa.ChangeType); ok {
					x = ct.X
				}
				if ph, ok := x.(*ssa.Phi); ok {
					hasDefault, hasLabel := false, false
					var walk func(q *ssa.Phi, seen map[*ssa.Phi]bool)
					walk = func(q *ssa.Phi, seen map[*ssa.Phi]bool) {
						if seen[q] {
							return
						}
						seen[q] = true
						for k, e := range q.Edges {
							if s, ok := constString(e); ok && s == "http" {
								hasDefault = true
							} else if q2, ok := e.(*ssa.Phi); ok {
								walk(q2, seen)
							} else if strings.HasPrefix(fi.T(e).S, tgt+"."+fLabels.Name()+"[") && strings.HasSuffix(fi.T(e).S, ".Value") {
								// taken under Name == "__scheme__"
								need := engine.EqAtom(strings.TrimSuffix(fi.T(e).S, ".Value")+".Name", `"__scheme__"`)
								if ok, _ := fi.View(need).ImpliesEdge(q.Block().Preds[k], q.Block(), need); ok {
									hasLabel = true
								}
							}
						}
					}
					walk(ph, map[*ssa.Phi]bool{})
					okS = hasDefault && hasLabel
				}
				if !okS {
					probsScheme = append(probsScheme, "the scheme parameter carries "+fi.T(v).S+", not the target's own __scheme__ label (default http)")
				}
			}
			// address and hash
			for _, in := range allInstrs(writer) {
				if mu, ok := in.(*ssa.MapUpdate); ok && mu.Map != ssa.Value(ls) {
					if k, ok := constString(mu.Key); ok && k == "__address__" {
						x := mu.Value
						if ct, ok := x.(*ssa.ChangeType); ok {
							x = ct.X
						}
						if _, isPhi := x.(*ssa.Phi); !isPhi {
							probs = append(probs, "__address__ of the group is "+fi.T(mu.Value).S)
						}
					}
				}
			}
			if v, ok := written["_hash"]; ok {
				if call, ok := unwrapCT(v).(*ssa.Call); ok && engine.CalleeIs(call.Common(), "strconv", "", "FormatUint") {
					// decimal rendering of the unsigned hash, the same text fmt.Sprint gives (the proxy parses base 10)
					h, okH := loadOfField(call.Call.Args[0], fHash)
					base, okB := call.Call.Args[1].(*ssa.Const)
					if !okH || fi.T(h).S != tgt {
						probs = append(probs, "the hash parameter is not rendered from the target's Hash")
					}
					if !okB || base.Value == nil || base.Value.ExactString() != "10" {
						probs = append(probs, "the hash parameter is not rendered in base 10 (the proxy parses it as decimal)")
					}
				} else if !strings.Contains(fi.T(v).S, "call fmt.Sprint(") {
					probs = append(probs, "the hash parameter is "+fi.T(v).S)
				} else if call, ok := unwrapCT(v).(*ssa.Call); ok {
					okH := false
					for _, e := range varargElems(call.Call.Args[0]) {
						if h, ok := loadOfField(unwrapIface(e), fHash); ok && fi.T(h).S == tgt {
							okH = true
						}
					}
					if !okH {
						probs = append(probs, "the hash parameter is not rendered from the target's Hash")
					}
				}
			}
			if v, ok := written["_jobName"]; ok {
				if _, isParam := unwrapCT(v).(*ssa.Parameter); !isParam {
					probs = append(probs, "the job parameter is "+fi.T(v).S+", not the job the group is generated for")
				}
			}
		}
		r.Check(len(probs) == 0, "R2.4-group-shape", "group writer "+engine.FuncName(writer), engine.FuncName(writer)+" ("+p.Rel(writer.Pos())+")",
			"one group per target; all labels copied; __address__ from the labels; hash parameter from Target.Hash; job parameter = the job", strings.Join(probs, "; "))
		r.Check(len(probsScheme) == 0, "R2.3-scheme", "scheme in "+engine.FuncName(writer), engine.FuncName(writer), "__scheme__ label forced to http after copying; scheme parameter = target's own scheme (default http)", strings.Join(probsScheme, "; "))
		// ---- R2.1 reader side
		var reader *ssa.Function
		gets, dels := map[string]*ssa.Call{}, map[string]bool{}
		for _, fn := range p.Funcs {
			if !engine.InPkg(fn, pkgSide) {
				continue
			}
			for _, in := range allInstrs(fn) {
				if call, ok := in.(*ssa.Call); ok {
					if engine.CalleeIs(call.Common(), "net/url", "Values", "Del") {
						if s, ok := constString(call.Call.Args[1]); ok {
							dels[s] = true
							reader = fn
						} else if names, ok := constTableElems(p, call.Call.Args[1]); ok {
							// Del(name) for every name of a package-level table of constants
							for _, s := range names {
								dels[s] = true
							}
							reader = fn
						}
					}
				}
			}
		}
		if reader != nil {
			rfi := p.Info(reader)
			for _, in := range allInstrs(reader) {
				if call, ok := in.(*ssa.Call); ok && engine.CalleeIs(call.Common(), "net/url", "Values", "Get") {
					if s, ok := constString(call.Call.Args[1]); ok {
						gets[s] = call
					}
				}
			}
			set := func(m map[string]bool) string {
				var ks []string
				for k := range m {
					ks = append(ks, k)
				}
				sort.Strings(ks)
				return "{" + strings.Join(ks, ",") + "}"
			}
			w, g := map[string]bool{}, map[string]bool{}
			for k := range written {
				w[k] = true
			}
			for k := range gets {
				g[k] = true
			}
			if set(w) != set(g) || set(w) != set(dels) {
				probsParams = append(probsParams, "written "+set(w)+", read "+set(g)+", stripped "+set(dels))
			}
			if len(w) < 3 {
				probsParams = append(probsParams, "fewer than the three routing parameters (job, hash, scheme) are written")
			}
			// URL.Scheme assigned directly from Get(scheme param)
			okSch := false
			for _, f := range p.Funcs {
				if !engine.InPkg(f, pkgSide) {
					continue
				}
				ffi := p.Info(f)
				for _, in := range allInstrs(f) {
					if st, ok := in.(*ssa.Store); ok {
						if fa, ok := st.Addr.(*ssa.FieldAddr); ok && engine.FieldOf(fa) == fURLScheme {
							if call, ok := st.Val.(*ssa.Call); ok && engine.CalleeIs(call.Common(), "net/url", "Values", "Get") && f == reader {
								if s, _ := constString(call.Call.Args[1]); s == "_scheme" || (written[s] != nil && s != "_hash" && s != "_jobName") {
									okSch = true
									continue
								}
							}
							if f == reader || strings.Contains(ffi.T(fa.X).S, "translateURL") {
								probsParams = append(probsParams, "URL.Scheme of the real request is set to "+ffi.T(st.Val).S+" in "+engine.FuncName(f)+", not directly to the scheme parameter")
							}
						}
					}
				}
			}
			if !okSch {
				probsParams = append(probsParams, "the scheme parameter is not restored into URL.Scheme")
			}
			_ = rfi
			// the URL used for the real request is the reader's result, unmodified
			if pr := findProxy(p); pr != nil {
				for _, in := range allInstrs(pr.fn) {
					if st, ok := in.(*ssa.Store); ok {
						if fa, ok := st.Addr.(*ssa.FieldAddr); ok && engine.FieldOf(fa) == fURLScheme {
							probsParams = append(probsParams, "the proxy handler overrides URL.Scheme after translation (at "+p.Rel(st.Pos())+")")
						}
					}
				}
			}
		} else {
			probsParams = append(probsParams, "no function strips routing parameters from the proxied URL")
		}
		r.Check(len(probsParams) == 0, "R2.1-routing-parameters", "routing parameter table", engine.FuncName(writer)+" vs the proxy's URL translation",
			"written (unconditionally, per target) = read = stripped; scheme restored directly from its parameter", strings.Join(probsParams, "; "))
		r.Add("R2.1-routing-parameters", "writer parameters", engine.FuncName(writer), "enumerated", fmt.Sprintf("%d parameters", len(written)), engine.Discharged).Trivial = true
	}

	// ---- R2.2 + R2.3 job side
	nJob := 0
	for _, fn := range p.Funcs {
		if !engine.InPkg(fn, pkgSide) {
			continue
		}
		fi := p.Info(fn)
		for _, in := range allInstrs(fn) {
			st, ok := in.(*ssa.Store)
			if !ok {
				continue
			}
			fa, ok := st.Addr.(*ssa.FieldAddr)
			if !ok || !strings.HasSuffix(fa.X.Type().String(), "config.ScrapeConfig") {
				continue
			}
			switch engine.FieldOf(fa).Name() {
			case "Scheme":
				nJob++
				v, ok := constString(st.Val)
				r.Check(ok && v == "http", "R2.3-scheme", fmt.Sprintf("job scheme store#%d in %s", nJob, engine.FuncName(fn)), "job.Scheme at "+p.Rel(st.Pos()), "the constant http (Prometheus talks plain http to the proxy)", fi.T(st.Val).S)
			case "RelabelConfigs":
				var probs []string
				// slice literal with one *relabel.Config
				elems := sliceLitElems(st.Val)
				if len(elems) != 1 {
					probs = append(probs, fmt.Sprintf("%d relabel rules installed (want exactly the label-name repair rule)", len(elems)))
				}
				for _, e := range elems {
					al, ok := e.(*ssa.Alloc)
					if !ok {
						probs = append(probs, "rule is "+fi.T(e).S)
						continue
					}
					if a := fi.StructFieldByName(al, "Action"); a != `"labelmap"` {
						probs = append(probs, "action is "+a+", not labelmap")
					}
					if a := fi.StructFieldByName(al, "Replacement"); a != `"$1"` {
						probs = append(probs, "replacement is "+a+", not $1")
					}
					rg := fi.StructFieldByName(al, "Regex")
					if !strings.Contains(rg, fmt.Sprintf("MustNewRegexp(%q)", prefix+"(.+)")) {
						probs = append(probs, "regex is "+rg+", not "+prefix+"(.+) with the discovery side's prefix constant")
					}
				}
				// on every job: inside the loop over ScrapeConfigs, dominating its latch
				if lp := loopOf(fi, st.Block()); lp != nil {
					for _, pr := range lp.header.Preds {
						if fi.IsBackEdge(pr, lp.header) && !st.Block().Dominates(pr) {
							// error returns leave the loop, they are not latches; a latch not dominated is a skip
							probs = append(probs, "a job can be generated without the repair rule")
						}
					}
				} else {
					probs = append(probs, "the rule is not installed per job")
				}
				r.Check(len(probs) == 0, "R2.2-invalid-label-escape", "labelmap rule in "+engine.FuncName(fn), "job.RelabelConfigs at "+p.Rel(st.Pos()), "one LabelMap rule: regex "+prefix+"(.+), replacement $1, on every job", strings.Join(probs, "; "))
			}
		}
	}
	// ---- R2.5 per-target labels take precedence over group labels (as in Prometheus' TargetsFromGroup)
	for _, fn := range p.Funcs {
		if !engine.InPkg(fn, pkgDisc) {
			continue
		}
		fi := p.Info(fn)
		for _, in := range allInstrs(fn) {
			nw, ok := in.(*ssa.Call)
			if !ok || !engine.CalleeIs(nw.Common(), "github.com/prometheus/prometheus/model/labels", "", "New") {
				continue
			}
			// only the call that turns a discovered group into a label set (argument built in this function)
			var probs []string
			var appends []*ssa.Call
			seen := map[ssa.Value]bool{}
			var walk func(v ssa.Value)
			walk = func(v ssa.Value) {
				if seen[v] {
					return
				}
				seen[v] = true
				switch x := v.(type) {
				case *ssa.Phi:
					for _, e := range x.Edges {
						walk(e)
					}
				case *ssa.Call:
					if bi, ok := x.Call.Value.(*ssa.Builtin); ok && bi.Name() == "append" {
						appends = append(appends, x)
						walk(x.Call.Args[0])
						return
					}
					probs = append(probs, "the label list is produced by "+short(fi.T(x).S)+" (precedence between per-target and group labels cannot be seen)")
				case *ssa.MakeSlice, *ssa.Const, *ssa.Slice:
				default:
					probs = append(probs, "the label list comes from "+short(fi.T(v).S))
				}
			}
			walk(nw.Call.Args[0])
			if len(appends) == 0 {
				continue
			}
			var targetSet string
			type contrib struct {
				app *ssa.Call
				rng *ssa.Range
			}
			var cs []contrib
			for _, app := range appends {
				for _, e := range varargElems(app.Call.Args[1]) {
					u, ok := e.(*ssa.UnOp)
					if !ok {
						continue
					}
					al, ok := u.X.(*ssa.Alloc)
					if !ok {
						continue
					}
					// Name: string(range key)
					for _, rr := range *al.Referrers() {
						fa, ok := rr.(*ssa.FieldAddr)
						if !ok || engine.FieldOf(fa).Name() != "Name" {
							continue
						}
						for _, r2 := range *fa.Referrers() {
							st, ok := r2.(*ssa.Store)
							if !ok {
								continue
							}
							if ex, ok := unwrapCT(st.Val).(*ssa.Extract); ok {
								if nx, ok := ex.Tuple.(*ssa.Next); ok {
									if rg, ok := nx.Iter.(*ssa.Range); ok {
										cs = append(cs, contrib{app, rg})
									}
								}
							}
						}
					}
				}
			}
			if len(cs) < 2 {
				continue
			}
			// the per-target set: ranged map that is an element of a slice field (tg.Targets[i]); the group set: a field (tg.Labels)
			for _, c0 := range cs {
				if strings.Contains(fi.T(c0.rng.X).S, "[") {
					targetSet = fi.T(c0.rng.X).S
				}
			}
			if targetSet == "" {
				probs = append(probs, "the per-target label set could not be identified")
			}
			for _, c0 := range cs {
				xt := fi.T(c0.rng.X).S
				if xt == targetSet {
					// unconditional within its loop
					if lp := loopOf(fi, c0.app.Block()); lp != nil {
						for _, pr := range lp.header.Preds {
							if fi.IsBackEdge(pr, lp.header) && !c0.app.Block().Dominates(pr) {
								probs = append(probs, "a per-target label can be left out")
							}
						}
					}
					continue
				}
				need := engine.Not(engine.A("has(" + targetSet + "[rk:" + c0.rng.Name() + "])"))
				if ok, have := fi.Implies(c0.app.Block(), need); !ok {
					probs = append(probs, "a group label ("+short(xt)+") is added without 'the target does not define this label itself' on the path: "+strings.Join(nonStructural(have), " ∧ "))
				}
			}
			r.Check(len(probs) == 0, "R2.5-label-precedence", "label merge in "+engine.FuncName(fn), "labels.New at "+p.Rel(nw.Pos()), "all per-target labels; group labels only where the target does not define the label itself", strings.Join(probs, "; "))
		}
	}

	// the same merge through a map: labels.FromMap(m) with m filled from the group's labels and then from the target's own
	// (the later write wins), or group labels written only where the target has none
	for _, fn := range p.Funcs {
		if !engine.InPkg(fn, pkgDisc) {
			continue
		}
		fi := p.Info(fn)
		for _, in := range allInstrs(fn) {
			fm, ok := in.(*ssa.Call)
			if !ok || !engine.CalleeIs(fm.Common(), "github.com/prometheus/prometheus/model/labels", "", "FromMap") {
				continue
			}
			mm, ok := fm.Call.Args[0].(*ssa.MakeMap)
			if !ok {
				continue
			}
			type contrib struct {
				mu  *ssa.MapUpdate
				rng *ssa.Range
			}
			var own, group []contrib
			for _, rr := range *mm.Referrers() {
				mu, ok := rr.(*ssa.MapUpdate)
				if !ok || mu.Map != ssa.Value(mm) {
					continue
				}
				if ex, ok := unwrapCT(mu.Key).(*ssa.Extract); ok {
					if nx, ok := ex.Tuple.(*ssa.Next); ok {
						if rg, ok := nx.Iter.(*ssa.Range); ok {
							if strings.Contains(fi.T(rg.X).S, "[") {
								own = append(own, contrib{mu, rg})
							} else {
								group = append(group, contrib{mu, rg})
							}
						}
					}
				}
			}
			if len(own) == 0 || len(group) == 0 {
				continue
			}
			var probs []string
			for _, o := range own {
				if lp := loopOf(fi, o.mu.Block()); lp != nil {
					for _, pr := range lp.header.Preds {
						if fi.IsBackEdge(pr, lp.header) && !o.mu.Block().Dominates(pr) {
							probs = append(probs, "a per-target label can be left out")
						}
					}
				}
			}
			for _, g := range group {
				guarded, _ := fi.Implies(g.mu.Block(), engine.Not(engine.A("has("+fi.T(own[0].rng.X).S+"[rk:"+g.rng.Name()+"])")))
				before := true
				for _, o := range own {
					if reachesForward(fi, o.mu.Block(), g.mu.Block()) {
						before = false
					}
				}
				if !guarded && !before {
					probs = append(probs, "a group label ("+short(fi.T(g.rng.X).S)+") can overwrite the target's own label: it is written after the target's labels and without 'the target does not define it'")
				}
			}
			r.Check(len(probs) == 0, "R2.5-label-precedence", "label merge in "+engine.FuncName(fn), "labels.FromMap at "+p.Rel(fm.Pos()), "all per-target labels; group labels only where the target does not define the label itself", strings.Join(probs, "; "))
		}
	}

	// discovery side prefixing
	okPre := false
	var whyPre string
	for _, fn := range p.Funcs {
		if !engine.InPkg(fn, pkgDisc) {
			continue
		}
		fi := p.Info(fn)
		for _, in := range allInstrs(fn) {
			bo, ok := in.(*ssa.BinOp)
			if !ok {
				continue
			}
			if s, ok := constString(bo.X); ok && s == prefix && prefix != "" {
				// prefix + l.Name stored back into the label's Name, under !IsValid
				if strings.HasSuffix(strings.Split(fi.T(bo.Y).S, "@")[0], ".Name") {
					okPre = true
					hasValid := false
					for _, g := range fi.Guards(bo.Block()) {
						if strings.Contains(g, "IsValid") && strings.HasPrefix(g, "¬") {
							hasValid = true
						}
					}
					if !hasValid {
						okPre = false
						whyPre = "the prefix is not applied exactly to names that are not valid label names"
					}
				}
			}
		}
	}
	r.Check(okPre, "R2.2-invalid-label-escape", "prefixing in pkg/discovery", "pkg/discovery", "invalid label names are shipped as "+prefix+"<name> (same constant as the sidecar's rule)", whyPre)
}

func unwrapCT(v ssa.Value) ssa.Value {
	for i := 0; i < 4; i++ {
		switch x := v.(type) {
		case *ssa.ChangeType:
			v = x.X
		case *ssa.MakeInterface:
			v = x.X
		default:
			return v
		}
	}
	return v
}

// sliceLitElems returns the elements of a slice literal value (slice of a fresh array with element stores).
func sliceLitElems(v ssa.Value) []ssa.Value {
	sl, ok := v.(*ssa.Slice)
	if !ok {
		return nil
	}
	al, ok := sl.X.(*ssa.Alloc)
	if !ok {
		return nil
	}
	var out []ssa.Value
	for _, rr := range *al.Referrers() {
		if ia, ok := rr.(*ssa.IndexAddr); ok {
			for _, r2 := range *ia.Referrers() {
				if st, ok := r2.(*ssa.Store); ok && st.Addr == ssa.Value(ia) {
					out = append(out, st.Val)
				}
			}
		}
	}
	return out
}

func controlsC02(p *engine.Prog) []Control {
	// the names the shipped labels are filtered by are not "__param_"+key any more -> R2.8
	c1 := astControl(p, pkgDisc, "param label names lower-cased before they are searched", "C02/R2.8", func(n ast.Node, src []byte, off func(token.Pos) int) (int, int, string, bool) {
		ap, ok := n.(*ast.CallExpr)
		if !ok || len(ap.Args) != 2 {
			return 0, 0, "", false
		}
		if f, ok := ap.Fun.(*ast.Ident); !ok || f.Name != "append" {
			return 0, 0, "", false
		}
		be, ok := ap.Args[1].(*ast.BinaryExpr)
		if !ok || be.Op != token.ADD {
			return 0, 0, "", false
		}
		sel, ok := be.X.(*ast.SelectorExpr)
		if !ok || sel.Sel.Name != "ParamLabelPrefix" {
			return 0, 0, "", false
		}
		id, ok := be.Y.(*ast.Ident)
		if !ok || id.Name != "k" {
			return 0, 0, "", false
		}
		return off(id.Pos()), off(id.End()), "strings.ToLower(k)", true
	})
	// the scraper edits the URL it requests -> R2.9 (instance count zero on the tree)
	c2 := astControl(p, pkgScrape, "request URL host rewritten in the scraper", "C02/R2.9", func(n ast.Node, src []byte, off func(token.Pos) int) (int, int, string, bool) {
		es, ok := n.(*ast.ExprStmt)
		if !ok {
			return 0, 0, "", false
		}
		call, ok := es.X.(*ast.CallExpr)
		if !ok {
			return 0, 0, "", false
		}
		sel, ok := call.Fun.(*ast.SelectorExpr)
		if !ok || sel.Sel.Name != "Add" {
			return 0, 0, "", false
		}
		hs, ok := sel.X.(*ast.SelectorExpr)
		if !ok || hs.Sel.Name != "Header" {
			return 0, 0, "", false
		}
		recv := string(src[off(hs.X.Pos()):off(hs.X.End())])
		return off(es.Pos()), off(es.Pos()), recv + ".URL.Host = " + recv + ".URL.Host + \"\"\n\t", true
	})
	return []Control{c1, c2}
}

// constTableElems: v is the element variable of a range (index loop) over a package-level []string that is
// initialised once with constants and never written again; it returns the constants.
func constTableElems(p *engine.Prog, v ssa.Value) ([]string, bool) {
	u, ok := v.(*ssa.UnOp)
	if !ok {
		return nil, false
	}
	ia, ok := u.X.(*ssa.IndexAddr)
	if !ok {
		return nil, false
	}
	ld, ok := ia.X.(*ssa.UnOp)
	if !ok {
		return nil, false
	}
	g, ok := ld.X.(*ssa.Global)
	if !ok {
		return nil, false
	}
	// the index runs over the whole table: a range loop (phi-based index compared with len of the same load)
	if _, isConstIdx := ia.Index.(*ssa.Const); isConstIdx {
		return nil, false
	}
	var out []string
	nStores := 0
	for _, fn := range ssautilAllList(p) {
		for _, in := range allInstrs(fn) {
			st, ok := in.(*ssa.Store)
			if !ok || st.Addr != ssa.Value(g) {
				continue
			}
			nStores++
			if fn.Name() != "init" {
				return nil, false
			}
			sl, ok := st.Val.(*ssa.Slice)
			if !ok || sl.Low != nil || sl.High != nil {
				return nil, false
			}
			al, ok := sl.X.(*ssa.Alloc)
			if !ok {
				return nil, false
			}
			for _, rr := range *al.Referrers() {
				ia2, ok := rr.(*ssa.IndexAddr)
				if !ok {
					continue
				}
				for _, r2 := range *ia2.Referrers() {
					if s2, ok := r2.(*ssa.Store); ok && s2.Addr == ssa.Value(ia2) {
						c, ok := constString(s2.Val)
						if !ok {
							return nil, false
						}
						out = append(out, c)
					}
				}
			}
		}
	}
	// the address of the table must not be taken otherwise, and no element assigned
	if g.Referrers() != nil {
		return nil, false
	}
	if nStores != 1 || len(out) == 0 {
		return nil, false
	}
	// element stores through a load of the global anywhere in kvass
	for _, fn := range p.Funcs {
		for _, in := range allInstrs(fn) {
			if st, ok := in.(*ssa.Store); ok {
				if ia3, ok := st.Addr.(*ssa.IndexAddr); ok {
					if l3, ok := ia3.X.(*ssa.UnOp); ok && l3.X == ssa.Value(g) {
						return nil, false
					}
				}
			}
		}
	}
	return out, true
}

func ssautilAllList(p *engine.Prog) []*ssa.Function {
	var out []*ssa.Function
	for fn := range ssautilAll(p) {
		if fn.Pkg != nil && strings.HasPrefix(fn.Pkg.Pkg.Path(), engine.ModPath) {
			out = append(out, fn)
		}
	}
	return out
}

// reachesForward: to is reachable from from without taking a back edge (within one iteration of every enclosing loop).
func reachesForward(fi *engine.FuncInfo, from, to *ssa.BasicBlock) bool {
	seen := map[*ssa.BasicBlock]bool{from: true}
	work := []*ssa.BasicBlock{from}
	for len(work) > 0 {
		b := work[len(work)-1]
		work = work[:len(work)-1]
		for _, sc := range b.Succs {
			if fi.IsBackEdge(b, sc) || seen[sc] {
				continue
			}
			if sc == to {
				return true
			}
			seen[sc] = true
			work = append(work, sc)
		}
	}
	return false
}
