package rules

import (
	"go/token"
	"go/types"
	"strings"

	"golang.org/x/tools/go/ssa"

	"kvcheck/engine"
)

// Value flow of an io.Reader: where the bytes a reader hands out come from.
// A reader expression is followed back through phis, interface conversions, kvass constructor
// functions, kvass wrapper types whose Read passes the underlying count and error on unchanged,
// and the standard library's buffering readers. What is left are the leaves: field loads,
// results of library calls, parameters.

type rdLeaf struct {
	v    ssa.Value
	fn   *ssa.Function
	kind string // "load", "call", "param", "truncating", "opaque"
	// phi edges in the root function through which the leaf reaches the root value (all of them are taken)
	edges [][2]*ssa.BasicBlock
	via   []string
	note  string
}

type rdWalker struct {
	p    *engine.Prog
	root *ssa.Function
	out  []rdLeaf
	seen map[ssa.Value]bool
}

// truncatingReaders end the stream with a clean io.EOF before the underlying reader does.
var truncatingReaders = map[string]bool{
	"io.LimitReader":      true,
	"io.NewSectionReader": true,
}

// transparentReaders hand out exactly the bytes and the final error of their first argument.
var transparentReaders = map[string]bool{
	"bufio.NewReader":     true,
	"bufio.NewReaderSize": true,
	"io.NopCloser":        true,
	"io/ioutil.NopCloser": true,
}

func readerSources(p *engine.Prog, root *ssa.Function, v ssa.Value) []rdLeaf {
	w := &rdWalker{p: p, root: root, seen: map[ssa.Value]bool{}}
	w.walk(root, v, nil, nil, nil, 0)
	return w.out
}

func (w *rdWalker) leaf(fn *ssa.Function, v ssa.Value, kind string, edges [][2]*ssa.BasicBlock, via []string, note string) {
	w.out = append(w.out, rdLeaf{v: v, fn: fn, kind: kind, edges: append([][2]*ssa.BasicBlock(nil), edges...), via: append([]string(nil), via...), note: note})
}

// args maps the parameters of fn to the values of the calling frame (one level of context per constructor call).
type rdFrame struct {
	call   *ssa.Call
	fn     *ssa.Function
	parent *rdFrame
}

func (w *rdWalker) walk(fn *ssa.Function, v ssa.Value, fr *rdFrame, edges [][2]*ssa.BasicBlock, via []string, depth int) {
	if depth > 12 {
		w.leaf(fn, v, "opaque", edges, via, "reader construction nested too deeply to follow")
		return
	}
	switch x := v.(type) {
	case *ssa.Phi:
		for i, e := range x.Edges {
			es := edges
			if fn == w.root {
				es = append(append([][2]*ssa.BasicBlock(nil), edges...), [2]*ssa.BasicBlock{x.Block().Preds[i], x.Block()})
			}
			w.walk(fn, e, fr, es, via, depth+1)
		}
	case *ssa.MakeInterface:
		w.walk(fn, x.X, fr, edges, via, depth+1)
	case *ssa.ChangeInterface:
		w.walk(fn, x.X, fr, edges, via, depth+1)
	case *ssa.ChangeType:
		w.walk(fn, x.X, fr, edges, via, depth+1)
	case *ssa.TypeAssert:
		w.walk(fn, x.X, fr, edges, via, depth+1)
	case *ssa.Parameter:
		if fr != nil && fr.fn == fn {
			for i, prm := range fn.Params {
				if prm == x && i < len(fr.call.Call.Args) {
					w.walk(fr.call.Parent(), fr.call.Call.Args[i], fr.parent, edges, via, depth+1)
					return
				}
			}
		}
		w.leaf(fn, v, "param", edges, via, "")
	case *ssa.Call:
		callee := x.Call.StaticCallee()
		name := ""
		if callee != nil && callee.Object() != nil {
			if f, ok := callee.Object().(*types.Func); ok {
				name = f.FullName()
			}
		}
		switch {
		case truncatingReaders[name]:
			w.leaf(fn, v, "truncating", edges, via, name+" ends the stream with a clean end of file at its limit")
		case transparentReaders[name]:
			w.walk(fn, x.Call.Args[0], fr, edges, append(via, name), depth+1)
		case callee != nil && callee.Blocks != nil && strings.HasPrefix(engine.PkgOf(callee), "tkestack.io/kvass"):
			nfr := &rdFrame{call: x, fn: callee, parent: fr}
			for _, ret := range returnsOf(callee) {
				if len(ret.Results) == 0 {
					continue
				}
				w.walk(callee, ret.Results[0], nfr, edges, append(via, engine.FuncName(callee)), depth+1)
			}
		default:
			w.leaf(fn, v, "call", edges, via, name)
		}
	case *ssa.Extract:
		w.leaf(fn, v, "call", edges, via, "")
	case *ssa.Alloc:
		w.walkAlloc(fn, x, fr, edges, via, depth)
	case *ssa.UnOp:
		if x.Op == token.MUL {
			w.leaf(fn, v, "load", edges, via, "")
			return
		}
		w.leaf(fn, v, "opaque", edges, via, "")
	default:
		w.leaf(fn, v, "opaque", edges, via, "")
	}
}

// walkAlloc: &T{...} of a wrapper type: T's Read must be transparent; continue with the wrapped reader.
func (w *rdWalker) walkAlloc(fn *ssa.Function, al *ssa.Alloc, fr *rdFrame, edges [][2]*ssa.BasicBlock, via []string, depth int) {
	pt, ok := al.Type().(*types.Pointer)
	if !ok {
		w.leaf(fn, al, "opaque", edges, via, "")
		return
	}
	named, ok := pt.Elem().(*types.Named)
	if !ok {
		w.leaf(fn, al, "opaque", edges, via, "")
		return
	}
	tname := named.Obj().Pkg().Path() + "." + named.Obj().Name()
	if tname == "io.LimitedReader" || tname == "io.SectionReader" {
		w.leaf(fn, al, "truncating", edges, via, tname+" ends the stream with a clean end of file at its limit")
		return
	}
	sel := w.p.SSA.MethodSets.MethodSet(al.Type()).Lookup(nil, "Read")
	if sel == nil {
		sel = w.p.SSA.MethodSets.MethodSet(al.Type()).Lookup(named.Obj().Pkg(), "Read")
	}
	if sel == nil {
		w.leaf(fn, al, "opaque", edges, via, tname+" has no Read method")
		return
	}
	var field *types.Var
	idx := sel.Index()
	if len(idx) > 1 {
		// promoted through an embedded field
		st, _ := named.Underlying().(*types.Struct)
		if st == nil {
			w.leaf(fn, al, "opaque", edges, via, "")
			return
		}
		field = st.Field(idx[0])
		if len(idx) > 2 {
			w.leaf(fn, al, "opaque", edges, via, tname+".Read is promoted through more than one embedded field")
			return
		}
	} else {
		m := w.p.SSA.MethodValue(sel)
		if m == nil || m.Blocks == nil {
			w.leaf(fn, al, "opaque", edges, via, tname+".Read has no source")
			return
		}
		f, why := transparentRead(w.p, m)
		if f == nil {
			w.leaf(fn, al, "opaque", edges, via, tname+".Read: "+why)
			return
		}
		field = f
	}
	// stores to that field of this allocation
	n := 0
	for _, ref := range *al.Referrers() {
		fa, ok := ref.(*ssa.FieldAddr)
		if !ok || engine.FieldOf(fa) != field {
			continue
		}
		for _, r2 := range *fa.Referrers() {
			if st, ok := r2.(*ssa.Store); ok && st.Addr == ssa.Value(fa) {
				n++
				w.walk(fn, st.Val, fr, edges, append(via, tname), depth+1)
			}
		}
	}
	if n == 0 {
		w.leaf(fn, al, "opaque", edges, via, "the reader wrapped by "+tname+" is not set where it is built")
	}
}

// transparentRead: m is a Read method that reads a field of its receiver into the caller's buffer
// and returns that read's count, together with that read's error or a non-nil error.
// Returns the field.
func transparentRead(p *engine.Prog, m *ssa.Function) (*types.Var, string) {
	if len(m.Params) != 2 {
		return nil, "unexpected signature"
	}
	fi := p.Info(m)
	var rd *ssa.Call
	for _, in := range allInstrs(m) {
		if call, ok := in.(*ssa.Call); ok && call.Call.IsInvoke() && call.Call.Method.Name() == "Read" {
			if rd != nil {
				return nil, "reads more than once"
			}
			rd = call
		}
	}
	if rd == nil || len(rd.Call.Args) != 1 || rd.Call.Args[0] != ssa.Value(m.Params[1]) {
		return nil, "the underlying reader is not read into the caller's buffer"
	}
	u, ok := rd.Call.Value.(*ssa.UnOp)
	if !ok {
		return nil, "the underlying reader is not a field of the receiver"
	}
	fa, ok := u.X.(*ssa.FieldAddr)
	if !ok || fa.X != ssa.Value(m.Params[0]) {
		return nil, "the underlying reader is not a field of the receiver"
	}
	n, rerr := extractOf(rd, 0), extractOf(rd, 1)
	if n == nil || rerr == nil {
		return nil, "the count or the error of the underlying read is dropped"
	}
	for _, ret := range returnsOf(m) {
		if !engine.InstrDominates(rd, ret) {
			return nil, "a return does not follow the underlying read"
		}
		if fi.T(returnedValue(ret, 0)).S != fi.T(n).S {
			return nil, "returns a count other than the underlying read's"
		}
		e := returnedValue(ret, 1)
		if fi.T(e).S == fi.T(rerr).S {
			continue
		}
		if ok, _ := fi.Implies(ret.Block(), engine.Not(engine.EqAtom(fi.T(e).S, "nil"))); !ok {
			return nil, "can replace the underlying read's error by " + fi.T(e).S
		}
	}
	return engine.FieldOf(fa), ""
}
