package rules

import (
	"os"
	"path/filepath"
	"strings"
	"testing"

	"golang.org/x/tools/go/ssa"

	"kvcheck/engine"
)

const readerProg = `package scrape

import (
	"bufio"
	"io"
)

type passThrough struct{ r io.Reader; n int }

func (p *passThrough) Read(b []byte) (int, error) {
	n, err := p.r.Read(b)
	p.n += n
	return n, err
}

type swallowing struct{ r io.Reader }

func (s *swallowing) Read(b []byte) (int, error) {
	n, err := s.r.Read(b)
	if err != nil {
		return n, io.EOF
	}
	return n, nil
}

type limited struct {
	io.Reader
	io.Closer
}

func counting(r io.Reader) io.Reader { return &passThrough{r: r} }

func Plain(body io.ReadCloser, gz bool, z io.Reader) io.Reader {
	var r io.Reader = body
	if gz {
		r = z
	}
	return counting(bufio.NewReader(r))
}

func Limited(body io.ReadCloser) io.Reader {
	return &limited{Reader: io.LimitReader(body, 10), Closer: body}
}

func Swallow(body io.ReadCloser) io.Reader { return &swallowing{r: body} }

type acc struct{ n int }

func (a *acc) add(x int) { a.n += x }
func (a *acc) get() int  { return a.n }
func bump(a *acc)        { a.add(1) }
func peek(a *acc) int    { return a.get() }
`

func TestReaderValueFlow(t *testing.T) {
	dir := t.TempDir()
	must := func(err error) {
		if err != nil {
			t.Fatal(err)
		}
	}
	must(os.WriteFile(filepath.Join(dir, "go.mod"), []byte("module "+engine.ModPath+"\n\ngo 1.17\n"), 0644))
	must(os.WriteFile(filepath.Join(dir, "go.sum"), nil, 0644))
	must(os.MkdirAll(filepath.Join(dir, "pkg", "scrape"), 0755))
	must(os.WriteFile(filepath.Join(dir, "pkg", "scrape", "t.go"), []byte(readerProg), 0644))
	p, err := engine.Load(engine.LoadOptions{RepoDir: dir})
	if err != nil {
		t.Fatal(err)
	}
	fn := func(name string) *ssa.Function {
		for _, f := range p.Funcs {
			if f.Name() == name && f.Signature.Recv() == nil {
				return f
			}
		}
		t.Fatalf("%s not found", name)
		return nil
	}
	ret := func(f *ssa.Function) ssa.Value { return returnsOf(f)[0].Results[0] }

	// a counting wrapper and a buffered reader are looked through; the leaves are the two parameters, each under its edge
	pl := fn("Plain")
	leaves := readerSources(p, pl, ret(pl))
	kinds := map[string]int{}
	for _, l := range leaves {
		kinds[l.kind+":"+p.Info(l.fn).T(l.v).S]++
		if len(l.edges) == 0 {
			t.Errorf("leaf %s has no phi edge recorded", p.Info(l.fn).T(l.v).S)
		}
	}
	if len(leaves) != 2 || kinds["param:body"] != 1 || kinds["param:z"] != 1 {
		t.Errorf("Plain: want the parameters body and z as the only sources, got %v", kinds)
	}
	// io.LimitReader behind an embedded field is found and named
	lm := fn("Limited")
	found := false
	for _, l := range readerSources(p, lm, ret(lm)) {
		if l.kind == "truncating" && strings.Contains(l.note, "io.LimitReader") {
			found = true
		}
	}
	if !found {
		t.Error("Limited: the size-limiting reader behind the embedded field is not reported")
	}
	// a wrapper that turns errors into a clean EOF is not looked through
	sw := fn("Swallow")
	opaque := false
	for _, l := range readerSources(p, sw, ret(sw)) {
		if l.kind == "opaque" && strings.Contains(l.note, "replace the underlying read's error") {
			opaque = true
		}
	}
	if !opaque {
		t.Error("Swallow: a Read that replaces the underlying error must stop the walk")
	}
	// writes through a parameter are followed through method calls
	if !writesThroughParam(fn("bump"), 0, 0) {
		t.Error("bump writes through its parameter (via add)")
	}
	if writesThroughParam(fn("peek"), 0, 0) {
		t.Error("peek only reads")
	}
}
