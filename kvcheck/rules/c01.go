package rules

import (
	"fmt"
	"go/token"
	"go/types"
	"strings"

	"golang.org/x/tools/go/ssa"

	"kvcheck/engine"
)

func init() {
	register(&Rule{ID: "C01", Run: runC01, Controls: controlsC01,
		Explanation: "Structural necessary conditions of 'coordination never orphans a target a healthy shard is scraping', decided statically on pkg/coordinator and pkg/shard: " +
			"R1.1 who may remove: every delete and whole-field store on a map reached through shardInfo.scraping is enumerated; stores only of the shard's own report; " +
			"R1.2 every removal is justified on every path by one of: key absent from the discovered map (J1); or another, distinct, in-sync-certified shard holds a non-nil entry for the same key and either own state in-transfer ∧ other normal (J2a) or equal states ∧ a STRICT load comparison other<own (J2b, so two holders cannot remove each other); " +
			"R1.4 the posted list is rebuilt inside the loop over the planned set, skipping only keys absent from the discovered map; " +
			"R1.5 every UpdateTarget call posts newTargets of the very shardInfo whose shard is the receiver; the POST in Shard.UpdateTarget is guarded only by the difference test, which compares set sizes, presence per hash and TargetState; " +
			"R1.6 the shard's cached report is written only from the fetched report, with freshly allocated entries disjoint from the map handed to the planner (never from the request: a failed POST is retried); " +
			"R1.7 one discovery snapshot per replica iteration is passed to every planning step; " +
			"R1.8 crash freedom, structural part: integer divisions by an Option field are guarded by field!=0 on the path or validated non-zero before NewCoordinator; report getters return non-nil containers on every return. " +
			"R1.10 the function that starts the posting goroutines waits for all of them itself on every path before it returns (a post still in flight would land after a later cycle's post); R1.8 also: the weights of the random pick are positive for every offered shard (limit - load of a dimension whose fit test holds there), since the chooser's construction error is discarded and a chooser of zero weights is nil. " +
			"R1.4 also: Shard.UpdateTarget sends the request it was given in exactly one POST outside any loop (the sidecar replaces its whole list on every request). " +
			"Not decided: the loop-level invariant over three or more holders (iteration order, runtime loads); crash freedom for run-time-bounded values.",
		Assumptions: []string{"go/types and go/ssa are correct", "field-based may-alias memory model", "a JSON decoder writing null through an escaped address is outside what a sidecar produces"}})
}

func sdMapType(p *engine.Prog) types.Type {
	sd := p.Named(pkgDisc, "SDTargets")
	if sd == nil {
		return nil
	}
	return types.NewMap(types.Typ[types.Uint64], types.NewPointer(sd))
}

func runC01(p *engine.Prog, r *engine.Report) {
	c := newCoord(p)
	activeT := sdMapType(p)
	fShardScraping := p.Field(pkgShard, "Shard", "scraping")
	fReqTargets := p.Field(pkgShard, "UpdateTargetsRequest", "Targets")
	fAPIPost := p.Field(pkgShard, "Shard", "APIPost")
	fGetActive := p.Field(pkgCoord, "Coordinator", "getActive")
	fTgtState := p.Field(pkgTarget, "Target", "TargetState")
	fTgtHash := p.Field(pkgTarget, "Target", "Hash")
	mReplicas := p.Method(pkgShard, "ReplicasManager", "Replicas")
	if len(p.Problems) > 0 {
		return
	}
	r.Min("R1.1-who-may-remove", 4)
	r.Min("R1.2-removal-justified", 3)
	r.Min("R1.4-posted-list", 1)
	r.Min("R1.5-posted-is-planned", 2)
	r.Min("R1.6-cached-report", 2)
	r.Min("R1.7-one-snapshot", 1)
	r.Min("R1.8-crash-freedom", 5)
	r.Min("R1.9-gc-first", 1)
	r.Min("R1.10-apply-joined", 1)

	// ---- R1.1 + R1.2
	for i, st := range c.fieldStores {
		fn := st.Parent()
		fi := p.Info(fn)
		ok := false
		why := "stores " + fi.T(st.Val).S
		if ex, isEx := st.Val.(*ssa.Extract); isEx && ex.Index == 0 {
			if call, isCall := ex.Tuple.(*ssa.Call); isCall && engine.CalleeObj(call.Common()) == c.mTargetStatus {
				ok, why = true, "the shard's own status report"
			}
		}
		r.Check(ok, "R1.1-who-may-remove", fmt.Sprintf("store#%d to shardInfo.scraping in %s", i+1, engine.FuncName(fn)), "whole-map store at "+c.at(st),
			"the planned set is only ever replaced by result 0 of Shard.TargetStatus()", why)
	}
	perFn := map[*ssa.Function]int{}
	for _, del := range c.mapDeletes {
		fn := del.Parent()
		fi := p.Info(fn)
		perFn[fn]++
		ck := fmt.Sprintf("delete#%d in %s", perFn[fn], engine.FuncName(fn))
		r.Add("R1.1-who-may-remove", ck, "delete at "+c.at(del), "enumerated", "", engine.Discharged).Trivial = true
		for k := 1; k < len(c.decisionSites(del)); k++ {
			// a delete reached from several decision points stands for as many removals
			r.Add("R1.1-who-may-remove", fmt.Sprintf("%s decision#%d", ck, k+1), "delete at "+c.at(del), "enumerated", "", engine.Discharged).Trivial = true
			r.Add("R1.2-removal-justified", fmt.Sprintf("%s decision#%d", ck, k+1), "removal decided elsewhere than at "+c.at(del), "justified together with the delete it leads to", "see "+ck, engine.Discharged).Trivial = true
		}
		s, _ := loadOfField(del.Call.Args[0], c.fScraping)
		k := del.Call.Args[1]
		st, kt := fi.T(s).S, fi.T(k).S
		// the decision may be taken at another place than the delete (a flag set in a search loop and tested after it)
		var just []string
		var tried []string
		allFound := true
		sites := c.decisionSites(del)
		for _, site := range sites {
			found := false
			// J1: absent from a discovered map
			for _, b := range fn.Blocks {
				for _, in := range b.Instrs {
					lk, ok := in.(*ssa.Lookup)
					if !ok {
						continue
					}
					if activeT != nil && types.Identical(lk.X.Type().Underlying(), activeT) && fi.T(lk.Index).S == kt {
						base := fi.T(lk.X).S + "[" + kt + "]"
						j1 := engine.Or(engine.Not(engine.A("has("+base+")")), engine.EqAtom(base, "nil"))
						// include versioned variants: use the lookup's own rendering
						own := fi.T(lk).S
						if lk.CommaOk {
							own = strings.TrimSuffix(fi.T(lk).S, "")
						}
						j1 = engine.Or(j1, engine.Not(engine.A("has("+ownBase(fi, lk)+")")), engine.EqAtom(ownBase(fi, lk), "nil"))
						_ = own
						if ok, _ := site.implies(fi, j1); ok {
							found = true
							just = append(just, "J1: key absent from the discovered map "+fi.T(lk.X).S)
						}
					}
				}
			}
			if !found {
				// J2: another certified holder
				for _, b := range fn.Blocks {
					for _, in := range b.Instrs {
						lk, ok := in.(*ssa.Lookup)
						if !ok || fi.T(lk.Index).S != kt {
							continue
						}
						o, ok := loadOfField(lk.X, c.fScraping)
						if !ok || fi.T(o).S == st {
							continue
						}
						ot := fi.T(o).S
						oe := ownBase(fi, lk)
						se := fi.ElemPath(fi.FieldPath(st, del, c.fScraping), c.fScraping.Type(), kt, lk)
						distinct := engine.Not(engine.EqAtom(st, ot))
						nonnil := engine.Not(engine.EqAtom(oe, "nil"))
						sState := fi.FieldPath(se, lk, c.fState)
						oState := fi.FieldPath(oe, lk, c.fState)
						j2a := engine.And(distinct, nonnil, engine.EqAtom(sState, `"in_transfer"`), engine.EqAtom(oState, `""`))
						lt := func(f *types.Var) *engine.Formula {
							return engine.LtAtom(engine.Sym(fi.FieldPath(ot, lk, c.fRuntime, f)), engine.Sym(fi.FieldPath(st, lk, c.fRuntime, f)))
						}
						j2b := engine.And(distinct, nonnil, engine.EqAtom(sState, oState), engine.Or(lt(c.fHead), lt(c.fProc)))
						okA, _ := site.implies(fi, j2a)
						okB, _ := site.implies(fi, j2b)
						if !okA && !okB {
							tried = append(tried, "holder "+ot+": neither J2a nor J2b is implied")
							continue
						}
						if okc, why := c.certified(fn, o, del); !okc {
							tried = append(tried, "holder "+ot+" is not certified in sync: "+why)
							continue
						}
						found = true
						if okA {
							just = append(just, "J2a: own copy in-transfer, normal copy on in-sync shard "+ot)
						} else {
							just = append(just, "J2b: same state, strictly lower load on in-sync shard "+ot)
						}
					}
				}
			}
			if !found {
				allFound = false
			}
		}
		found := allFound
		have := strings.Join(just, "; ")
		if !found {
			have = "path condition: " + strings.Join(fi.Guards(sites[len(sites)-1].blk), " ∧ ")
			if len(tried) > 0 {
				have = strings.Join(tried, "; ") + "; " + have
			}
		}
		r.Check(found, "R1.2-removal-justified", ck, "removal from a shard's planned set at "+c.at(del),
			"J1 key not discovered ∨ J2a (distinct in-sync holder non-nil, own in-transfer, other normal) ∨ J2b (distinct in-sync holder non-nil, equal states, strict other.load < own.load)", have)
	}

	// ---- R1.4 + R1.5a: the posted-list builder and the applier
	nBuilder := 0
	for _, fn := range c.funcs {
		fi := p.Info(fn)
		for _, b := range fn.Blocks {
			for _, in := range b.Instrs {
				mu, ok := in.(*ssa.MapUpdate)
				if !ok {
					continue
				}
				x, ok := c.postedListOwner(mu)
				if !ok {
					continue
				}
				nBuilder++
				ck := fmt.Sprintf("posted-list update#%d in %s", nBuilder, engine.FuncName(fn))
				// must be inside a range over x.scraping
				var body *ssa.BasicBlock
				var rng *ssa.Range
				for _, b2 := range fn.Blocks {
					for _, in2 := range b2.Instrs {
						if rg, ok := in2.(*ssa.Range); ok {
							if y, ok := loadOfField(rg.X, c.fScraping); ok && fi.T(y).S == fi.T(x).S {
								rng = rg
							}
						}
					}
				}
				if rng != nil {
					for _, rr := range *rng.Referrers() {
						if nx, ok := rr.(*ssa.Next); ok {
							hdr := nx.Block()
							if iff, ok := hdr.Instrs[len(hdr.Instrs)-1].(*ssa.If); ok {
								_ = iff
								body = hdr.Succs[0]
							}
							// every latch (edge back to hdr from inside the loop) other than through the update
							var probs []string
							keyT := fi.T(rng).S
							_ = keyT
							kterm := "rk:" + rng.Name()
							var j *engine.Formula
							for _, b3 := range fn.Blocks {
								for _, in3 := range b3.Instrs {
									if lk, ok := in3.(*ssa.Lookup); ok && activeT != nil && types.Identical(lk.X.Type().Underlying(), activeT) && strings.HasSuffix(fi.T(lk.Index).S, kterm) {
										f := engine.Or(engine.EqAtom(ownBase(fi, lk), "nil"), engine.Not(engine.A("has("+ownBase(fi, lk)+")")))
										if j == nil {
											j = f
										} else {
											j = engine.Or(j, f)
										}
									}
								}
							}
							if j == nil {
								probs = append(probs, "no lookup of the range key in the discovered map")
							} else if body != nil {
								v := fi.ViewOpt(j, body, mu.Block())
								for _, pr := range hdr.Preds {
									if !fi.IsBackEdge(pr, hdr) || pr == mu.Block() {
										continue
									}
									if !v.Reachable(pr) {
										continue
									}
									if ok, have := v.ImpliesEdge(pr, hdr, j); !ok {
										probs = append(probs, "an iteration can skip the entry without the key being undiscovered: "+strings.Join(have, " ∧ "))
									}
								}
								// and the update is dominated by the loop body (per entry)
								if !body.Dominates(mu.Block()) {
									probs = append(probs, "the update is not inside the loop over the planned set")
								}
							}
							// R5.5 piece used by C05: state copied from the planned entry (checked there)
							r.Check(len(probs) == 0, "R1.4-posted-list", ck, "update of shardInfo.newTargets at "+c.at(mu),
								"for every entry of the planned set the target is appended unless its hash is absent from the discovered map", strings.Join(probs, "; "))
						}
					}
				} else {
					r.Add("R1.4-posted-list", ck, "update of shardInfo.newTargets at "+c.at(mu), "inside a loop over the same shard's planned set", "no range over "+fi.T(x).S+".scraping", engine.Violated)
				}
			}
		}
	}
	_ = fTgtState
	_ = fTgtHash

	// R1.5a: argument of UpdateTarget
	n := 0
	for _, ci := range p.CallsTo(c.mUpdateTarget) {
		fn := ci.Parent()
		if !engine.InPkg(fn, pkgCoord) {
			continue
		}
		n++
		fi := p.Info(fn)
		ck := fmt.Sprintf("UpdateTarget#%d in %s", n, engine.FuncName(fn))
		x, ok := loadOfField(recvOf(ci), c.fShard)
		var probs []string
		if !ok {
			probs = append(probs, "receiver is not shardInfo.shard")
		} else if len(ci.Common().Args) >= 2 {
			req := ci.Common().Args[1]
			got := ""
			if al, ok := req.(*ssa.Alloc); ok {
				for _, rr := range *al.Referrers() {
					if fa, ok := rr.(*ssa.FieldAddr); ok && engine.FieldOf(fa) == fReqTargets {
						for _, r2 := range *fa.Referrers() {
							if s2, ok := r2.(*ssa.Store); ok && s2.Addr == fa {
								if y, ok := loadOfField(s2.Val, c.fNewTargets); ok {
									got = fi.T(y).S
								} else {
									got = "!" + fi.T(s2.Val).S
								}
							}
						}
					}
				}
			}
			if got != fi.T(x).S {
				probs = append(probs, "request.Targets is "+got+".newTargets, receiver is "+fi.T(x).S+".shard")
			}
		}
		// exactness: the call is conditional on the in-sync flag only; whether a POST is needed is decided
		// inside Shard.UpdateTarget from the report fetched in this cycle (a lost update is retried)
		for _, g := range fi.Guards(ci.Block()) {
			if engine.IsStructuralLiteral(g) || strings.HasSuffix(g, "."+c.fChangeAble.Name()+")") {
				continue
			}
			probs = append(probs, "the update is additionally conditional on "+g)
		}
		r.Check(len(probs) == 0, "R1.5-posted-is-planned", ck, "call of Shard.UpdateTarget at "+c.at(ci), "Targets: X.newTargets where X.shard is the receiver; conditional on the in-sync flag only", strings.Join(probs, "; "))
	}
	// R1.5b: inside Shard.UpdateTarget and the difference test
	if ut := p.SSAFunc(c.mUpdateTarget); ut != nil {
		fi := p.Info(ut)
		nPost := 0
		for _, b := range ut.Blocks {
			for _, in := range b.Instrs {
				call, ok := in.(*ssa.Call)
				if !ok {
					continue
				}
				if _, ok := loadOfField(call.Call.Value, fAPIPost); !ok {
					continue
				}
				nPost++
				// guards: exactly one atom, true(call pred(...)), pred a kvass function
				gs := fi.Guards(call.Block())
				var pred *ssa.Function
				var extra []string
				for _, g := range gs {
					if strings.HasPrefix(g, "true(call ") {
						if cv, ok := fi.Calls[strings.TrimSuffix(strings.TrimPrefix(g, "true("), ")")]; ok {
							if cc, ok := cv.(*ssa.Call); ok && cc.Call.StaticCallee() != nil && cc.Call.StaticCallee().Blocks != nil {
								pred = cc.Call.StaticCallee()
								continue
							}
						}
					}
					if engine.IsStructuralLiteral(g) {
						continue
					}
					extra = append(extra, g)
				}
				r.Check(pred != nil && len(extra) == 0, "R1.5-posted-is-planned", "POST guard in "+engine.FuncName(ut), "POST of the target list at "+c.at(call),
					"guarded by the difference test only", "guards: "+strings.Join(gs, " ∧ "))
				if pred != nil {
					c.checkDiffTest(r, pred, fShardScraping, fTgtState)
				}
			}
		}
		if nPost == 0 {
			r.Add("R1.5-posted-is-planned", "POST in "+engine.FuncName(ut), engine.FuncName(ut), "a call through Shard.APIPost", "none found", engine.Undecided)
		}
	}

	// ---- R1.6: who may write Shard.scraping
	nW := 0
	for _, fn := range p.Funcs {
		for _, b := range fn.Blocks {
			for _, in := range b.Instrs {
				st, ok := in.(*ssa.Store)
				if !ok {
					continue
				}
				fa, ok := st.Addr.(*ssa.FieldAddr)
				if !ok || engine.FieldOf(fa) != fShardScraping {
					continue
				}
				nW++
				ck := fmt.Sprintf("store#%d to Shard.scraping in %s", nW, engine.FuncName(fn))
				var probs []string
				if p.SSAFunc(c.mTargetStatus) != fn {
					probs = append(probs, "written outside Shard.TargetStatus")
				}
				mm, ok := st.Val.(*ssa.MakeMap)
				if !ok {
					probs = append(probs, "the stored map is not a fresh map")
				} else {
					for _, rr := range *mm.Referrers() {
						if mu, ok := rr.(*ssa.MapUpdate); ok && mu.Map == mm {
							if al, ok := mu.Value.(*ssa.Alloc); !ok || !al.Heap {
								probs = append(probs, "an entry stored in the cache is not a fresh copy ("+p.Info(fn).T(mu.Value).S+")")
							}
						}
					}
					// the returned map must be a different object
					for _, b2 := range fn.Blocks {
						if ret, ok := b2.Instrs[len(b2.Instrs)-1].(*ssa.Return); ok && len(ret.Results) > 0 {
							if ret.Results[0] == ssa.Value(mm) {
								probs = append(probs, "the cache map itself is returned to the planner")
							}
						}
					}
				}
				r.Check(len(probs) == 0, "R1.6-cached-report", ck, "store at "+engine.FuncName(fn)+" ("+p.Rel(st.Pos())+")",
					"only in TargetStatus, a fresh map of freshly allocated copies, disjoint from the returned report", strings.Join(probs, "; "))
			}
		}
	}
	// the cache is read by the difference test (so that it means something)
	r.Add("R1.6-cached-report", "writers of Shard.scraping", "program-wide who-may-write table", "at least one writer (the report)", fmt.Sprintf("%d writers", nW), map[bool]engine.Status{true: engine.Discharged, false: engine.Undecided}[nW >= 1])

	// ---- R1.7: one snapshot per replica iteration
	for _, fn := range c.funcs {
		if len(callsIn(fn, mReplicas)) == 0 || len(callsIn(fn, c.mChangeScale)) == 0 {
			continue
		}
		fi := p.Info(fn)
		var snaps []*ssa.Call
		for _, b := range fn.Blocks {
			for _, in := range b.Instrs {
				if call, ok := in.(*ssa.Call); ok {
					if _, ok := loadOfField(call.Call.Value, fGetActive); ok {
						snaps = append(snaps, call)
					}
				}
			}
		}
		var probs []string
		if len(snaps) != 1 {
			probs = append(probs, fmt.Sprintf("%d calls of getActive in the cycle", len(snaps)))
		}
		uses := 0
		for _, b := range fn.Blocks {
			for _, in := range b.Instrs {
				ci, ok := in.(ssa.CallInstruction)
				if !ok {
					continue
				}
				for _, a := range ci.Common().Args {
					if activeT != nil && types.Identical(a.Type().Underlying(), activeT) {
						uses++
						if len(snaps) == 1 && a != ssa.Value(snaps[0]) {
							probs = append(probs, "a planning step at "+p.Rel(ci.Pos())+" receives "+fi.T(a).S+" instead of the iteration's snapshot")
						}
					}
				}
			}
		}
		if len(snaps) == 1 {
			// inside the replica loop: dominated by the Shards() call
			sh := callsIn(fn, c.mShards)
			if len(sh) != 1 || !engine.InstrDominates(sh[0], snaps[0]) {
				probs = append(probs, "the snapshot is not taken inside the replica iteration (after Shards())")
			}
		}
		if uses < 4 {
			probs = append(probs, fmt.Sprintf("only %d planning steps receive the snapshot (status view, GC, assignment, list builder expected)", uses))
		}
		r.Check(len(probs) == 0, "R1.7-one-snapshot", "cycle "+engine.FuncName(fn), "discovery snapshot in "+engine.FuncName(fn), "exactly one getActive() per replica iteration, passed to every planning step", strings.Join(probs, "; "))
	}

	// ---- R1.8 crash freedom
	// (iv) an entry looked up in the discovered map may be absent (vanished target): every dereference
	// of such a lookup result needs a nil / presence test on its path
	nDeref := 0
	for _, fn := range c.funcs {
		fi := p.Info(fn)
		for _, in := range allInstrs(fn) {
			fa, ok := in.(*ssa.FieldAddr)
			if !ok {
				continue
			}
			lk, ok := fa.X.(*ssa.Lookup)
			if !ok || lk.CommaOk || activeT == nil || !types.Identical(lk.X.Type().Underlying(), activeT) {
				continue
			}
			nDeref++
			base := ownBase(fi, lk)
			need := engine.Or(engine.Not(engine.EqAtom(base, "nil")), engine.A("has("+base+")"))
			ok2, have := fi.Implies(fa.Block(), need)
			r.Check(ok2, "R1.8-crash-freedom", fmt.Sprintf("dereference#%d of a discovered-map lookup in %s", nDeref, engine.FuncName(fn)), "dereference at "+c.at(fa),
				"the looked-up entry is tested non-nil on every path (targets vanish from discovery between report and cycle)", "path condition: "+strings.Join(nonStructural(have), " ∧ "))
		}
	}
	// (v) a placement on the result of a query needs the result to be non-nil
	for i, mw := range c.mapWrites {
		d, _ := loadOfField(mw.Map, c.fScraping)
		if call, ok := d.(*ssa.Call); ok {
			fi := p.Info(mw.Parent())
			ok2, have := fi.Implies(mw.Block(), engine.Not(engine.EqAtom(fi.T(call).S, "nil")))
			r.Check(ok2, "R1.8-crash-freedom", fmt.Sprintf("placement#%d on a query result in %s", i+1, engine.FuncName(mw.Parent())), "placement at "+c.at(mw),
				"the free-shard query's result is tested non-nil before it is used", "path condition: "+strings.Join(nonStructural(have), " ∧ "))
		}
	}
	c.checkDivisions(r)
	c.checkNonNilReports(r)
	if activeT != nil {
		c.checkStatusDerefs(r, activeT)
	}
	c.checkGCFirst(r)
	c.checkApplyJoined(r)
	c.checkPickWeights(r)
	c.checkSinglePost(r)
}

// ownBase renders m[k] of a Lookup with its version (without the has()/tuple wrapper).
func ownBase(fi *engine.FuncInfo, lk *ssa.Lookup) string {
	return fi.ElemPath(fi.T(lk.X).S, lk.X.Type(), fi.T(lk.Index).S, lk)
}

// checkDiffTest: the predicate returns false only if sizes are equal and every entry exists with equal state.
func (c *coord) checkDiffTest(r *engine.Report, pred *ssa.Function, fShardScraping, fTgtState *types.Var) {
	p := c.p
	fi := p.Info(pred)
	ck := "difference test " + engine.FuncName(pred)
	var probs []string
	for _, b := range pred.Blocks {
		ret, ok := b.Instrs[len(b.Instrs)-1].(*ssa.Return)
		if !ok || len(ret.Results) != 1 || !isConstBool(ret.Results[0], false) {
			if ok && len(ret.Results) == 1 && !isConstBool(ret.Results[0], true) {
				probs = append(probs, "a return value is computed, not a constant")
			}
			continue
		}
		// sizes equal on every path to 'return false'
		var cache ssa.Value
		for _, b2 := range pred.Blocks {
			for _, in := range b2.Instrs {
				if u, ok := in.(*ssa.UnOp); ok {
					if _, ok := loadOfField(u, fShardScraping); ok {
						cache = u
					}
				}
			}
		}
		if cache == nil || len(pred.Params) < 2 {
			probs = append(probs, "the cached report is not read")
			continue
		}
		tt := fi.T(pred.Params[1]).S
		sizeEq := engine.EqIntAtom(engine.Sym("len("+tt+")"), engine.Sym("len("+fi.T(cache).S+")"))
		if ok, have := fi.Implies(b, sizeEq); !ok {
			probs = append(probs, "'no difference' is reachable without the set sizes being equal: "+strings.Join(have, " ∧ "))
		}
		// per entry: the loop continues only if the cached entry exists with the same state
		for _, b2 := range pred.Blocks {
			for _, in := range b2.Instrs {
				rg, ok := in.(*ssa.Range)
				if !ok || fi.T(rg.X).S != tt {
					continue
				}
				for _, rr := range *rg.Referrers() {
					nx, ok := rr.(*ssa.Next)
					if !ok {
						continue
					}
					hdr := nx.Block()
					body := hdr.Succs[0]
					k := "rk:" + rg.Name()
					ce := fi.T(cache).S + "[" + k + "]"
					te := tt + "[" + k + "]"
					need := engine.And(engine.Not(engine.EqAtom(ce, "nil")), engine.EqAtom(ce+"."+fTgtState.Name(), te+"."+fTgtState.Name()))
					v := fi.ViewOpt(need, body)
					for _, pr := range hdr.Preds {
						if !fi.IsBackEdge(pr, hdr) || !v.Reachable(pr) {
							continue
						}
						if ok, have := v.ImpliesEdge(pr, hdr, need); !ok {
							probs = append(probs, "an entry is accepted as unchanged without (cached entry non-nil ∧ TargetState equal): "+strings.Join(have, " ∧ "))
						}
					}
				}
			}
		}
	}
	r.Check(len(probs) == 0, "R1.5-posted-is-planned", ck, "predicate "+engine.FuncName(pred)+" ("+p.Rel(pred.Pos())+")",
		"false only when set sizes are equal and every requested hash is cached with the same TargetState", strings.Join(probs, "; "))
}

// checkDivisions: integer / and % in pkg/coordinator whose divisor is an Option field.
func (c *coord) checkDivisions(r *engine.Report) {
	p := c.p
	optT := p.Named(pkgCoord, "Option")
	n := 0
	for _, fn := range c.funcs {
		fi := p.Info(fn)
		for _, b := range fn.Blocks {
			for _, in := range b.Instrs {
				bo, ok := in.(*ssa.BinOp)
				if !ok || (bo.Op != token.QUO && bo.Op != token.REM) || !isIntBasic(bo.Type()) {
					continue
				}
				u, ok := bo.Y.(*ssa.UnOp)
				if !ok {
					continue
				}
				fa, ok := u.X.(*ssa.FieldAddr)
				if !ok || !isPtrTo(fa.X.Type(), optT) {
					continue
				}
				f := engine.FieldOf(fa)
				n++
				ck := fmt.Sprintf("division by Option.%s #%d in %s", f.Name(), n, engine.FuncName(fn))
				nz := engine.Not(engine.EqIntAtom(engine.Sym(fi.T(u).S), engine.Int(0)))
				if ok, _ := fi.Implies(bo.Block(), nz); ok {
					r.Add("R1.8-crash-freedom", ck, "integer division at "+c.at(bo), "divisor != 0 on the path", "guarded", engine.Discharged)
					continue
				}
				ok2, why := c.validatedInCmd(f)
				r.Check(ok2, "R1.8-crash-freedom", ck, "integer division at "+c.at(bo), "divisor != 0 on the path, or the option is validated non-zero on the only path to NewCoordinator", why)
			}
		}
	}
}

func isIntBasic(t types.Type) bool {
	b, ok := t.Underlying().(*types.Basic)
	return ok && b.Info()&types.IsInteger != 0
}

// validatedInCmd: every composite-literal store of Option.f in cmd/kvass stores a value v with PC ⇒ v != 0.
func (c *coord) validatedInCmd(f *types.Var) (bool, string) {
	p := c.p
	n := 0
	for _, fn := range p.Funcs {
		if engine.InPkg(fn, pkgCoord) {
			continue
		}
		fi := p.Info(fn)
		for _, b := range fn.Blocks {
			for _, in := range b.Instrs {
				st, ok := in.(*ssa.Store)
				if !ok {
					continue
				}
				fa, ok := st.Addr.(*ssa.FieldAddr)
				if !ok || engine.FieldOf(fa) != f {
					continue
				}
				n++
				nz := engine.Not(engine.EqIntAtom(engine.Sym(fi.T(st.Val).S), engine.Int(0)))
				if ok, have := fi.Implies(st.Block(), nz); !ok {
					return false, "Option." + f.Name() + " is set from " + fi.T(st.Val).S + " at " + p.Rel(st.Pos()) + " without a non-zero check on the path (" + strings.Join(have, " ∧ ") + ")"
				}
			}
		}
	}
	if n == 0 {
		return false, "no construction site of Option." + f.Name() + " found outside pkg/coordinator"
	}
	return true, fmt.Sprintf("validated non-zero at all %d construction sites", n)
}

// checkNonNilReports: TargetStatus returns a non-nil map and RuntimeInfo a non-nil struct on every return.
func (c *coord) checkNonNilReports(r *engine.Report) {
	p := c.p
	for _, m := range []*types.Func{c.mTargetStatus, c.mRuntimeInfo} {
		fn := p.SSAFunc(m)
		if fn == nil {
			r.Add("R1.8-crash-freedom", "non-nil result of "+m.Name(), m.Name(), "function body available", "missing", engine.Undecided)
			continue
		}
		var probs []string
		for _, b := range fn.Blocks {
			ret, ok := b.Instrs[len(b.Instrs)-1].(*ssa.Return)
			if !ok {
				continue
			}
			v := ret.Results[0]
			ok2 := false
			switch x := v.(type) {
			case *ssa.MakeMap:
				ok2 = true
			case *ssa.Alloc:
				ok2 = true
			case *ssa.UnOp:
				if al, ok := x.X.(*ssa.Alloc); ok {
					if sv := singleStoreOf(al); sv != nil {
						switch sv.(type) {
						case *ssa.MakeMap, *ssa.Alloc:
							ok2 = true
						}
					}
				}
			}
			if !ok2 {
				probs = append(probs, "return at "+p.Rel(ret.Pos())+" yields "+p.Info(fn).T(v).S)
			}
		}
		r.Check(len(probs) == 0, "R1.8-crash-freedom", "non-nil result of Shard."+m.Name(), "Shard."+m.Name()+" ("+p.Rel(fn.Pos())+")",
			"result 0 is a container allocated in the function on every return (the planner dereferences it also for shards whose request failed)", strings.Join(probs, "; "))
	}
}

func controlsC01(p *engine.Prog) []Control { return nil }
