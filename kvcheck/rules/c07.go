package rules

import (
	"fmt"
	"go/token"
	"strings"

	"golang.org/x/tools/go/ssa"

	"kvcheck/engine"
)

func init() {
	register(&Rule{ID: "C07", Run: runC07, Controls: controlsC07,
		Explanation: "Structural necessary conditions of 'scaling stays within bounds and never removes a shard still in use', decided on the SSA form of the cycle and the scale functions: " +
			"R7.1 every call of shard.Manager.ChangeScale in pkg/coordinator is enumerated; " +
			"R7.2 its argument is MinShard itself or carries the bound facts ≥ MinShard and ≤ MaxShard (clamps recognised through phis and edge conditions; assumption min ≤ max); " +
			"R7.3 its argument is ≥ the current shard count (length of the unfiltered list; assumption current ≤ max as in the statement) unless it flows from the idle scan, which is only called under 'no space needed ∧ max-idle-time ≠ 0'; the scale-up function's result is ≥ the length of its argument, which must be the unfiltered list; " +
			"R7.4 in the idle scan every decrement of the returned count happens for the shard at the loop index of a loop walking down from the last index, under in-sync ∧ planned set empty ∧ idle-since reported ∧ idle duration > max-idle-time, and every iteration that does not decrement leaves the loop (contiguous from the tail). " +
			"R7.5 when the scan empties the shard at index i the destinations offered are list[0:i], the shards in front of it. " +
			"Not decided: clock arithmetic, the shard manager's behaviour.",
		Assumptions: []string{"go/types and go/ssa are correct", "min-shard ≤ max-shard and current count ≤ max-shard (as in the property statement)", "int32 conversions do not overflow"}})
}

type boundCtx struct {
	c    *coord
	fi   *engine.FuncInfo
	seen map[string]bool
	// assumed facts: pairs "a<=b" of canonical texts
	assume map[string]bool
	why    []string
	// call summaries
	callLower func(call *ssa.Call, x string) bool
}

func (b *boundCtx) leq(a, x string) string { return a + "<=" + x }

// lower: v ≥ x everywhere v is live.
func (b *boundCtx) lower(v ssa.Value, x string) bool { return b.fact(v, x, true) }

// upper: v ≤ x.
func (b *boundCtx) upper(v ssa.Value, x string) bool { return b.fact(v, x, false) }

func (b *boundCtx) fact(v ssa.Value, x string, lower bool) bool {
	fi := b.fi
	vt := fi.T(v).S
	key := fmt.Sprintf("%s|%s|%v", vt, x, lower)
	if b.seen[key] {
		return true // coinductive for loops
	}
	b.seen[key] = true
	if vt == x {
		return true
	}
	if lower && b.assume[b.leq(x, vt)] {
		return true
	}
	if !lower && b.assume[b.leq(vt, x)] {
		return true
	}
	switch v := v.(type) {
	case *ssa.Phi:
		for i, e := range v.Edges {
			if !b.onEdge(e, v.Block().Preds[i], v.Block(), x, lower) {
				b.why = append(b.why, fmt.Sprintf("edge %d of %s (value %s) has no fact %s %s", i, vt, fi.T(e).S, map[bool]string{true: "≥", false: "≤"}[lower], x))
				return false
			}
		}
		return true
	case *ssa.Convert:
		return b.fact(v.X, x, lower)
	case *ssa.Call:
		if lower && b.callLower != nil && b.callLower(v, x) {
			return true
		}
	}
	return false
}

func (b *boundCtx) onEdge(e ssa.Value, pred, blk *ssa.BasicBlock, x string, lower bool) bool {
	fi := b.fi
	et := fi.T(e)
	if et.S == x {
		return true
	}
	xs := engine.Sym(x)
	var want *engine.Formula
	if lower {
		want = engine.Not(engine.LtAtom(et, xs)) // e >= x
	} else {
		want = engine.Not(engine.LtAtom(xs, et)) // e <= x
	}
	v := fi.View(want)
	if ok, _ := v.ImpliesEdge(pred, blk, want); ok {
		return true
	}
	saved := len(b.why)
	if b.fact(e, x, lower) {
		return true
	}
	b.why = b.why[:saved]
	// transitive step through a comparison of e with another value w: e ≥ w on this edge and w ≥ x   (lower)
	for _, in := range allInstrs(fi.Fn) {
		bo, ok := in.(*ssa.BinOp)
		if !ok {
			continue
		}
		switch bo.Op {
		case token.LSS, token.LEQ, token.GTR, token.GEQ:
		default:
			continue
		}
		for k, w := range []ssa.Value{bo.X, bo.Y} {
			other := []ssa.Value{bo.Y, bo.X}[k]
			if fi.T(other).S != et.S || fi.T(w).S == et.S {
				continue
			}
			wt := fi.T(w)
			var rel *engine.Formula
			if lower {
				rel = engine.Not(engine.LtAtom(et, wt)) // e >= w
			} else {
				rel = engine.Not(engine.LtAtom(wt, et)) // e <= w
			}
			vv := fi.View(rel)
			if ok, _ := vv.ImpliesEdge(pred, blk, rel); ok {
				if b.fact(w, x, lower) {
					return true
				}
			}
		}
	}
	return false
}

func runC07(p *engine.Prog, r *engine.Report) {
	c := newCoord(p)
	if len(p.Problems) > 0 {
		return
	}
	r.Min("R7.1-scale-requests", 1)
	r.Min("R7.2-within-bounds", 1)
	r.Min("R7.3-not-below-current", 1)
	r.Min("R7.4-idle-scan", 1)
	r.Min("R7.5-destinations-in-front", 1)
	spaceT := p.Named(pkgCoord, "space")
	n := 0
	scanChecked := map[*ssa.Function]bool{}
	for _, ci := range p.CallsTo(c.mChangeScale) {
		fn := ci.Parent()
		if !engine.InPkg(fn, pkgCoord) {
			continue
		}
		n++
		fi := p.Info(fn)
		ck := fmt.Sprintf("ChangeScale#%d in %s", n, engine.FuncName(fn))
		arg := ci.Common().Args[0]
		r.Add("R7.1-scale-requests", ck, "scale request at "+c.at(ci), "enumerated", "argument "+fi.T(arg).S, engine.Discharged).Trivial = true
		opt := c.optText(fn)
		minT := fi.FieldPath(opt, ci, c.fMinShard)
		maxT := fi.FieldPath(opt, ci, c.fMaxShard)
		// current count: length of the unfiltered list built from Shards()
		cur := ""
		for _, b := range fn.Blocks {
			for _, in := range b.Instrs {
				if call, ok := in.(*ssa.Call); ok {
					if callee := call.Call.StaticCallee(); callee != nil && c.isListBuilder(callee) {
						cur = "len(" + fi.T(call).S + ")"
					}
				}
			}
		}
		// ---- R7.2
		{
			bc := &boundCtx{c: c, fi: fi, seen: map[string]bool{}, assume: map[string]bool{minT + "<=" + maxT: true}}
			lo := bc.lower(arg, minT)
			bc2 := &boundCtx{c: c, fi: fi, seen: map[string]bool{}, assume: map[string]bool{minT + "<=" + maxT: true}}
			hi := bc2.upper(arg, maxT)
			// a guard on the path may also give the fact (early request)
			if !lo {
				if ok, _ := fi.Implies(ci.Block(), engine.Not(engine.LtAtom(fi.T(arg), engine.Sym(minT)))); ok {
					lo = true
				}
			}
			if !hi {
				if ok, _ := fi.Implies(ci.Block(), engine.Not(engine.LtAtom(engine.Sym(maxT), fi.T(arg)))); ok {
					hi = true
				}
			}
			r.Check(lo && hi, "R7.2-within-bounds", ck, "scale request at "+c.at(ci), "argument ≥ MinShard ∧ argument ≤ MaxShard (given min ≤ max)",
				fmt.Sprintf("≥min: %v, ≤max: %v; %s", lo, hi, strings.Join(append(bc.why, bc2.why...), "; ")))
		}
		// ---- R7.3
		if cur == "" {
			r.Add("R7.3-not-below-current", ck, "scale request at "+c.at(ci), "current count = length of the list built from Shards()", "list builder call not found in "+engine.FuncName(fn), engine.Undecided)
			continue
		}
		var notes []string
		bc := &boundCtx{c: c, fi: fi, seen: map[string]bool{}, assume: map[string]bool{minT + "<=" + maxT: true, cur + "<=" + maxT: true}}
		bc.callLower = func(call *ssa.Call, x string) bool {
			callee := call.Call.StaticCallee()
			if callee == nil || callee.Blocks == nil || !engine.InPkg(callee, pkgCoord) {
				return false
			}
			// (a) summary: result ≥ len(param k), and argument k is the unfiltered list
			cfi := p.Info(callee)
			for k, q := range callee.Params {
				if !isSliceOfPtrTo(q.Type(), c.shardInfo) {
					continue
				}
				if "len("+fi.T(call.Call.Args[k]).S+")" != x {
					notes = append(notes, engine.FuncName(callee)+" is given "+fi.T(call.Call.Args[k]).S+", whose length is not the current count")
					continue
				}
				okAll := true
				for _, b := range callee.Blocks {
					if ret, ok := b.Instrs[len(b.Instrs)-1].(*ssa.Return); ok {
						cb := &boundCtx{c: c, fi: cfi, seen: map[string]bool{}, assume: map[string]bool{}}
						if !cb.lower(ret.Results[0], "len("+cfi.T(q).S+")") {
							// or the return is only reached when the value is not below the length ("if v < n { return n }; return v")
							want := engine.Not(engine.LtAtom(cfi.T(ret.Results[0]), engine.Sym("len("+cfi.T(q).S+")")))
							if ok, _ := cfi.Implies(b, want); !ok {
								okAll = false
							}
						}
					}
				}
				if okAll {
					notes = append(notes, "summary: result of "+engine.FuncName(callee)+" ≥ len(argument)")
					return true
				}
			}
			// (b) the idle scan: allowed to go below, only under zero needed space ∧ idle time configured
			var probs []string
			zero := false
			for _, g := range fi.Guards(call.Block()) {
				if !strings.HasPrefix(g, "true(call ") {
					continue
				}
				if cv, ok := fi.Calls[strings.TrimSuffix(strings.TrimPrefix(g, "true("), ")")]; ok {
					if zc, ok := cv.(*ssa.Call); ok && zc.Call.StaticCallee() != nil {
						zf := zc.Call.StaticCallee()
						if zf.Signature.Recv() != nil && isPtrTo(zf.Signature.Recv().Type(), spaceT) && c.isZeroPredicate(zf) {
							zero = true
						}
					}
				}
			}
			if !zero {
				probs = append(probs, "not guarded by 'needed space is zero'")
			}
			idle := engine.Not(engine.EqIntAtom(engine.Sym(fi.FieldPath(opt, call, c.fMaxIdle)), engine.Int(0)))
			if ok, _ := fi.Implies(call.Block(), idle); !ok {
				probs = append(probs, "not guarded by MaxIdleTime != 0")
			}
			if len(probs) > 0 {
				notes = append(notes, "result of "+engine.FuncName(callee)+" may be below the current count and the call is "+strings.Join(probs, " and "))
				return false
			}
			if !scanChecked[callee] {
				scanChecked[callee] = true
				c.checkIdleScan(r, callee)
			}
			notes = append(notes, "flows from the idle scan "+engine.FuncName(callee)+" (guarded by zero needed space ∧ MaxIdleTime != 0; scan checked by R7.4)")
			return true
		}
		ok := bc.lower(arg, cur)
		if !ok {
			if ok2, _ := fi.Implies(ci.Block(), engine.Not(engine.LtAtom(fi.T(arg), engine.Sym(cur)))); ok2 {
				ok = true
				notes = append(notes, "guard on the path gives argument ≥ current count")
			}
		}
		r.Check(ok, "R7.3-not-below-current", ck, "scale request at "+c.at(ci), "argument ≥ "+cur+" (current shard count), or it flows from the idle scan called under zero needed space ∧ MaxIdleTime != 0",
			strings.Join(append(notes, bc.why...), "; "))
	}
}

// isZeroPredicate: method on *space returning headSpace == 0 ∧ processSpace == 0.
func (c *coord) isZeroPredicate(fn *ssa.Function) bool {
	fi := c.p.Info(fn)
	for _, b := range fn.Blocks {
		ret, ok := b.Instrs[len(b.Instrs)-1].(*ssa.Return)
		if !ok || len(ret.Results) != 1 {
			continue
		}
		res := fi.Cond(ret.Results[0])
		s := fi.T(fn.Params[0]).S
		want := engine.And(engine.EqIntAtom(engine.Sym(s+"."+c.fHeadSpace.Name()), engine.Int(0)), engine.EqIntAtom(engine.Sym(s+"."+c.fProcSpace.Name()), engine.Int(0)))
		a, _ := engine.Implies(res, want)
		b2, _ := engine.Implies(want, res)
		return a && b2
	}
	return false
}

// checkIdleScan implements R7.4 on the scale-down function.
func (c *coord) checkIdleScan(r *engine.Report, fn *ssa.Function) {
	p := c.p
	fi := p.Info(fn)
	opt := c.optText(fn)
	// decrements: BinOp x-1 whose result flows (through phis) to a Return
	reachesReturn := func(v ssa.Value) bool {
		seen := map[ssa.Value]bool{}
		var walk func(x ssa.Value) bool
		walk = func(x ssa.Value) bool {
			if seen[x] {
				return false
			}
			seen[x] = true
			refs := x.Referrers()
			if refs == nil {
				return false
			}
			for _, rr := range *refs {
				switch rr := rr.(type) {
				case *ssa.Return:
					return true
				case *ssa.Phi:
					if walk(rr) {
						return true
					}
				case *ssa.Convert:
					if walk(rr) {
						return true
					}
				}
			}
			return false
		}
		return walk(v)
	}
	nDec := 0
	for _, b := range fn.Blocks {
		for _, in := range b.Instrs {
			bo, ok := in.(*ssa.BinOp)
			if !ok || !isIntBasic(bo.Type()) {
				continue
			}
			isDec := false
			if bo.Op == token.SUB {
				if t := fi.T(bo.Y); t.IsConst() && t.K > 0 {
					isDec = true
				}
			}
			if bo.Op == token.ADD {
				if t := fi.T(bo.Y); t.IsConst() && t.K < 0 {
					isDec = true
				}
			}
			if !isDec || !reachesReturn(bo) {
				continue
			}
			nDec++
			ck := fmt.Sprintf("decrement#%d in %s", nDec, engine.FuncName(fn))
			var probs []string
			// the loop: find the index phi i and element shards[i]
			mi := loopOf(fi, bo.Block())
			if mi == nil {
				probs = append(probs, "the decrement is not inside a loop")
				r.Check(false, "R7.4-idle-scan", ck, "decrement of the requested count at "+c.at(bo), "inside the tail scan loop", strings.Join(probs, "; "))
				continue
			}
			// element: a load shards[idx] with idx a header phi of that loop, init len(shards)-1, step -1
			var elem, idxPhi ssa.Value
			var list ssa.Value
			for _, in2 := range allInstrs(fn) {
				u, ok := in2.(*ssa.UnOp)
				if !ok || u.Op != token.MUL || !mi.blocks[u.Block().Index] {
					continue
				}
				ia, ok := u.X.(*ssa.IndexAddr)
				if !ok || !isSliceOfPtrTo(ia.X.Type(), c.shardInfo) {
					continue
				}
				if ph, ok := ia.Index.(*ssa.Phi); ok && ph.Block() == mi.header {
					elem, idxPhi, list = u, ph, ia.X
				}
			}
			if elem == nil {
				probs = append(probs, "no element shards[i] with i the loop's index variable")
			} else {
				ph := idxPhi.(*ssa.Phi)
				for k, e := range ph.Edges {
					pred := ph.Block().Preds[k]
					et := fi.T(e).S
					if fi.IsBackEdge(pred, ph.Block()) {
						if et != fi.T(ph).S+"-1" {
							probs = append(probs, "the scan index is stepped by "+et+", not i-1")
						}
					} else if et != "len("+fi.T(list).S+")-1" {
						probs = append(probs, "the scan starts at "+et+", not at the last index")
					}
				}
				if _, isParam := list.(*ssa.Parameter); !isParam {
					probs = append(probs, "the scanned list is not the function's shard list parameter")
				}
				st := fi.T(elem).S
				need := []*engine.Formula{
					engine.TrueAtom(fi.FieldPath(st, bo, c.fChangeAble)),
					engine.EqIntAtom(engine.Sym("len("+fi.FieldPath(st, bo, c.fScraping)+")"), engine.Int(0)),
					engine.Not(engine.EqAtom(fi.FieldPath(st, bo, c.fRuntime, c.fIdleStart), "nil")),
				}
				names := []string{"in sync (changeAble)", "planned set empty (len(scraping)==0)", "idle-since reported (IdleStartAt != nil)"}
				for k, nf := range need {
					if ok, _ := fi.Implies(bo.Block(), nf); !ok {
						probs = append(probs, "missing condition: "+names[k])
					}
				}
				// idle duration > MaxIdleTime
				idleOK := false
				maxIdle := fi.FieldPath(opt, bo, c.fMaxIdle)
				idlePtr := fi.FieldPath(st, bo, c.fRuntime, c.fIdleStart)
				for _, in2 := range allInstrs(fn) {
					cmp, ok := in2.(*ssa.BinOp)
					if !ok {
						continue
					}
					var dur, lim ssa.Value
					negated := false // the comparison is written as its negation ("idle <= max: stop")
					switch cmp.Op {
					case token.GTR:
						dur, lim = cmp.X, cmp.Y
					case token.LSS:
						dur, lim = cmp.Y, cmp.X
					case token.LEQ:
						dur, lim, negated = cmp.X, cmp.Y, true
					case token.GEQ:
						dur, lim, negated = cmp.Y, cmp.X, true
					default:
						continue
					}
					if fi.T(lim).S != maxIdle {
						continue
					}
					call, ok := dur.(*ssa.Call)
					if !ok {
						continue
					}
					isSub := engine.CalleeIs(call.Common(), "time", "Time", "Sub") && len(call.Call.Args) == 2 && fi.T(call.Call.Args[1]).S == "*"+idlePtr
					if isSub {
						if nowc, ok := call.Call.Args[0].(*ssa.Call); !ok || !engine.CalleeIs(nowc.Common(), "time", "", "Now") {
							isSub = false
						}
					}
					isSince := engine.CalleeIs(call.Common(), "time", "", "Since") && len(call.Call.Args) == 1 && fi.T(call.Call.Args[0]).S == "*"+idlePtr
					if !isSub && !isSince {
						continue
					}
					want := fi.Cond(cmp)
					if negated {
						want = engine.Not(want)
					}
					if ok, _ := fi.Implies(bo.Block(), want); ok {
						idleOK = true
					}
				}
				if !idleOK {
					probs = append(probs, "missing condition: now − *IdleStartAt > MaxIdleTime for the same shard")
				}
				// contiguity: every latch of the loop is dominated by the decrement
				for _, pr := range mi.header.Preds {
					if fi.IsBackEdge(pr, mi.header) && !bo.Block().Dominates(pr) {
						probs = append(probs, "an iteration can continue the scan without counting the shard removable (the scan must stop at the first shard that stays)")
					}
				}
			}
			r.Check(len(probs) == 0, "R7.4-idle-scan", ck, "decrement of the requested count at "+c.at(bo),
				"tail scan from the last index down; shard at the index is in sync ∧ planned set empty ∧ idle-since reported ∧ idle longer than MaxIdleTime; scan stops at the first shard that stays", strings.Join(probs, "; "))
		}
	}
	if nDec == 0 {
		r.Add("R7.4-idle-scan", "decrements in "+engine.FuncName(fn), engine.FuncName(fn), "the idle scan lowers the count by explicit decrements", "none found (result computed differently)", engine.Undecided)
	}
	c.checkIdleDestinations(r, fn)
}

// checkIdleDestinations (R7.5): when the scan empties the shard at index i, the shards offered as destinations are the
// ones in front of it (list[0:i]). Any other list may contain the tail shards the scan has just counted as removable:
// a target would be given to a shard in the very cycle that requests the count without it.
func (c *coord) checkIdleDestinations(r *engine.Report, fn *ssa.Function) {
	fi := c.p.Info(fn)
	var list *ssa.Parameter
	for _, q := range fn.Params {
		if isSliceOfPtrTo(q.Type(), c.shardInfo) {
			list = q
		}
	}
	if list == nil {
		return
	}
	for _, in := range allInstrs(fn) {
		call, ok := in.(*ssa.Call)
		if !ok || call.Call.StaticCallee() == nil || !engine.InPkg(call.Call.StaticCallee(), pkgCoord) {
			continue
		}
		// (…, src = list[i], destinations) - the source is an element of the scanned list
		var idx ssa.Value
		var dst ssa.Value
		for _, a := range call.Call.Args {
			if u, ok := a.(*ssa.UnOp); ok {
				if ia, ok := u.X.(*ssa.IndexAddr); ok && ia.X == ssa.Value(list) {
					idx = ia.Index
				}
			}
			if isSliceOfPtrTo(a.Type(), c.shardInfo) {
				dst = a
			}
		}
		if idx == nil || dst == nil {
			continue
		}
		ck := "destinations of " + engine.FuncName(call.Call.StaticCallee()) + " in " + engine.FuncName(fn)
		sl, ok := dst.(*ssa.Slice)
		switch {
		case !ok || sl.X != ssa.Value(list):
			r.Add("R7.5-destinations-in-front", ck, "call at "+c.at(call), "destinations are the shards in front of the one being emptied (list[0:i])", "the list passed is "+short(fi.T(dst).S)+": it may contain tail shards already counted as removable", engine.Violated)
		case sl.Low != nil && !(fi.T(sl.Low).IsConst() && fi.T(sl.Low).K == 0), sl.High == nil || fi.T(sl.High).S != fi.T(idx).S:
			r.Add("R7.5-destinations-in-front", ck, "call at "+c.at(call), "destinations are the shards in front of the one being emptied (list[0:i])", "the list passed is "+short(fi.T(dst).S)+" while the source is at index "+short(fi.T(idx).S), engine.Violated)
		default:
			r.Add("R7.5-destinations-in-front", ck, "call at "+c.at(call), "destinations are the shards in front of the one being emptied (list[0:i])", short(fi.T(dst).S), engine.Discharged)
		}
	}
}

type loopInfo struct {
	header *ssa.BasicBlock
	blocks map[int]bool
}

// loopOf returns the innermost natural loop containing b.
func loopOf(fi *engine.FuncInfo, b *ssa.BasicBlock) *loopInfo {
	var best *loopInfo
	for _, h := range fi.Fn.Blocks {
		var latches []*ssa.BasicBlock
		for _, pr := range h.Preds {
			if fi.IsBackEdge(pr, h) {
				latches = append(latches, pr)
			}
		}
		if len(latches) == 0 {
			continue
		}
		mem := map[int]bool{h.Index: true}
		stack := append([]*ssa.BasicBlock{}, latches...)
		for len(stack) > 0 {
			x := stack[len(stack)-1]
			stack = stack[:len(stack)-1]
			if mem[x.Index] {
				continue
			}
			mem[x.Index] = true
			stack = append(stack, x.Preds...)
		}
		if mem[b.Index] && (best == nil || len(mem) < len(best.blocks)) {
			best = &loopInfo{header: h, blocks: mem}
		}
	}
	return best
}

func allInstrs(fn *ssa.Function) []ssa.Instruction {
	var out []ssa.Instruction
	for _, b := range fn.Blocks {
		out = append(out, b.Instrs...)
	}
	return out
}

func controlsC07(p *engine.Prog) []Control { return nil }
