package rules

import (
	"fmt"
	"go/constant"
	"go/token"
	"go/types"
	"reflect"
	"sort"
	"strings"

	"golang.org/x/tools/go/ssa"

	"kvcheck/engine"
)

func init() {
	register(&Rule{ID: "C11", Run: runC11, Controls: controlsC11, ThoroughWhole: true,
		Explanation: "Structural necessary conditions of 'the generated Prometheus config keeps everything except where targets come from', decided on pkg/sidecar and the type graph of the Prometheus configuration: " +
			"R11.1 frame rule on jobs: the only ScrapeConfig (and inline HTTPClientConfig) fields pkg/sidecar writes are ServiceDiscoveryConfigs, Scheme, RelabelConfigs, ProxyURL and the credential fields; every ingestion-relevant field (intervals, timeouts, params, honor flags, limits, metrics path, metric relabeling, job name) is never written; the required ones (static discovery, http scheme, basic-auth and TLS removal) are written for every job; " +
			"R11.2 values: Scheme = http, BasicAuth = nil, TLSConfig = zero value, BearerToken empty, discovery = one static config built from the current assignment looked up by that job's own name; " +
			"R11.3 job list and freshness: the configuration that is rewritten is parsed from the raw content in the same injection (never a cached, already rewritten one); the only write to Config.ScrapeConfigs is the append of one self-monitoring job under ShardMonitorEnable; no other field of config.Config is written; " +
			"R11.4 secret restoration is complete: every config_util.Secret reachable from config.Config outside scrape_configs (by section and YAML key) must be read by the marshalling function for re-insertion from a field that still holds the secret after config.Load; " +
			"R11.5 placeholder misplacement: secrets are re-inserted by replacing the first '<key>: <secret>' occurrences in collection order, so the collection order must follow the serialisation order of the sections and no section serialised earlier may contain a Secret under the same YAML key. " +
			"R11.7 every accepted configuration reaches the injector: the reload callbacks run on every accepting path of ReloadFromRaw, conditional only on its error checks. " +
			"R11.2 also: the proxy URL is set for every job whenever the inject proxy is configured, under no condition on the job itself; the injector's assignment is replaced as a whole by the map of each update and never merged into. " +
			"R11.7 also: an injection reports success only after the generated file was written in that very call (no skip-if-unchanged memory). " +
			"Not decided: validity of the YAML for every configuration.",
		Assumptions: []string{"go/types and go/ssa are correct", "config_util.Secret marshals as <secret> (reviewed in the pinned prometheus/common)",
			"HTTPClientConfig.Validate moves bearer_token into authorization.credentials and clears it (reviewed in the pinned prometheus/common; re-derived from its SSA in the thorough tier)"}})
}

type secretPath struct {
	section string // yaml key of the top-level section
	key     string // yaml key path below the list element, e.g. basic_auth.password
	goPath  string
}

func yamlKey(st *types.Struct, i int) (string, bool) {
	tag := reflect.StructTag(st.Tag(i)).Get("yaml")
	parts := strings.Split(tag, ",")
	inline := false
	for _, p := range parts[1:] {
		if p == "inline" {
			inline = true
		}
	}
	if parts[0] == "-" {
		return "-", false
	}
	if parts[0] == "" && !inline {
		return strings.ToLower(st.Field(i).Name()), false
	}
	return parts[0], inline
}

// secretPaths walks the type graph of t and lists every field of type config_util.Secret.
func secretPaths(p *engine.Prog, t types.Type, secretT *types.Named, allNamed []*types.Named) []secretPath {
	var out []secretPath
	seen := map[string]bool{}
	var walk func(t types.Type, section, key, gopath string, depth int)
	walk = func(t types.Type, section, key, gopath string, depth int) {
		if depth > 12 {
			return
		}
		if n, ok := t.(*types.Named); ok && n.Obj() == secretT.Obj() {
			k := section + "/" + key
			if !seen[k] {
				seen[k] = true
				out = append(out, secretPath{section, key, gopath})
			}
			return
		}
		switch u := t.Underlying().(type) {
		case *types.Pointer:
			walk(u.Elem(), section, key, gopath, depth+1)
		case *types.Slice:
			walk(u.Elem(), section, key, gopath+"[]", depth+1)
		case *types.Map:
			walk(u.Elem(), section, key, gopath+"{}", depth+1)
		case *types.Interface:
			if u.NumMethods() == 0 {
				return
			}
			for _, nt := range allNamed {
				if _, isIface := nt.Underlying().(*types.Interface); isIface {
					continue
				}
				if types.Implements(nt, u) || types.Implements(types.NewPointer(nt), u) {
					// SD configs are serialised under "<name>_sd_configs"; use the type name as key element
					walk(nt, section, joinKey(key, "<sd>."+nt.Obj().Pkg().Name()), gopath+"<"+nt.Obj().Pkg().Name()+"."+nt.Obj().Name()+">", depth+1)
				}
			}
		case *types.Struct:
			for i := 0; i < u.NumFields(); i++ {
				f := u.Field(i)
				if !f.Exported() {
					continue
				}
				yk, inline := yamlKey(u, i)
				nk := key
				ns := section
				if section == "" {
					ns = yk
					if yk == "-" {
						continue
					}
					walk(f.Type(), ns, "", gopath+"."+f.Name(), depth+1)
					continue
				}
				if yk == "-" {
					// not serialised directly (ServiceDiscoveryConfigs is marshalled through a custom MarshalYAML)
					nk = key
				} else if !inline {
					nk = joinKey(key, yk)
				}
				walk(f.Type(), ns, nk, gopath+"."+f.Name(), depth+1)
			}
		}
	}
	walk(t, "", "", "Config", 0)
	sort.Slice(out, func(i, j int) bool { return out[i].section+"/"+out[i].key < out[j].section+"/"+out[j].key })
	return out
}

func joinKey(a, b string) string {
	if a == "" {
		return b
	}
	return a + "." + b
}

func runC11(p *engine.Prog, r *engine.Report) {
	cfgT := p.Named("github.com/prometheus/prometheus/config", "Config")
	scT := p.Named("github.com/prometheus/prometheus/config", "ScrapeConfig")
	httpT := p.Named("github.com/prometheus/common/config", "HTTPClientConfig")
	secretT := p.Named("github.com/prometheus/common/config", "Secret")
	fCurTargets := p.Field(pkgSide, "Injector", "curTargets")
	fOptMonitor := p.Field(pkgSide, "InjectConfigOptions", "ShardMonitorEnable")
	if len(p.Problems) > 0 {
		return
	}
	r.Min("R11.1-frame", 2)
	r.Min("R11.2-values", 4)
	r.Min("R11.3-job-list", 2)
	r.Min("R11.4-secret-restored", 4)
	r.Min("R11.5-placeholder-order", 1)
	r.Min("R11.7-applied", 1)

	allowed := map[string]bool{"ServiceDiscoveryConfigs": true, "Scheme": true, "RelabelConfigs": true,
		"HTTPClientConfig.ProxyURL": true, "HTTPClientConfig.BasicAuth": true, "HTTPClientConfig.TLSConfig": true, "HTTPClientConfig.BearerToken": true,
		"HTTPClientConfig.BearerTokenFile": true, "HTTPClientConfig.Authorization": true, "HTTPClientConfig.OAuth2": true}
	required := []string{"ServiceDiscoveryConfigs", "Scheme", "HTTPClientConfig.BasicAuth", "HTTPClientConfig.TLSConfig"}
	written := map[string][]*ssa.Store{}
	var side []*ssa.Function
	for _, fn := range p.Funcs {
		if engine.InPkg(fn, pkgSide) {
			side = append(side, fn)
		}
	}
	// field path of a store address relative to a *ScrapeConfig / *Config base
	pathOf := func(addr ssa.Value) (base *types.Named, path string) {
		var parts []string
		cur := addr
		for d := 0; d < 6; d++ {
			fa, ok := cur.(*ssa.FieldAddr)
			if !ok {
				return nil, ""
			}
			parts = append([]string{engine.FieldOf(fa).Name()}, parts...)
			pt, ok := fa.X.Type().Underlying().(*types.Pointer)
			if !ok {
				return nil, ""
			}
			if n, ok := pt.Elem().(*types.Named); ok && (n.Obj() == scT.Obj() || n.Obj() == cfgT.Obj()) {
				return n, strings.Join(parts, ".")
			}
			cur = fa.X
		}
		return nil, ""
	}
	var cfgWrites []string
	var jobFn *ssa.Function
	for _, fn := range side {
		for _, in := range allInstrs(fn) {
			st, ok := in.(*ssa.Store)
			if !ok {
				continue
			}
			base, path := pathOf(st.Addr)
			if base == nil {
				continue
			}
			if _, isLit := rootAllocOf(st.Addr).(*ssa.Alloc); isLit && rootAllocOf(st.Addr).(*ssa.Alloc).Heap && strings.Contains(rootAllocOf(st.Addr).(*ssa.Alloc).Comment, "complit") {
				continue // a new job built by a composite literal (the self-monitoring job)
			}
			if base.Obj() == scT.Obj() {
				written[path] = append(written[path], st)
				jobFn = fn
			} else {
				cfgWrites = append(cfgWrites, path+" in "+engine.FuncName(fn)+" ("+p.Rel(st.Pos())+")")
				if path == "ScrapeConfigs" {
					checkJobAppend(p, r, fn, st, fOptMonitor)
				}
			}
		}
	}
	_ = httpT
	// ---- R11.1
	{
		var probs []string
		var ws []string
		for path := range written {
			ws = append(ws, path)
			if !allowed[path] {
				for _, st := range written[path] {
					probs = append(probs, "job field "+path+" is overwritten at "+p.Rel(st.Pos())+" (ingestion-relevant settings must be kept)")
				}
			}
		}
		sort.Strings(ws)
		r.Check(len(probs) == 0, "R11.1-frame", "fields of ScrapeConfig written in pkg/sidecar", "who-may-write table: "+strings.Join(ws, ", "), "subset of {discovery, scheme, relabel rule, proxy URL, credentials}", strings.Join(probs, "; "))
		probs = nil
		for _, req := range required {
			sts := written[req]
			if len(sts) == 0 {
				probs = append(probs, req+" is never rewritten")
				continue
			}
			// on every job: inside the loop over cfg.ScrapeConfigs, dominating every latch
			for _, st := range sts {
				fi := p.Info(st.Parent())
				lp := loopOf(fi, st.Block())
				if lp == nil {
					probs = append(probs, req+" is not rewritten per job")
					continue
				}
				for _, pr := range lp.header.Preds {
					if fi.IsBackEdge(pr, lp.header) && !st.Block().Dominates(pr) {
						probs = append(probs, "a job can pass without "+req+" being rewritten")
					}
				}
			}
		}
		r.Check(len(probs) == 0, "R11.1-frame", "required rewrites per job", "job rewriter", "every job gets static discovery, http scheme, basic-auth and TLS settings removed", strings.Join(probs, "; "))
	}
	// ---- R11.2
	if jobFn != nil {
		fi := p.Info(jobFn)
		val := func(path string) (ssa.Value, *ssa.Store) {
			if sts := written[path]; len(sts) == 1 {
				return sts[0].Val, sts[0]
			}
			return nil, nil
		}
		if v, st := val("Scheme"); st != nil {
			s, ok := constString(v)
			r.Check(ok && s == "http", "R11.2-values", "job.Scheme", "store at "+p.Rel(st.Pos()), "the constant http", fi.T(v).S)
		}
		if v, st := val("HTTPClientConfig.BasicAuth"); st != nil {
			r.Check(isNilConst(v), "R11.2-values", "job.BasicAuth", "store at "+p.Rel(st.Pos()), "nil (the proxy authenticates)", fi.T(v).S)
		}
		if v, st := val("HTTPClientConfig.BearerToken"); st != nil {
			s, ok := constString(v)
			r.Check(ok && s == "", "R11.2-values", "job.BearerToken", "store at "+p.Rel(st.Pos()), "empty", fi.T(v).S)
		}
		if v, st := val("HTTPClientConfig.TLSConfig"); st != nil {
			okz := false
			if u, ok := v.(*ssa.UnOp); ok {
				if al, ok := u.X.(*ssa.Alloc); ok {
					okz = true
					for _, rr := range *al.Referrers() {
						if _, isFA := rr.(*ssa.FieldAddr); isFA {
							okz = false
						}
					}
				}
			}
			if c, ok := v.(*ssa.Const); ok && c.Value == nil {
				okz = true
			}
			r.Check(okz, "R11.2-values", "job.TLSConfig", "store at "+p.Rel(st.Pos()), "the zero TLSConfig", fi.T(v).S)
		}
		if v, st := val("ServiceDiscoveryConfigs"); st != nil {
			var probs []string
			elems := sliceLitElems(unwrapCT(v))
			if len(elems) != 1 {
				probs = append(probs, fmt.Sprintf("%d discovery configs installed (want exactly one static config)", len(elems)))
			} else {
				e := unwrapIface(elems[0])
				// StaticConfig(groupWriter(job.JobName, i.curTargets[job.JobName]))
				t := fi.T(e).S
				var lk *ssa.Lookup
				var find func(x ssa.Value, d int)
				find = func(x ssa.Value, d int) {
					if d > 6 || lk != nil {
						return
					}
					switch y := x.(type) {
					case *ssa.Lookup:
						lk = y
					case *ssa.Call:
						for _, a := range y.Call.Args {
							find(a, d+1)
						}
					case *ssa.ChangeType:
						find(y.X, d+1)
					case *ssa.MakeInterface:
						find(y.X, d+1)
					case *ssa.Convert:
						find(y.X, d+1)
					}
				}
				find(e, 0)
				if lk == nil {
					probs = append(probs, "the static config is "+short(t)+", not built from the current assignment")
				} else {
					if _, ok := loadOfField(lk.X, fCurTargets); !ok {
						probs = append(probs, "the targets are looked up in "+short(fi.T(lk.X).S)+", not in the injector's current assignment")
					}
					jt := fi.T(st.Addr.(*ssa.FieldAddr).X).S
					if fi.T(lk.Index).S != jt+".JobName" {
						probs = append(probs, "the assignment is looked up by "+short(fi.T(lk.Index).S)+", not by this job's own name")
					}
				}
			}
			r.Check(len(probs) == 0, "R11.2-values", "job.ServiceDiscoveryConfigs", "store at "+p.Rel(st.Pos()), "one static config from curTargets[job.JobName]", strings.Join(probs, "; "))
		}
	}
	// ---- R11.2 (proxy): every job goes through the sidecar's proxy whenever one is configured
	if jobFn != nil {
		fi := p.Info(jobFn)
		for _, st := range written["HTTPClientConfig.ProxyURL"] {
			var probs []string
			job := rootAllocOf2(st.Addr)
			jt := fi.T(job).S
			for _, g := range nonStructural(fi.Guards(st.Block())) {
				if jt != "" && strings.Contains(g, jt) {
					probs = append(probs, "the proxy is only set when "+short(g)+" (a property of the job itself): such a job would be scraped past the sidecar")
				}
			}
			r.Check(len(probs) == 0, "R11.2-values", "job.ProxyURL", "store at "+p.Rel(st.Pos()), "set for every job whenever the inject proxy is configured, whatever the job says", strings.Join(probs, "; "))
		}
	}
	// ---- R11.2 (assignment): the injector's assignment is replaced as a whole by each update
	{
		var probs []string
		nW := 0
		for _, fn := range side {
			for _, in := range allInstrs(fn) {
				switch x := in.(type) {
				case *ssa.Store:
					fa, ok := x.Addr.(*ssa.FieldAddr)
					if !ok || engine.FieldOf(fa) != fCurTargets {
						continue
					}
					nW++
					switch v := x.Val.(type) {
					case *ssa.Parameter, *ssa.MakeMap:
					case *ssa.Const:
					default:
						probs = append(probs, "the assignment is set to "+short(p.Info(fn).T(v).S)+" in "+engine.FuncName(fn)+" ("+p.Rel(x.Pos())+"), not to the map of the update")
					}
				case *ssa.MapUpdate:
					if _, ok := loadOfField(x.Map, fCurTargets); ok {
						probs = append(probs, "entries are written into the kept assignment in "+engine.FuncName(fn)+" ("+p.Rel(x.Pos())+"): jobs missing from a later update keep their earlier targets")
					}
				}
			}
		}
		r.Check(len(probs) == 0 && nW > 0, "R11.2-values", "injector assignment", "who-may-write table of Injector.curTargets", "replaced as a whole by the map of each update (never merged into)", strings.Join(probs, "; "))
	}
	// ---- R11.7 (written): an injection that reports success has written the generated file in that very call: every
	// return that can be nil is the write's own result or comes after a write that succeeded. ("Content unchanged, skip
	// the write" shortcuts trust a memory of what the file holds that a failed write makes wrong.)
	{
		fWrite := p.Field(pkgSide, "Injector", "writeFile")
		for _, fn := range side {
			if fn.Parent() != nil || fn.Signature.Results().Len() != 1 || !isErrorType(fn.Signature.Results().At(0).Type()) {
				continue
			}
			var writes []*ssa.Call
			for _, in := range allInstrs(fn) {
				if call, ok := in.(*ssa.Call); ok {
					if _, ok := loadOfField(call.Call.Value, fWrite); ok {
						writes = append(writes, call)
					}
				}
			}
			if len(writes) == 0 {
				continue
			}
			fi := p.Info(fn)
			var probs []string
			for _, ret := range returnsOf(fn) {
				v := returnedValue(ret, 0)
				if v == nil {
					continue
				}
				isWrite := false
				for _, w := range writes {
					if unwrapErr(v) == ssa.Value(w) {
						isWrite = true
					}
				}
				if isWrite || (!isNilConst(v) && nonNilErrAt(fi, v, ret.Block(), 0)) {
					continue
				}
				after := false
				for _, w := range writes {
					if engine.InstrDominates(w, ret) {
						if ok, _ := fi.Implies(ret.Block(), engine.EqAtom(fi.T(w).S, "nil")); ok {
							after = true
						}
					}
				}
				if !after {
					probs = append(probs, "the return at "+p.Rel(ret.Pos())+" can report success without the file having been written in this call")
				}
			}
			r.Check(len(probs) == 0, "R11.7-applied", "file written by "+engine.FuncName(fn), engine.FuncName(fn), "success only after the generated file was written by this call", strings.Join(probs, "; "))
		}
	}
	// ---- R11.3 other writes to Config + freshness
	{
		var probs []string
		for _, w := range cfgWrites {
			if !strings.HasPrefix(w, "ScrapeConfigs in ") {
				probs = append(probs, "config.Config field written: "+w)
			}
		}
		r.Check(len(probs) == 0, "R11.3-job-list", "fields of config.Config written in pkg/sidecar", strings.Join(cfgWrites, "; "), "only ScrapeConfigs (self-monitoring job append)", strings.Join(probs, "; "))
		// freshness: every call of the job rewriter receives a config unmarshalled in the calling function
		if jobFn != nil {
			nCall := 0
			for _, fn := range side {
				fi := p.Info(fn)
				for _, in := range allInstrs(fn) {
					call, ok := in.(*ssa.Call)
					if !ok || call.Call.StaticCallee() != jobFn {
						continue
					}
					nCall++
					var arg ssa.Value
					for _, a := range call.Call.Args {
						if isPtrTo(a.Type(), cfgT) {
							arg = a
						}
					}
					okFresh := false
					why := "argument " + short(fi.T(arg).S)
					if u, ok := arg.(*ssa.UnOp); ok && u.Op == token.MUL {
						if al, ok := u.X.(*ssa.Alloc); ok {
							// cell holding a fresh &config.Config{} that yaml.Unmarshal fills from the raw content, in this function
							fresh, unm := false, false
							for _, rr := range *al.Referrers() {
								if st, ok := rr.(*ssa.Store); ok && st.Addr == ssa.Value(al) {
									if a2, ok := st.Val.(*ssa.Alloc); ok && a2.Heap {
										fresh = true
									} else {
										why = "the config variable is assigned " + short(fi.T(st.Val).S)
									}
								}
								if mi, ok := rr.(*ssa.MakeInterface); ok {
									for _, r2 := range *mi.Referrers() {
										if c2, ok := r2.(*ssa.Call); ok && strings.HasSuffix(fi.T(c2).S[:strings.Index(fi.T(c2).S+"(", "(")], "yaml.v2.Unmarshal") && engine.InstrDominates(c2, call) {
											if strings.Contains(fi.T(c2.Call.Args[0]).S, ".RawContent") {
												unm = true
											}
										}
									}
								}
							}
							okFresh = fresh && unm
							if fresh && !unm {
								why = "the config is not parsed from the raw content before it is rewritten"
							}
						}
					}
					r.Check(okFresh, "R11.3-job-list", fmt.Sprintf("rewritten config in %s #%d", engine.FuncName(fn), nCall), "call of the job rewriter at "+p.Rel(call.Pos()),
						"the configuration rewritten is freshly parsed from curCfg.RawContent in the same injection (a cached, already rewritten one would accumulate changes)", why)
				}
			}
		}
	}

	// ---- R11.7: every accepted configuration reaches the injector: the reload callbacks run on every path
	// on which ReloadFromRaw accepts (returns nil), unconditionally
	if rf := p.SSAFunc(p.Method(pkgProm, "ConfigManager", "ReloadFromRaw")); rf != nil {
		fi := p.Info(rf)
		fCallbacks := p.Field(pkgProm, "ConfigManager", "callbacks")
		var hdr *ssa.BasicBlock
		for _, in := range allInstrs(rf) {
			if call, ok := in.(*ssa.Call); ok && !call.Call.IsInvoke() && call.Call.StaticCallee() == nil && strings.Contains(fi.T(call.Call.Value).S, "."+fCallbacks.Name()+"[") {
				if lp := loopOf(fi, call.Block()); lp != nil {
					hdr = lp.header
				}
			}
		}
		var probs []string
		if hdr == nil {
			probs = append(probs, "the reload callbacks are not invoked in ReloadFromRaw")
		} else {
			for _, ret := range returnsOf(rf) {
				if isNilConst(returnedValue(ret, 0)) && !hdr.Dominates(ret.Block()) {
					probs = append(probs, "ReloadFromRaw can accept a configuration (return nil at "+p.Rel(ret.Pos())+") without running the reload callbacks (the generated file would keep the previous configuration)")
				}
			}
			for _, g := range fi.Guards(hdr) {
				if engine.IsStructuralLiteral(g) {
					continue
				}
				if strings.HasPrefix(g, "eq(") && strings.Contains(g, "nil") || strings.HasPrefix(g, "¬eq0(len(") {
					continue // error checks and the empty-content check
				}
				probs = append(probs, "the callbacks run only under "+g)
			}
		}
		r.Check(len(probs) == 0, "R11.7-applied", "callbacks in "+engine.FuncName(rf), engine.FuncName(rf), "every accepting path runs the reload callbacks, conditional only on the preceding error checks", strings.Join(probs, "; "))
	}

	// ---- R11.4 / R11.5
	w := &hashWalk{p: p}
	w.collectNamed()
	paths := secretPaths(p, cfgT, secretT, w.allNamed)
	// the marshaller: function calling yaml.Marshal with a **config.Config / *config.Config
	var marsh *ssa.Function
	for _, fn := range side {
		fi := p.Info(fn)
		for _, in := range allInstrs(fn) {
			if call, ok := in.(*ssa.Call); ok && strings.HasPrefix(fi.T(call).S, "call gopkg.in/yaml.v2.Marshal(") {
				if strings.Contains(call.Call.Args[0].Type().String(), "config.Config") || strings.Contains(unwrapIface(call.Call.Args[0]).Type().String(), "config.Config") {
					marsh = fn
				}
			}
		}
	}
	read := map[string]ssa.Instruction{} // section/key -> first read
	var order []string
	if marsh != nil {
		for _, in := range allInstrs(marsh) {
			u, ok := in.(*ssa.UnOp)
			if !ok || u.Op != token.MUL {
				continue
			}
			n, ok := u.Type().(*types.Named)
			if !ok || n.Obj() != secretT.Obj() {
				continue
			}
			// only reads that are collected (converted to string and appended)
			collected := false
			for _, rr := range *u.Referrers() {
				if _, ok := rr.(*ssa.ChangeType); ok {
					collected = true
				}
				if _, ok := rr.(*ssa.Convert); ok {
					collected = true
				}
			}
			if !collected {
				continue
			}
			for _, sk := range secretReadPaths(u.X, nil, 0) {
				k := sk[0] + "/" + sk[1]
				if _, ok := read[k]; !ok {
					read[k] = u
					order = append(order, k)
				}
			}
		}
	}
	// sections in serialisation order
	st := cfgT.Underlying().(*types.Struct)
	secOrder := map[string]int{}
	for i := 0; i < st.NumFields(); i++ {
		yk, _ := yamlKey(st, i)
		secOrder[yk] = i
	}
	cleared := map[string]bool{"bearer_token": true} // HTTPClientConfig.Validate moves it to authorization.credentials
	if p.Whole {
		if ok, why := validateClearsBearer(p); !ok {
			r.Add("R11.4-secret-restored", "library summary: Validate clears bearer_token", "prometheus/common HTTPClientConfig.Validate", "re-derived from the pinned source", why, engine.Undecided)
		} else {
			r.Add("R11.4-secret-restored", "library summary: Validate clears bearer_token", "prometheus/common HTTPClientConfig.Validate", "re-derived from the pinned source", why, engine.Discharged)
		}
	}
	nSec := 0
	sdGroups := map[string][]string{}
	for _, sp := range paths {
		if sp.section == "scrape_configs" {
			continue
		}
		nSec++
		if i := strings.Index(sp.key, "<sd>"); i >= 0 {
			gk := sp.section + "/" + sp.key[:i] + "<service discovery configs>"
			sdGroups[gk] = append(sdGroups[gk], sp.key[i+5:])
			continue
		}
		k := sp.section + "/" + sp.key
		_, isRead := read[k]
		last := sp.key[strings.LastIndex(sp.key, ".")+1:]
		switch {
		case isRead && cleared[last]:
			r.Add("R11.4-secret-restored", k, "secret "+sp.goPath, "restored into the generated file", "read by the marshaller, but config.Load (HTTPClientConfig.Validate) has moved the value to authorization.credentials and cleared this field: nothing is restored", engine.Violated)
		case isRead:
			r.Add("R11.4-secret-restored", k, "secret "+sp.goPath, "restored into the generated file", "read and re-inserted by the marshaller", engine.Discharged)
		default:
			r.Add("R11.4-secret-restored", k, "secret "+sp.goPath, "restored into the generated file", "never read by the marshaller: the generated file keeps the <secret> placeholder", engine.Violated)
		}
	}
	var gks []string
	for gk := range sdGroups {
		gks = append(gks, gk)
	}
	sort.Strings(gks)
	for _, gk := range gks {
		r.Add("R11.4-secret-restored", gk, fmt.Sprintf("%d secret fields of service-discovery configs under %s", len(sdGroups[gk]), gk), "restored into the generated file",
			"never read by the marshaller: "+strings.Join(sdGroups[gk], ", "), engine.Violated)
	}
	r.Analysed["secret_paths_outside_scrape_configs"] = nSec
	// R11.5: collection order follows section order; no earlier section has a Secret under the same last key
	{
		var probs []string
		byKind := map[string][]string{}
		for _, k := range order {
			last := k[strings.LastIndex(k, ".")+1:]
			if i := strings.LastIndex(k, "/"); !strings.Contains(k[i+1:], ".") {
				last = k[i+1:]
			}
			byKind[last] = append(byKind[last], k)
		}
		for kind, ks := range byKind {
			prev := -1
			for _, k := range ks {
				sec := k[:strings.Index(k, "/")]
				if secOrder[sec] < prev {
					probs = append(probs, "'"+kind+"' secrets are collected for "+sec+" after a section that is serialised later (they would be re-inserted into the wrong entries)")
				}
				prev = secOrder[sec]
			}
			r.Check(len(probs) == 0, "R11.5-placeholder-order", "collection order of '"+kind+"'", "marshaller "+fnName(marsh), "secrets are collected in the order in which their sections are serialised", strings.Join(probs, "; "))
			// earlier sections with the same key
			firstSec := ks[0][:strings.Index(ks[0], "/")]
			earlier := map[string][]string{}
			for _, sp := range paths {
				last := sp.key[strings.LastIndex(sp.key, ".")+1:]
				if last != kind || sp.section == "scrape_configs" {
					continue
				}
				if secOrder[sp.section] < secOrder[firstSec] {
					earlier[sp.section] = append(earlier[sp.section], sp.goPath)
				}
			}
			for sec, gps := range earlier {
				r.Add("R11.5-placeholder-order", "'"+kind+"' placeholder also in earlier section "+sec, "first-occurrence replacement of '"+kind+": <secret>'",
					"no section serialised before "+firstSec+" contains a Secret under the key '"+kind+"'", fmt.Sprintf("section %s is serialised first and has %d such fields (e.g. %s): its placeholder is replaced with %s's secret", sec, len(gps), gps[0], firstSec), engine.Violated)
			}
		}
		if marsh == nil {
			r.Add("R11.5-placeholder-order", "marshaller", "pkg/sidecar", "a function marshalling *config.Config", "not found", engine.Undecided)
		}
	}
}

func fnName(f *ssa.Function) string {
	if f == nil {
		return "?"
	}
	return engine.FuncName(f)
}

func rootAllocOf(a ssa.Value) ssa.Value {
	for d := 0; d < 8; d++ {
		switch x := a.(type) {
		case *ssa.FieldAddr:
			a = x.X
		case *ssa.IndexAddr:
			a = x.X
		default:
			return a
		}
	}
	return a
}

// secretReadPaths maps the address of a Secret load in the marshaller to (section yaml key, key path). A load
// through an element of a list that the function itself collected (pointers to the client configs of several
// sections, say) stands for a read of each collected place, in the order of collection.
func secretReadPaths(addr ssa.Value, keys []string, depth int) [][2]string {
	cur := addr
	for d := 0; d < 10; d++ {
		switch x := cur.(type) {
		case *ssa.FieldAddr:
			stt := x.X.Type().Underlying().(*types.Pointer).Elem().Underlying().(*types.Struct)
			yk, inline := yamlKey(stt, x.Field)
			// top-level section?
			if n, ok := x.X.Type().Underlying().(*types.Pointer).Elem().(*types.Named); ok && n.Obj().Name() == "Config" && n.Obj().Pkg().Path() == "github.com/prometheus/prometheus/config" {
				return [][2]string{{yk, strings.Join(keys, ".")}}
			}
			if !inline && yk != "-" {
				keys = append([]string{yk}, keys...)
			}
			cur = x.X
		case *ssa.UnOp:
			if ia, ok := x.X.(*ssa.IndexAddr); ok && depth < 2 {
				if srcs := collectedElems(ia.X); len(srcs) > 0 {
					var out [][2]string
					for _, sv := range srcs {
						out = append(out, secretReadPaths(sv, append([]string(nil), keys...), depth+1)...)
					}
					return out
				}
			}
			cur = x.X
		case *ssa.IndexAddr:
			cur = x.X
		default:
			return nil
		}
	}
	return nil
}

// collectedElems: v is a slice built in the function by appends (possibly merged by phis); the appended values in
// source order. Nil when v is anything else (a field, a parameter).
func collectedElems(v ssa.Value) []ssa.Value {
	var out []ssa.Value
	seen := map[ssa.Value]bool{}
	local := true
	var walk func(v ssa.Value)
	walk = func(v ssa.Value) {
		if seen[v] {
			return
		}
		seen[v] = true
		switch x := v.(type) {
		case *ssa.Phi:
			for _, e := range x.Edges {
				walk(e)
			}
		case *ssa.Call:
			if bi, ok := x.Call.Value.(*ssa.Builtin); ok && bi.Name() == "append" && len(x.Call.Args) == 2 {
				walk(x.Call.Args[0])
				out = append(out, sliceLitElems(x.Call.Args[1])...)
				return
			}
			local = false
		case *ssa.MakeSlice, *ssa.Const:
		default:
			local = false
		}
	}
	walk(v)
	if !local {
		return nil
	}
	sort.SliceStable(out, func(i, j int) bool { return out[i].Pos() < out[j].Pos() })
	return out
}

// validateClearsBearer re-derives the library summary from the pinned prometheus/common source (whole-program load).
func validateClearsBearer(p *engine.Prog) (bool, string) {
	for fn := range ssautilAll(p) {
		if fn.Name() != "Validate" || fn.Signature.Recv() == nil || !strings.HasSuffix(fn.Signature.Recv().Type().String(), "common/config.HTTPClientConfig") {
			continue
		}
		for _, in := range allInstrs(fn) {
			if st, ok := in.(*ssa.Store); ok {
				if fa, ok := st.Addr.(*ssa.FieldAddr); ok && engine.FieldOf(fa).Name() == "BearerToken" {
					if c, ok := st.Val.(*ssa.Const); ok && c.Value != nil && c.Value.Kind() == constant.String && constant.StringVal(c.Value) == "" {
						return true, "Validate stores \"\" into BearerToken (" + p.Rel(st.Pos()) + ")"
					}
				}
			}
		}
		return false, "HTTPClientConfig.Validate no longer clears BearerToken"
	}
	return false, "HTTPClientConfig.Validate not found in the whole program"
}

// checkJobAppend: the store to Config.ScrapeConfigs is append(cfg.ScrapeConfigs, one new job) under ShardMonitorEnable.
func checkJobAppend(p *engine.Prog, r *engine.Report, fn *ssa.Function, st *ssa.Store, fOpt *types.Var) {
	fi := p.Info(fn)
	var probs []string
	call, ok := st.Val.(*ssa.Call)
	if !ok {
		probs = append(probs, "the job list is set to "+short(fi.T(st.Val).S))
	} else if bi, ok := call.Call.Value.(*ssa.Builtin); !ok || bi.Name() != "append" {
		probs = append(probs, "the job list is replaced, not appended to")
	} else {
		if !strings.HasSuffix(strings.Split(fi.T(call.Call.Args[0]).S, "@")[0], ".ScrapeConfigs") {
			probs = append(probs, "the append does not extend the existing job list (existing jobs or their order would be lost)")
		}
		elems := varargElems(call.Call.Args[1])
		if len(elems) != 1 {
			probs = append(probs, fmt.Sprintf("%d jobs are appended", len(elems)))
		}
		for _, e := range elems {
			if al, ok := e.(*ssa.Alloc); !ok || !al.Heap {
				probs = append(probs, "the appended job is not a new job")
			}
		}
	}
	okGuard := false
	for _, g := range fi.Guards(st.Block()) {
		if strings.HasPrefix(g, "true(") && strings.HasSuffix(g, "."+fOpt.Name()+")") {
			okGuard = true
		}
	}
	if !okGuard {
		probs = append(probs, "a job is added without the self-monitoring option being enabled")
	}
	if loopOf(fi, st.Block()) != nil {
		probs = append(probs, "jobs are appended in a loop")
	}
	r.Check(len(probs) == 0, "R11.3-job-list", "job list append in "+engine.FuncName(fn), "store to Config.ScrapeConfigs at "+p.Rel(st.Pos()), "append of exactly one new (self-monitoring) job under ShardMonitorEnable", strings.Join(probs, "; "))
}

func controlsC11(p *engine.Prog) []Control { return nil }

// rootAllocOf2 walks a chain of field addresses down to the pointer they start from.
func rootAllocOf2(a ssa.Value) ssa.Value {
	for d := 0; d < 8; d++ {
		fa, ok := a.(*ssa.FieldAddr)
		if !ok {
			return a
		}
		a = fa.X
	}
	return a
}
