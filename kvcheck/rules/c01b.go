package rules

import (
	"fmt"
	"go/types"
	"strings"

	"golang.org/x/tools/go/ssa"

	"kvcheck/engine"
)

// isStatusMap: map[...]*target.ScrapeStatus
func (c *coord) isStatusMap(t types.Type) bool {
	m, ok := t.Underlying().(*types.Map)
	if !ok {
		return false
	}
	pt, ok := m.Elem().(*types.Pointer)
	if !ok {
		return false
	}
	n, ok := pt.Elem().(*types.Named)
	return ok && n.Obj().Name() == "ScrapeStatus" && n.Obj().Pkg() != nil && strings.HasSuffix(n.Obj().Pkg().Path(), pkgTarget)
}

// gcFuncs: functions of pkg/coordinator that delete from a shard's scraping map.
func (c *coord) gcFuncs() map[*ssa.Function]bool {
	out := map[*ssa.Function]bool{}
	for _, d := range c.mapDeletes {
		out[d.Parent()] = true
	}
	return out
}

// reachesAny: callee (or something it reaches inside the package) is in set.
func (c *coord) reachesAny(callee *ssa.Function, set map[*ssa.Function]bool) bool {
	for f := range reachableInPkg(c, callee) {
		if set[f] {
			return true
		}
	}
	return false
}

// vanishedRule: g removes, from every shard of the list it is given, every target that is not in the
// discovered map it is given: a delete on the ranged scraping map with the range key, reached whenever
// the presence test on the discovered map fails (decided over all branch conditions of g).
func (c *coord) vanishedRule(g *ssa.Function, activeT types.Type) (bool, string) {
	fi := c.p.Info(g)
	for _, d := range c.mapDeletes {
		if d.Parent() != g {
			continue
		}
		key := d.Call.Args[1]
		ex, ok := key.(*ssa.Extract)
		if !ok {
			continue
		}
		nx, ok := ex.Tuple.(*ssa.Next)
		if !ok {
			continue
		}
		rg, ok := nx.Iter.(*ssa.Range)
		if !ok || fi.T(rg.X).S != fi.T(d.Call.Args[0]).S {
			continue
		}
		// the presence test on the discovered map with the same key
		for _, in := range allInstrs(g) {
			lk, ok := in.(*ssa.Lookup)
			if !ok || !types.Identical(lk.X.Type().Underlying(), activeT) || lk.Index != key {
				continue
			}
			if _, isParam := lk.X.(*ssa.Parameter); !isParam {
				continue
			}
			base := ownBase(fi, lk)
			var absent *engine.Formula
			if lk.CommaOk {
				absent = engine.Not(engine.A("has(" + base + ")"))
			} else {
				absent = engine.EqAtom(base, "nil")
			}
			v := fi.ViewAll(absent, ex.Block())
			if v == nil {
				return false, "too many conditions in " + engine.FuncName(g)
			}
			if v.ImpliedBy(d.Block(), absent) {
				return true, "delete at " + c.at(d) + " is reached whenever " + absent.String()
			}
		}
	}
	return false, "no delete of the ranged key that is reached whenever the target is missing from the discovered map"
}

// coversActive: v returns a map that has an entry for every key of its discovered-map parameter.
func (c *coord) coversActive(v *ssa.Function, activeT types.Type) (bool, string) {
	if v == nil || v.Blocks == nil {
		return false, "no body"
	}
	fi := c.p.Info(v)
	var ret ssa.Value
	for _, rt := range returnsOf(v) {
		if ret != nil && ret != rt.Results[0] {
			return false, "several returned maps"
		}
		ret = rt.Results[0]
	}
	if _, ok := ret.(*ssa.MakeMap); !ok {
		return false, "the returned map is not built in the function"
	}
	for _, in := range allInstrs(v) {
		rg, ok := in.(*ssa.Range)
		if !ok || !types.Identical(rg.X.Type().Underlying(), activeT) {
			continue
		}
		if _, isParam := rg.X.(*ssa.Parameter); !isParam {
			continue
		}
		// the loop header is the block of the Next
		var nx *ssa.Next
		for _, rr := range *rg.Referrers() {
			if n, ok := rr.(*ssa.Next); ok {
				nx = n
			}
		}
		if nx == nil {
			continue
		}
		hdr := nx.Block()
		kt := "rk:" + rg.Name()
		isUpd := func(i ssa.Instruction) bool {
			mu, ok := i.(*ssa.MapUpdate)
			return ok && mu.Map == ret && fi.T(mu.Key).S == kt
		}
		all := true
		n := 0
		for _, pb := range hdr.Preds {
			if !fi.IsBackEdge(pb, hdr) {
				continue
			}
			n++
			if !fi.MustPass(nx, pb.Instrs[len(pb.Instrs)-1], isUpd) {
				// the iteration may be ended early under a flag that is only set where an entry was stored
				okFlag := false
				sites := c.decisionSites(pb.Instrs[len(pb.Instrs)-1])
				if iff, isIf := pb.Instrs[len(pb.Instrs)-1].(*ssa.If); isIf && pb.Succs[0] == hdr {
					// "if found { continue }": the back edge is the true edge of a test of the flag
					if ph, isPhi := iff.Cond.(*ssa.Phi); isPhi {
						sites = phiTrueSites(fi, ph)
					}
				}
				if len(sites) > 0 && sites[0].blk != pb {
					okFlag = true
					for _, st := range sites {
						if !fi.MustPass(nx, st.blk.Instrs[len(st.blk.Instrs)-1], isUpd) {
							okFlag = false
						}
					}
				}
				if !okFlag {
					all = false
				}
			}
		}
		if n > 0 && all {
			return true, "every iteration over the discovered map stores an entry under its key"
		}
		return false, "an iteration over the discovered map can end without storing an entry for its key"
	}
	return false, "no loop over the discovered map"
}

// checkStatusDerefs is R1.8 (vi): every dereference of an unchecked lookup in a map of scrape statuses is
// either nil-tested on its path or justified by the cycle's order of steps: the key comes from the planned set
// of an in-sync shard, garbage collection (which removes what is no longer discovered from exactly those shards)
// ran before, and the map was built with an entry for every discovered target.
func (c *coord) checkStatusDerefs(r *engine.Report, activeT types.Type) {
	p := c.p
	gcs := c.gcFuncs()
	n := 0
	for _, fn := range c.funcs {
		fi := p.Info(fn)
		seen := map[string]bool{}
		for _, in := range allInstrs(fn) {
			fa, ok := in.(*ssa.FieldAddr)
			if !ok {
				continue
			}
			lk, ok := fa.X.(*ssa.Lookup)
			if !ok || lk.CommaOk || !c.isStatusMap(lk.X.Type()) {
				continue
			}
			base := ownBase(fi, lk)
			if seen[base] {
				continue
			}
			seen[base] = true
			n++
			ck := fmt.Sprintf("dereference#%d of a status-map lookup in %s", n, engine.FuncName(fn))
			need := "the looked-up status is tested non-nil on every path, or: key from the planned set of an in-sync shard ∧ GC ran before on the same shards and discovered set ∧ the map covers every discovered target"
			if ok2, _ := fi.Implies(fa.Block(), engine.Or(engine.Not(engine.EqAtom(base, "nil")), engine.A("has("+base+")"))); ok2 {
				r.Add("R1.8-crash-freedom", ck, "dereference at "+c.at(fa), need, "nil-tested on the path", engine.Discharged)
				continue
			}
			why := c.justifyStatusDeref(fn, fi, lk, fa, gcs, activeT)
			r.Check(why == "", "R1.8-crash-freedom", ck, "dereference at "+c.at(fa), need, why)
		}
	}
}

func (c *coord) justifyStatusDeref(fn *ssa.Function, fi *engine.FuncInfo, lk *ssa.Lookup, fa *ssa.FieldAddr, gcs map[*ssa.Function]bool, activeT types.Type) string {
	// (0) helper form: key and shard are parameters, and every call site passes a key it is ranging over
	// in that very shard's planned set
	if ki := paramIndex(fn, lk.Index); ki >= 0 {
		owner, ok := loadOfField(lk.X, c.fScraping)
		oi := -1
		if ok {
			oi = paramIndex(fn, owner)
		}
		if oi < 0 {
			return "the key is a parameter but the map is not the planned set of a shard parameter"
		}
		obj, _ := fn.Object().(*types.Func)
		sites := c.p.CallsTo(obj)
		if len(sites) == 0 {
			return "no call site found"
		}
		for _, cs := range sites {
			cfi := c.p.Info(cs.Parent())
			args := cs.Common().Args
			okSite := false
			if ex, ok := args[ki].(*ssa.Extract); ok && ex.Index == 1 {
				if nx, ok := ex.Tuple.(*ssa.Next); ok {
					if rg, ok := nx.Iter.(*ssa.Range); ok {
						if o2, ok := loadOfField(rg.X, c.fScraping); ok && cfi.T(o2).S == cfi.T(args[oi]).S {
							okSite = true
						}
					}
				}
			}
			if !okSite {
				return "at " + c.at(cs) + " the key is not one the caller is ranging over in the planned set of the shard it passes"
			}
		}
		return ""
	}
	// (a) the key is a range key over X.scraping with X.changeAble on the path
	ex, ok := lk.Index.(*ssa.Extract)
	if !ok {
		return "the key is not a key of a shard's planned set; a report can name a target that is no longer discovered"
	}
	nx, _ := ex.Tuple.(*ssa.Next)
	if nx == nil {
		return "the key is not a range key"
	}
	rg, _ := nx.Iter.(*ssa.Range)
	if rg == nil {
		return "the key is not a range key"
	}
	owner, ok := loadOfField(rg.X, c.fScraping)
	if !ok {
		return "the key does not range over a shard's planned set"
	}
	if ok2, _ := fi.Implies(fa.Block(), engine.TrueAtom(fi.T(owner).S+"."+c.fChangeAble.Name())); !ok2 {
		return "the shard whose planned set supplies the key is not known to be in sync here: an out-of-sync shard keeps its raw report, which may name a target that is no longer discovered (nil entry dereferenced)"
	}
	// (b) the map is a parameter
	pi := paramIndex(fn, lk.X)
	if pi < 0 {
		return "the map is not a parameter whose construction can be followed"
	}
	obj, _ := fn.Object().(*types.Func)
	sites := c.p.CallsTo(obj)
	if len(sites) == 0 {
		return "no call site found"
	}
	for _, cs := range sites {
		caller := cs.Parent()
		cfi := c.p.Info(caller)
		args := cs.Common().Args
		view, ok := args[pi].(*ssa.Call)
		if !ok || view.Call.StaticCallee() == nil {
			return "at " + c.at(cs) + " the map is not the direct result of the function that builds the status view"
		}
		vf := view.Call.StaticCallee()
		var act ssa.Value
		for _, a := range view.Call.Args {
			if types.Identical(a.Type().Underlying(), activeT) {
				act = a
			}
		}
		if act == nil {
			return "the status view at " + c.at(view) + " is not built from the discovered set"
		}
		if ok, why := c.coversActive(vf, activeT); !ok {
			return engine.FuncName(vf) + ": " + why
		}
		// GC before, on the same discovered set
		okGC := false
		whyGC := "no garbage collection of vanished targets precedes the call at " + c.at(cs)
		for _, in := range allInstrs(caller) {
			g, ok := in.(*ssa.Call)
			if !ok || g.Call.StaticCallee() == nil || !gcs[g.Call.StaticCallee()] {
				continue
			}
			if !engine.InstrDominates(g, cs) {
				continue
			}
			same := false
			for _, a := range g.Call.Args {
				if a == act {
					same = true
				}
			}
			if !same {
				whyGC = "garbage collection at " + c.at(g) + " works on another discovered set than the status view"
				continue
			}
			if ok, why := c.vanishedRule(g.Call.StaticCallee(), activeT); !ok {
				whyGC = engine.FuncName(g.Call.StaticCallee()) + ": " + why
				continue
			}
			// the shard list: the same value as the one the dereferencing function gets, or its in-sync filter
			okList := false
			for _, ga := range g.Call.Args {
				for _, ca := range args {
					if ga == ca && strings.Contains(ga.Type().String(), "shardInfo") {
						okList = true
					}
					if fc, ok := ga.(*ssa.Call); ok && fc.Call.StaticCallee() != nil && c.filters[fc.Call.StaticCallee()] && len(fc.Call.Args) > 0 && fc.Call.Args[0] == ca {
						okList = true
					}
				}
			}
			if !okList {
				whyGC = "garbage collection at " + c.at(g) + " is not given the (in-sync part of the) shard list used at " + c.at(cs)
				continue
			}
			okGC = true
		}
		if !okGC {
			return whyGC
		}
		_ = cfi
	}
	return ""
}

// checkGCFirst is R1.9: within the cycle, garbage collection precedes every step that adds a copy to a planned set
// or marks one in transfer. A copy planned earlier in the same cycle carries the source's counters and would be taken
// by the "confirmed by a normal copy elsewhere" rule for a copy the destination reports.
func (c *coord) checkGCFirst(r *engine.Report) {
	gcs := c.gcFuncs()
	adders := map[*ssa.Function]bool{}
	for _, mw := range c.mapWrites {
		adders[mw.Parent()] = true
	}
	n := 0
	for _, fn := range c.funcs {
		var gcCalls []*ssa.Call
		for _, in := range allInstrs(fn) {
			if call, ok := in.(*ssa.Call); ok && call.Call.StaticCallee() != nil && gcs[call.Call.StaticCallee()] && !gcs[fn] {
				gcCalls = append(gcCalls, call)
			}
		}
		if len(gcCalls) == 0 {
			continue
		}
		n++
		var probs []string
		for _, in := range allInstrs(fn) {
			call, ok := in.(*ssa.Call)
			if !ok || call.Call.StaticCallee() == nil || gcs[call.Call.StaticCallee()] {
				continue
			}
			callee := call.Call.StaticCallee()
			if !engine.InPkg(callee, pkgCoord) || !c.reachesAny(callee, adders) {
				continue
			}
			// list builders create the planned sets from the reports; they are not planning steps
			if c.listBuilders[callee] || c.reachesAny(callee, c.listBuilders) {
				continue
			}
			dom := false
			for _, g := range gcCalls {
				if engine.InstrDominates(g, call) {
					dom = true
				}
			}
			if !dom {
				probs = append(probs, engine.FuncName(callee)+" (at "+c.at(call)+") adds planned copies before garbage collection has run: the collector would take a copy planned in this cycle for one the destination reports")
			}
		}
		r.Check(len(probs) == 0, "R1.9-gc-first", "cycle "+engine.FuncName(fn), "order of steps in "+engine.FuncName(fn), "garbage collection precedes every step that adds to a planned set", strings.Join(probs, "; "))
	}
	if n == 0 {
		r.Add("R1.9-gc-first", "cycle", pkgCoord, "a function that calls the garbage collector", "none found", engine.Undecided)
	}
}
