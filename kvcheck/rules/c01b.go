package rules

import (
	"fmt"
	"go/token"
	"go/types"
	"strings"

	"golang.org/x/tools/go/ssa"

	"kvcheck/engine"
)

// isStatusMap: map[...]*target.ScrapeStatus
func (c *coord) isStatusMap(t types.Type) bool {
	m, ok := t.Underlying().(*types.Map)
	if !ok {
		return false
	}
	pt, ok := m.Elem().(*types.Pointer)
	if !ok {
		return false
	}
	n, ok := pt.Elem().(*types.Named)
	return ok && n.Obj().Name() == "ScrapeStatus" && n.Obj().Pkg() != nil && strings.HasSuffix(n.Obj().Pkg().Path(), pkgTarget)
}

// gcFuncs: functions of pkg/coordinator that delete from a shard's scraping map.
func (c *coord) gcFuncs() map[*ssa.Function]bool {
	out := map[*ssa.Function]bool{}
	for _, d := range c.mapDeletes {
		out[d.Parent()] = true
	}
	return out
}

// reachesAny: callee (or something it reaches inside the package) is in set.
func (c *coord) reachesAny(callee *ssa.Function, set map[*ssa.Function]bool) bool {
	for f := range reachableInPkg(c, callee) {
		if set[f] {
			return true
		}
	}
	return false
}

// vanishedRule: g removes, from every shard of the list it is given, every target that is not in the
// discovered map it is given: a delete on the ranged scraping map with the range key, reached whenever
// the presence test on the discovered map fails (decided over all branch conditions of g).
func (c *coord) vanishedRule(g *ssa.Function, activeT types.Type) (bool, string) {
	fi := c.p.Info(g)
	for _, d := range c.mapDeletes {
		if d.Parent() != g {
			continue
		}
		key := d.Call.Args[1]
		ex, ok := key.(*ssa.Extract)
		if !ok {
			continue
		}
		nx, ok := ex.Tuple.(*ssa.Next)
		if !ok {
			continue
		}
		rg, ok := nx.Iter.(*ssa.Range)
		if !ok || fi.T(rg.X).S != fi.T(d.Call.Args[0]).S {
			continue
		}
		// the presence test on the discovered map with the same key
		for _, in := range allInstrs(g) {
			lk, ok := in.(*ssa.Lookup)
			if !ok || !types.Identical(lk.X.Type().Underlying(), activeT) || lk.Index != key {
				continue
			}
			if _, isParam := lk.X.(*ssa.Parameter); !isParam {
				continue
			}
			base := ownBase(fi, lk)
			var absent *engine.Formula
			if lk.CommaOk {
				absent = engine.Not(engine.A("has(" + base + ")"))
			} else {
				absent = engine.EqAtom(base, "nil")
			}
			v := fi.ViewAll(absent, ex.Block())
			if v == nil {
				return false, "too many conditions in " + engine.FuncName(g)
			}
			if v.ImpliedBy(d.Block(), absent) {
				return true, "delete at " + c.at(d) + " is reached whenever " + absent.String()
			}
		}
	}
	return false, "no delete of the ranged key that is reached whenever the target is missing from the discovered map"
}

// coversActive: v returns a map that has an entry for every key of its discovered-map parameter.
func (c *coord) coversActive(v *ssa.Function, activeT types.Type) (bool, string) {
	if v == nil || v.Blocks == nil {
		return false, "no body"
	}
	fi := c.p.Info(v)
	var ret ssa.Value
	for _, rt := range returnsOf(v) {
		if ret != nil && ret != rt.Results[0] {
			return false, "several returned maps"
		}
		ret = rt.Results[0]
	}
	if _, ok := ret.(*ssa.MakeMap); !ok {
		return false, "the returned map is not built in the function"
	}
	for _, in := range allInstrs(v) {
		rg, ok := in.(*ssa.Range)
		if !ok || !types.Identical(rg.X.Type().Underlying(), activeT) {
			continue
		}
		if _, isParam := rg.X.(*ssa.Parameter); !isParam {
			continue
		}
		// the loop header is the block of the Next
		var nx *ssa.Next
		for _, rr := range *rg.Referrers() {
			if n, ok := rr.(*ssa.Next); ok {
				nx = n
			}
		}
		if nx == nil {
			continue
		}
		hdr := nx.Block()
		kt := "rk:" + rg.Name()
		isUpd := func(i ssa.Instruction) bool {
			mu, ok := i.(*ssa.MapUpdate)
			return ok && mu.Map == ret && fi.T(mu.Key).S == kt
		}
		all := true
		n := 0
		for _, pb := range hdr.Preds {
			if !fi.IsBackEdge(pb, hdr) {
				continue
			}
			n++
			if !fi.MustPass(nx, pb.Instrs[len(pb.Instrs)-1], isUpd) {
				// the iteration may be ended early under a flag that is only set where an entry was stored
				okFlag := false
				sites := c.decisionSites(pb.Instrs[len(pb.Instrs)-1])
				if iff, isIf := pb.Instrs[len(pb.Instrs)-1].(*ssa.If); isIf && pb.Succs[0] == hdr {
					// "if found { continue }": the back edge is the true edge of a test of the flag
					if ph, isPhi := iff.Cond.(*ssa.Phi); isPhi {
						sites = phiTrueSites(fi, ph)
					}
				}
				if len(sites) > 0 && sites[0].blk != pb {
					okFlag = true
					for _, st := range sites {
						if !fi.MustPass(nx, st.blk.Instrs[len(st.blk.Instrs)-1], isUpd) {
							okFlag = false
						}
					}
				}
				if !okFlag {
					all = false
				}
			}
		}
		if n > 0 && all {
			return true, "every iteration over the discovered map stores an entry under its key"
		}
		return false, "an iteration over the discovered map can end without storing an entry for its key"
	}
	return false, "no loop over the discovered map"
}

// checkStatusDerefs is R1.8 (vi): every dereference of an unchecked lookup in a map of scrape statuses is
// either nil-tested on its path or justified by the cycle's order of steps: the key comes from the planned set
// of an in-sync shard, garbage collection (which removes what is no longer discovered from exactly those shards)
// ran before, and the map was built with an entry for every discovered target.
func (c *coord) checkStatusDerefs(r *engine.Report, activeT types.Type) {
	p := c.p
	gcs := c.gcFuncs()
	n := 0
	for _, fn := range c.funcs {
		fi := p.Info(fn)
		seen := map[string]bool{}
		for _, in := range allInstrs(fn) {
			fa, ok := in.(*ssa.FieldAddr)
			if !ok {
				continue
			}
			lk, ok := fa.X.(*ssa.Lookup)
			if !ok || lk.CommaOk || !c.isStatusMap(lk.X.Type()) {
				continue
			}
			base := ownBase(fi, lk)
			if seen[base] {
				continue
			}
			seen[base] = true
			n++
			ck := fmt.Sprintf("dereference#%d of a status-map lookup in %s", n, engine.FuncName(fn))
			need := "the looked-up status is tested non-nil on every path, or: key from the planned set of an in-sync shard ∧ GC ran before on the same shards and discovered set ∧ the map covers every discovered target"
			if ok2, _ := fi.Implies(fa.Block(), engine.Or(engine.Not(engine.EqAtom(base, "nil")), engine.A("has("+base+")"))); ok2 {
				r.Add("R1.8-crash-freedom", ck, "dereference at "+c.at(fa), need, "nil-tested on the path", engine.Discharged)
				continue
			}
			why := c.justifyStatusDeref(fn, fi, lk, fa, gcs, activeT)
			r.Check(why == "", "R1.8-crash-freedom", ck, "dereference at "+c.at(fa), need, why)
		}
	}
}

func (c *coord) justifyStatusDeref(fn *ssa.Function, fi *engine.FuncInfo, lk *ssa.Lookup, fa *ssa.FieldAddr, gcs map[*ssa.Function]bool, activeT types.Type) string {
	// (0) helper form: key and shard are parameters, and every call site passes a key it is ranging over
	// in that very shard's planned set
	if ki := paramIndex(fn, lk.Index); ki >= 0 {
		owner, ok := loadOfField(lk.X, c.fScraping)
		oi := -1
		if ok {
			oi = paramIndex(fn, owner)
		}
		if oi < 0 {
			return "the key is a parameter but the map is not the planned set of a shard parameter"
		}
		obj, _ := fn.Object().(*types.Func)
		sites := c.p.CallsTo(obj)
		if len(sites) == 0 {
			return "no call site found"
		}
		for _, cs := range sites {
			cfi := c.p.Info(cs.Parent())
			args := cs.Common().Args
			okSite := false
			if ex, ok := args[ki].(*ssa.Extract); ok && ex.Index == 1 {
				if nx, ok := ex.Tuple.(*ssa.Next); ok {
					if rg, ok := nx.Iter.(*ssa.Range); ok {
						if o2, ok := loadOfField(rg.X, c.fScraping); ok && cfi.T(o2).S == cfi.T(args[oi]).S {
							okSite = true
						}
					}
				}
			}
			if !okSite {
				return "at " + c.at(cs) + " the key is not one the caller is ranging over in the planned set of the shard it passes"
			}
		}
		return ""
	}
	// (a) the key is a range key over X.scraping with X.changeAble on the path
	ex, ok := lk.Index.(*ssa.Extract)
	if !ok {
		return "the key is not a key of a shard's planned set; a report can name a target that is no longer discovered"
	}
	nx, _ := ex.Tuple.(*ssa.Next)
	if nx == nil {
		return "the key is not a range key"
	}
	rg, _ := nx.Iter.(*ssa.Range)
	if rg == nil {
		return "the key is not a range key"
	}
	owner, ok := loadOfField(rg.X, c.fScraping)
	if !ok {
		return "the key does not range over a shard's planned set"
	}
	if ok2, _ := fi.Implies(fa.Block(), engine.TrueAtom(fi.T(owner).S+"."+c.fChangeAble.Name())); !ok2 {
		return "the shard whose planned set supplies the key is not known to be in sync here: an out-of-sync shard keeps its raw report, which may name a target that is no longer discovered (nil entry dereferenced)"
	}
	// (b) the map is a parameter
	pi := paramIndex(fn, lk.X)
	if pi < 0 {
		return "the map is not a parameter whose construction can be followed"
	}
	obj, _ := fn.Object().(*types.Func)
	sites := c.p.CallsTo(obj)
	if len(sites) == 0 {
		return "no call site found"
	}
	for _, cs := range sites {
		caller := cs.Parent()
		cfi := c.p.Info(caller)
		args := cs.Common().Args
		view, ok := args[pi].(*ssa.Call)
		if !ok || view.Call.StaticCallee() == nil {
			return "at " + c.at(cs) + " the map is not the direct result of the function that builds the status view"
		}
		vf := view.Call.StaticCallee()
		var act ssa.Value
		for _, a := range view.Call.Args {
			if types.Identical(a.Type().Underlying(), activeT) {
				act = a
			}
		}
		if act == nil {
			return "the status view at " + c.at(view) + " is not built from the discovered set"
		}
		if ok, why := c.coversActive(vf, activeT); !ok {
			return engine.FuncName(vf) + ": " + why
		}
		// GC before, on the same discovered set
		okGC := false
		whyGC := "no garbage collection of vanished targets precedes the call at " + c.at(cs)
		for _, in := range allInstrs(caller) {
			g, ok := in.(*ssa.Call)
			if !ok || g.Call.StaticCallee() == nil || !gcs[g.Call.StaticCallee()] {
				continue
			}
			if !engine.InstrDominates(g, cs) {
				continue
			}
			same := false
			for _, a := range g.Call.Args {
				if a == act {
					same = true
				}
			}
			if !same {
				whyGC = "garbage collection at " + c.at(g) + " works on another discovered set than the status view"
				continue
			}
			if ok, why := c.vanishedRule(g.Call.StaticCallee(), activeT); !ok {
				whyGC = engine.FuncName(g.Call.StaticCallee()) + ": " + why
				continue
			}
			// the shard list: the same value as the one the dereferencing function gets, or its in-sync filter
			okList := false
			for _, ga := range g.Call.Args {
				for _, ca := range args {
					if ga == ca && strings.Contains(ga.Type().String(), "shardInfo") {
						okList = true
					}
					if fc, ok := ga.(*ssa.Call); ok && fc.Call.StaticCallee() != nil && c.filters[fc.Call.StaticCallee()] && len(fc.Call.Args) > 0 && fc.Call.Args[0] == ca {
						okList = true
					}
				}
			}
			if !okList {
				whyGC = "garbage collection at " + c.at(g) + " is not given the (in-sync part of the) shard list used at " + c.at(cs)
				continue
			}
			okGC = true
		}
		if !okGC {
			return whyGC
		}
		_ = cfi
	}
	return ""
}

// checkGCFirst is R1.9: within the cycle, garbage collection precedes every step that adds a copy to a planned set
// or marks one in transfer. A copy planned earlier in the same cycle carries the source's counters and would be taken
// by the "confirmed by a normal copy elsewhere" rule for a copy the destination reports.
func (c *coord) checkGCFirst(r *engine.Report) {
	gcs := c.gcFuncs()
	adders := map[*ssa.Function]bool{}
	for _, mw := range c.mapWrites {
		adders[mw.Parent()] = true
	}
	n := 0
	for _, fn := range c.funcs {
		var gcCalls []*ssa.Call
		for _, in := range allInstrs(fn) {
			if call, ok := in.(*ssa.Call); ok && call.Call.StaticCallee() != nil && gcs[call.Call.StaticCallee()] && !gcs[fn] {
				gcCalls = append(gcCalls, call)
			}
		}
		if len(gcCalls) == 0 {
			continue
		}
		n++
		var probs []string
		for _, in := range allInstrs(fn) {
			call, ok := in.(*ssa.Call)
			if !ok || call.Call.StaticCallee() == nil || gcs[call.Call.StaticCallee()] {
				continue
			}
			callee := call.Call.StaticCallee()
			if !engine.InPkg(callee, pkgCoord) || !c.reachesAny(callee, adders) {
				continue
			}
			// list builders create the planned sets from the reports; they are not planning steps
			if c.listBuilders[callee] || c.reachesAny(callee, c.listBuilders) {
				continue
			}
			dom := false
			for _, g := range gcCalls {
				if engine.InstrDominates(g, call) {
					dom = true
				}
			}
			if !dom {
				probs = append(probs, engine.FuncName(callee)+" (at "+c.at(call)+") adds planned copies before garbage collection has run: the collector would take a copy planned in this cycle for one the destination reports")
			}
		}
		r.Check(len(probs) == 0, "R1.9-gc-first", "cycle "+engine.FuncName(fn), "order of steps in "+engine.FuncName(fn), "garbage collection precedes every step that adds to a planned set", strings.Join(probs, "; "))
	}
	if n == 0 {
		r.Add("R1.9-gc-first", "cycle", pkgCoord, "a function that calls the garbage collector", "none found", engine.Undecided)
	}
}

// checkApplyJoined is R1.10: the step that posts the planned lists hands them to goroutines; the function that starts
// them returns only after all of them have finished (it waits on their group itself, on every path). A post that is
// still in flight when the next cycle plans from fresh reports lands after that cycle's own post and leaves a stale list.
func (c *coord) checkApplyJoined(r *engine.Report) {
	n := 0
	for _, fn := range c.funcs {
		if fn.Parent() != nil {
			continue
		}
		fi := c.p.Info(fn)
		var starts []ssa.Instruction
		for _, in := range allInstrs(fn) {
			var body *ssa.Function
			switch x := in.(type) {
			case *ssa.Go:
				body = closureFn(x.Call.Value)
				if body == nil {
					body = x.Call.StaticCallee()
				}
			case *ssa.Call:
				if callee := x.Call.StaticCallee(); callee != nil && callee.Name() == "Go" && callee.Pkg != nil && callee.Pkg.Pkg.Path() == "golang.org/x/sync/errgroup" && len(x.Call.Args) == 2 {
					body = closureFn(x.Call.Args[1])
				}
			}
			if body == nil || !c.reachesCallOf(body, c.mUpdateTarget, map[*ssa.Function]bool{}) {
				continue
			}
			starts = append(starts, in)
		}
		if len(starts) == 0 {
			continue
		}
		n++
		var probs []string
		for _, st := range starts {
			joined := fi.MustPass(st, nil, func(in ssa.Instruction) bool {
				call, ok := in.(*ssa.Call)
				if !ok || call.Call.StaticCallee() == nil {
					return false
				}
				callee := call.Call.StaticCallee()
				if callee.Name() != "Wait" || callee.Pkg == nil {
					return false
				}
				pp := callee.Pkg.Pkg.Path()
				return pp == "golang.org/x/sync/errgroup" || pp == "sync"
			})
			if !joined {
				probs = append(probs, "a path from the start of a posting goroutine ("+c.at(st)+") returns without waiting for it in this function")
			}
		}
		r.Check(len(probs) == 0, "R1.10-apply-joined", "posting in "+engine.FuncName(fn), engine.FuncName(fn), "every posting goroutine is waited for before the function returns", strings.Join(probs, "; "))
	}
	if n == 0 {
		// posting without goroutines is joined by construction
		r.Add("R1.10-apply-joined", "posting", pkgCoord, "posting goroutines are waited for", "no goroutine posts target lists (posting is sequential)", engine.Discharged)
	}
}

func closureFn(v ssa.Value) *ssa.Function {
	switch x := v.(type) {
	case *ssa.MakeClosure:
		if f, ok := x.Fn.(*ssa.Function); ok {
			return f
		}
	case *ssa.Function:
		return x
	}
	return nil
}

// reachesCallOf: fn (or a function of the coordinator package it calls, or one of its closures) calls m.
func (c *coord) reachesCallOf(fn *ssa.Function, m *types.Func, seen map[*ssa.Function]bool) bool {
	if fn == nil || seen[fn] || fn.Blocks == nil {
		return false
	}
	seen[fn] = true
	for _, in := range allInstrs(fn) {
		if ci, ok := in.(ssa.CallInstruction); ok {
			if callee := ci.Common().StaticCallee(); callee != nil {
				if callee.Object() == types.Object(m) {
					return true
				}
				if engine.InPkg(callee, pkgCoord) && c.reachesCallOf(callee, m, seen) {
					return true
				}
			}
			for _, a := range ci.Common().Args {
				if f := closureFn(a); f != nil && c.reachesCallOf(f, m, seen) {
					return true
				}
			}
		}
		if mc, ok := in.(*ssa.MakeClosure); ok {
			if f, ok := mc.Fn.(*ssa.Function); ok && c.reachesCallOf(f, m, seen) {
				return true
			}
		}
	}
	return false
}

// checkPickWeights (R1.8, crash freedom of the random pick): the chooser is built with its error discarded and is nil
// when every weight is zero, so the pick that follows would panic. Each weight must therefore be positive for every
// shard that is offered: it is the room "limit - load" of a dimension whose fit test "load + requested < limit" holds
// where the weight is computed (requested space is a series count, never negative).
func (c *coord) checkPickWeights(r *engine.Report) {
	p := c.p
	spaceT := p.Named(pkgCoord, "space")
	for _, fn := range c.funcs {
		fi := p.Info(fn)
		for _, in := range allInstrs(fn) {
			call, ok := in.(*ssa.Call)
			if !ok || call.Call.StaticCallee() == nil || call.Call.StaticCallee().Name() != "NewChooser" {
				continue
			}
			// the error result is consulted? then a nil chooser is handled
			errUsed := false
			for _, rr := range *call.Referrers() {
				if ex, ok := rr.(*ssa.Extract); ok && ex.Index == 1 && len(*ex.Referrers()) > 0 {
					errUsed = true
				}
			}
			if errUsed {
				r.Add("R1.8-crash-freedom", "pick weights in "+engine.FuncName(fn), "chooser built at "+c.at(call), "a failed construction is handled or cannot happen", "the construction error is consulted", engine.Discharged)
				continue
			}
			var probs []string
			n := 0
			for _, in2 := range allInstrs(fn) {
				st, ok := in2.(*ssa.Store)
				if !ok {
					continue
				}
				fa, ok := st.Addr.(*ssa.FieldAddr)
				if !ok || engine.FieldOf(fa).Name() != "Weight" || !strings.HasSuffix(fa.X.Type().String(), "weightedrand.Choice") {
					continue
				}
				n++
				if why := weightPositive(fi, spaceT, st.Val, st.Block(), 0); why != "" {
					probs = append(probs, "weight at "+c.at(st)+": "+why)
				}
			}
			if n == 0 {
				probs = append(probs, "no weight assignment found for the choices")
			}
			r.Check(len(probs) == 0, "R1.8-crash-freedom", "pick weights in "+engine.FuncName(fn), "chooser built at "+c.at(call)+" with its error discarded",
				"every offered shard has a positive weight: limit - load of a dimension whose fit test holds there (a chooser of zero weights is nil and the pick panics)", strings.Join(probs, "; "))
		}
	}
}

func weightPositive(fi *engine.FuncInfo, spaceT *types.Named, v ssa.Value, at *ssa.BasicBlock, depth int) string {
	if depth > 4 {
		return "too deep"
	}
	switch x := v.(type) {
	case *ssa.Convert:
		return weightPositive(fi, spaceT, x.X, at, depth+1)
	case *ssa.ChangeType:
		return weightPositive(fi, spaceT, x.X, at, depth+1)
	case *ssa.Phi:
		for i, e := range x.Edges {
			if why := weightPositive(fi, spaceT, e, x.Block().Preds[i], depth+1); why != "" {
				return why
			}
		}
		return ""
	case *ssa.BinOp:
		if x.Op != token.SUB {
			return "computed as " + short(fi.T(x).S) + ", not as limit - load"
		}
		load := fi.T(x.Y).S
		// some comparison of "load + requested" with the limit decides the fit; whatever its form (a < b, a >= b with
		// the branches swapped), what must hold here is load + requested < limit
		for _, in := range allInstrs(fi.Fn) {
			add, ok := in.(*ssa.BinOp)
			if !ok || add.Op != token.ADD {
				continue
			}
			for k, o := range []ssa.Value{add.X, add.Y} {
				if fi.T(o).S != load {
					continue
				}
				other := []ssa.Value{add.Y, add.X}[k]
				if !isFieldOfNamed(other, spaceT) {
					continue
				}
				need := engine.LtAtom(fi.T(add), fi.T(x.X))
				if ok, _ := fi.Implies(at, need); ok {
					return ""
				}
				// the fit test may sit behind another test ("limit not set, or it fits"): keep every branch condition
				if v := fi.ViewAll(need, nil); v != nil {
					if ok, _ := v.Implies(at, need); ok {
						return ""
					}
				}
			}
		}
		return short(fi.T(x).S) + " is not known to be positive here (no fit test 'load + requested < limit' of that dimension holds)"
	}
	return "computed as " + short(fi.T(v).S) + ", not as limit - load"
}

// isFieldOfNamed: v is a load of a field of a value of the named struct type.
func isFieldOfNamed(v ssa.Value, n *types.Named) bool {
	u, ok := v.(*ssa.UnOp)
	if !ok || n == nil {
		return false
	}
	fa, ok := u.X.(*ssa.FieldAddr)
	if !ok {
		return false
	}
	t := fa.X.Type()
	if pt, ok := t.Underlying().(*types.Pointer); ok {
		t = pt.Elem()
	}
	nn, ok := t.(*types.Named)
	return ok && nn.Obj() == n.Obj()
}

// checkSinglePost (R1.4): the sidecar replaces its whole target list on every request, so the list of a shard must
// reach it as one request: in the method that posts the list (Shard.UpdateTarget) the POST is not inside a loop,
// there is one POST, and what it sends is the request it was given.
func (c *coord) checkSinglePost(r *engine.Report) {
	up := c.p.SSAFunc(c.mUpdateTarget)
	if up == nil {
		return
	}
	fi := c.p.Info(up)
	fPost := c.p.Field(pkgShard, "Shard", "APIPost")
	var posts []*ssa.Call
	for _, in := range allInstrs(up) {
		if call, ok := in.(*ssa.Call); ok {
			if _, ok := loadOfField(call.Call.Value, fPost); ok {
				posts = append(posts, call)
			}
		}
	}
	var probs []string
	if len(posts) != 1 {
		probs = append(probs, fmt.Sprintf("%d POSTs in the method (one request must carry the whole list)", len(posts)))
	}
	for _, pc := range posts {
		if loopOf(fi, pc.Block()) != nil {
			probs = append(probs, "the POST at "+c.p.Rel(pc.Pos())+" is inside a loop: the list is sent in pieces and each piece replaces the one before")
		}
		sent := false
		if len(pc.Call.Args) >= 2 {
			v := unwrapIface(pc.Call.Args[1])
			if len(up.Params) >= 2 {
				if v == ssa.Value(up.Params[1]) {
					sent = true
				}
				// the parameter spilled to a cell whose address is sent (&request)
				if al, ok := v.(*ssa.Alloc); ok {
					n, okAll := 0, true
					for _, rr := range *al.Referrers() {
						if st, ok := rr.(*ssa.Store); ok && st.Addr == ssa.Value(al) {
							n++
							if st.Val != ssa.Value(up.Params[1]) {
								okAll = false
							}
						}
					}
					if n > 0 && okAll {
						sent = true
					}
				}
			}
		}
		if !sent {
			probs = append(probs, "the POST at "+c.p.Rel(pc.Pos())+" does not send the request the method was given")
		}
	}
	r.Check(len(probs) == 0, "R1.4-posted-list", "one request per list in "+engine.FuncName(up), engine.FuncName(up), "the whole list goes out in one POST (the sidecar replaces its list on every request)", strings.Join(probs, "; "))
}
