package rules

import (
	"encoding/json"
	"fmt"
	"go/ast"
	"go/token"
	"os"
	"os/exec"
	"path/filepath"
	"regexp"
	"sort"
	"strconv"
	"strings"
	"sync"

	"kvcheck/engine"
)

// Testing the checker both ways (DESIGN.md 4.4).
//
// Positive controls (every run): variants of the CURRENT tree are derived by rewriting one guard
// (a comparison in a function that carries an obligation of the property) to a constant, handed to
// go/packages as an in-memory overlay, and analysed with the same rule. A control "fires" when the
// variant is reported (an obligation that is discharged on the current tree is violated/undecided
// on the variant). A run in which no derived variant can be made to fire is undecided: a rule that
// cannot see a broken guard gives no verdict.
//
// Thorough tier: (a) every derived guard variant of the functions that carry obligations is analysed
// in a short-lived child process (adequacy: killed/survived lists, not a verdict about kvass);
// (b) the committed corpus of confirmed seeded changes for the property (/verif/seeded) is replayed
// through overlays; each must be reported.

// Control is a derived variant of the current tree that the rule must report.
type Control struct {
	Name   string
	File   string // absolute file name
	Src    []byte // replacement content
	Expect string // prefix of an obligation key that must be violated/undecided in the variant ("" = any)
	Skip   string
}

type guardSite struct {
	file       string
	start, end int // byte offsets of the comparison expression / statement
	line       int
	fn         string
	dist       int
	kind       string // "guard": comparison forced to a constant; "stmt": call statement deleted
}

var posRe = regexp.MustCompile(`([A-Za-z0-9_./-]+\.go):(\d+)`)

// guardSites lists comparison expressions inside the functions that carry obligations, nearest to
// an obligation's construct line first.
func guardSites(p *engine.Prog, rep *engine.Report) []guardSite {
	type loc struct {
		file string
		line int
	}
	var locs []loc
	for _, o := range rep.Obligations {
		if o.Status != engine.Discharged || o.Trivial {
			continue
		}
		for _, m := range posRe.FindAllStringSubmatch(o.Construct, -1) {
			ln, _ := strconv.Atoi(m[2])
			f := m[1]
			if !filepath.IsAbs(f) {
				f = filepath.Join(p.RepoDir, f)
			}
			locs = append(locs, loc{f, ln})
		}
	}
	var out []guardSite
	seen := map[string]bool{}
	for _, pk := range p.Pkgs {
		for i, file := range pk.Syntax {
			name := pk.CompiledGoFiles[i]
			var fl []loc
			for _, l := range locs {
				if l.file == name {
					fl = append(fl, l)
				}
			}
			if len(fl) == 0 {
				continue
			}
			for _, d := range file.Decls {
				fd, ok := d.(*ast.FuncDecl)
				if !ok || fd.Body == nil {
					continue
				}
				s, e := p.Fset.Position(fd.Pos()).Line, p.Fset.Position(fd.End()).Line
				hit := false
				for _, l := range fl {
					if l.line >= s && l.line <= e {
						hit = true
					}
				}
				if !hit {
					continue
				}
				ast.Inspect(fd.Body, func(n ast.Node) bool {
					be, ok := n.(*ast.BinaryExpr)
					if !ok {
						return true
					}
					switch be.Op {
					case token.EQL, token.NEQ, token.LSS, token.LEQ, token.GTR, token.GEQ:
					default:
						return true
					}
					ps, pe := p.Fset.Position(be.Pos()), p.Fset.Position(be.End())
					k := fmt.Sprintf("%s:%d:%d", name, ps.Offset, pe.Offset)
					if seen[k] {
						return true
					}
					seen[k] = true
					best := 1 << 30
					for _, l := range fl {
						dd := l.line - ps.Line
						if dd < 0 {
							dd = -dd
						}
						if dd < best {
							best = dd
						}
					}
					out = append(out, guardSite{file: name, start: ps.Offset, end: pe.Offset, line: ps.Line, fn: fd.Name.Name, dist: best, kind: "guard"})
					return true
				})
				// stores through selectors / index expressions (a dropped field rewrite)
				ast.Inspect(fd.Body, func(n ast.Node) bool {
					as, ok := n.(*ast.AssignStmt)
					if !ok || as.Tok != token.ASSIGN {
						return true
					}
					for _, l := range as.Lhs {
						switch l.(type) {
						case *ast.SelectorExpr, *ast.IndexExpr:
						default:
							return true
						}
					}
					ps, pe := p.Fset.Position(as.Pos()), p.Fset.Position(as.End())
					k := fmt.Sprintf("%s:%d:%d", name, ps.Offset, pe.Offset)
					if seen[k] {
						return true
					}
					seen[k] = true
					best := 1 << 30
					for _, l := range fl {
						dd := l.line - ps.Line
						if dd < 0 {
							dd = -dd
						}
						if dd < best {
							best = dd
						}
					}
					out = append(out, guardSite{file: name, start: ps.Offset, end: pe.Offset, line: ps.Line, fn: fd.Name.Name, dist: best, kind: "stmt"})
					return true
				})
				// call statements (a dropped Lock, Close, Sort, store helper ...)
				ast.Inspect(fd.Body, func(n ast.Node) bool {
					es, ok := n.(*ast.ExprStmt)
					if !ok {
						return true
					}
					if _, ok := es.X.(*ast.CallExpr); !ok {
						return true
					}
					ps, pe := p.Fset.Position(es.Pos()), p.Fset.Position(es.End())
					k := fmt.Sprintf("%s:%d:%d", name, ps.Offset, pe.Offset)
					if seen[k] {
						return true
					}
					seen[k] = true
					best := 1 << 30
					for _, l := range fl {
						dd := l.line - ps.Line
						if dd < 0 {
							dd = -dd
						}
						if dd < best {
							best = dd
						}
					}
					out = append(out, guardSite{file: name, start: ps.Offset, end: pe.Offset, line: ps.Line, fn: fd.Name.Name, dist: best, kind: "stmt"})
					return true
				})
			}
		}
	}
	sort.SliceStable(out, func(i, j int) bool {
		if out[i].dist != out[j].dist {
			return out[i].dist < out[j].dist
		}
		if out[i].file != out[j].file {
			return out[i].file < out[j].file
		}
		return out[i].start < out[j].start
	})
	return out
}

func (g guardSite) variant(overlay map[string][]byte, force string) ([]byte, error) {
	src, ok := overlay[g.file]
	if !ok {
		var err error
		src, err = os.ReadFile(g.file)
		if err != nil {
			return nil, err
		}
	}
	if g.end > len(src) {
		return nil, fmt.Errorf("offset out of range")
	}
	var b []byte
	b = append(b, src[:g.start]...)
	if g.kind == "stmt" {
		b = append(b, []byte("{}")...)
	} else {
		b = append(b, []byte("(("+string(src[g.start:g.end])+") "+force+")")...)
	}
	b = append(b, src[g.end:]...)
	return b, nil
}

func violatedKeys(rep *engine.Report) map[string]bool {
	m := map[string]bool{}
	for _, o := range rep.Obligations {
		if o.Status != engine.Discharged {
			m[o.Key] = true
		}
	}
	return m
}

// analyseVariant loads the tree with an overlay and returns the keys that are not discharged.
func analyseVariant(ctx *Ctx, rule *Rule, ov map[string][]byte) (map[string]bool, error) {
	whole := rule.Whole
	vp, err := engine.Load(engine.LoadOptions{RepoDir: ctx.Repo, Overlay: ov, Whole: whole})
	if err != nil {
		return nil, err
	}
	vr := engine.NewReport(rule.ID, ctx.Tier)
	func() {
		defer func() {
			if r := recover(); r != nil {
				vr.Add("panic", "panic", "analyzer panic on variant", "", fmt.Sprint(r), engine.Undecided)
			}
		}()
		rule.Run(vp, vr)
	}()
	vr.Finalize(vp)
	keys := violatedKeys(vr)
	return keys, nil
}

func runControls(ctx *Ctx, rule *Rule, p *engine.Prog, rep *engine.Report) {
	base := violatedKeys(rep)
	// rule-specific controls first
	if rule.Controls != nil {
		for _, c := range rule.Controls(p) {
			res := engine.ControlResult{Name: c.Name, Expect: c.Expect}
			if c.Skip != "" {
				res.Skipped = c.Skip
				rep.Controls = append(rep.Controls, res)
				continue
			}
			ov := map[string][]byte{}
			for k, v := range ctx.Overlay {
				ov[k] = v
			}
			ov[c.File] = c.Src
			keys, err := analyseVariant(ctx, rule, ov)
			if err != nil {
				res.Skipped = "variant does not type-check: " + err.Error()
				rep.Controls = append(rep.Controls, res)
				continue
			}
			for k := range keys {
				if !base[k] {
					res.Reported = append(res.Reported, k)
					if strings.HasPrefix(k, c.Expect) {
						res.Fired = true
					}
				}
			}
			sort.Strings(res.Reported)
			rep.Controls = append(rep.Controls, res)
		}
	}
	// generic guard controls
	all := guardSites(p, rep)
	var gs, ss []guardSite
	for _, g := range all {
		if g.kind == "stmt" {
			ss = append(ss, g)
		} else {
			gs = append(gs, g)
		}
	}
	var sites []guardSite
	for i := 0; i < len(gs) || i < len(ss); i++ {
		if i < len(gs) {
			sites = append(sites, gs[i])
		}
		if i < len(ss) {
			sites = append(sites, ss[i])
		}
	}
	rep.Analysed["guard_sites"] = len(gs)
	rep.Analysed["statement_sites"] = len(ss)
	want, budget := 2, 8
	fired, tried := 0, 0
	for _, c := range rep.Controls {
		if c.Fired {
			fired++
		}
	}
	for _, g := range sites {
		if fired >= want || tried >= budget {
			break
		}
		forces := []string{"|| true", "&& false"}
		if g.kind == "stmt" {
			forces = []string{"deleted"}
		}
		for _, force := range forces {
			if fired >= want || tried >= budget {
				break
			}
			src, err := g.variant(ctx.Overlay, force)
			if err != nil {
				continue
			}
			tried++
			rel, _ := filepath.Rel(p.RepoDir, g.file)
			res := engine.ControlResult{Name: fmt.Sprintf("guard at %s:%d in %s forced %s", rel, g.line, g.fn, force), Expect: rule.ID + "/"}
			if g.kind == "stmt" {
				res.Name = fmt.Sprintf("statement at %s:%d in %s deleted", rel, g.line, g.fn)
			}
			ov := map[string][]byte{}
			for k, v := range ctx.Overlay {
				ov[k] = v
			}
			ov[g.file] = src
			keys, err := analyseVariant(ctx, rule, ov)
			if err != nil {
				res.Skipped = "variant does not type-check"
				tried--
				continue
			}
			for k := range keys {
				if !base[k] {
					res.Reported = append(res.Reported, k)
					res.Fired = true
				}
			}
			sort.Strings(res.Reported)
			if res.Fired {
				fired++
				rep.Controls = append(rep.Controls, res)
				break
			}
			res.Skipped = "survived: the rules of this property do not depend on this guard (not a verdict)"
			rep.Controls = append(rep.Controls, res)
		}
	}
	if fired == 0 && len(sites) > 0 {
		rep.Controls = append(rep.Controls, engine.ControlResult{Name: "guard controls", Expect: rule.ID + "/", Fired: false,
			Reported: []string{fmt.Sprintf("none of %d derived guard variants was reported", tried)}})
	}
	if ctx.Tier == "thorough" {
		rep.Selftest = thoroughSelftest(ctx, rule, p, rep, sites, base)
	}
}

// seededFor lists the committed seeded changes recorded for a property.
var seededProp = map[string]string{"D1": "C05", "D2": "C04", "D4": "C07", "D5": "C07", "D6": "C09", "D7": "C13", "D10": "C17", "D11": "C20"}

type childResult struct {
	name   string
	keys   []string
	err    string
	killed bool
}

func runChild(ctx *Ctx, prop string, ov map[string][]byte, scratch string, idx int) childResult {
	var args []string
	var pairs []string
	for f, b := range ov {
		tmp := filepath.Join(scratch, fmt.Sprintf("v%d_%s", idx, filepath.Base(f)))
		if err := os.WriteFile(tmp, b, 0644); err != nil {
			return childResult{err: err.Error()}
		}
		pairs = append(pairs, f+"="+tmp)
	}
	self, _ := os.Executable()
	args = append(args, "-prop", prop, "-tier", "quick", "-repo", ctx.Repo, "-verif", ctx.Verif, "-nocontrols", "-keys")
	if len(pairs) > 0 {
		args = append(args, "-overlay", strings.Join(pairs, ","))
	}
	out, err := exec.Command(self, args...).CombinedOutput()
	res := childResult{}
	for _, l := range strings.Split(string(out), "\n") {
		if strings.HasPrefix(l, "KEY ") {
			parts := strings.SplitN(l, " ", 3)
			if len(parts) == 3 {
				res.keys = append(res.keys, parts[2])
			}
		}
		if strings.HasPrefix(l, "VIOLATION") {
			res.keys = append(res.keys, l)
		}
	}
	if err != nil && len(res.keys) == 0 {
		res.err = strings.TrimSpace(string(out))
	}
	return res
}

func thoroughSelftest(ctx *Ctx, rule *Rule, p *engine.Prog, rep *engine.Report, sites []guardSite, base map[string]bool) map[string]interface{} {
	scratch, err := os.MkdirTemp("", "kvcheck-variants-")
	if err != nil {
		return map[string]interface{}{"error": err.Error()}
	}
	defer os.RemoveAll(scratch)
	type job struct {
		name string
		ov   map[string][]byte
		kind string
	}
	var jobs []job
	max := 80
	for i, g := range sites {
		if i >= max {
			break
		}
		forces := []string{"|| true", "&& false"}
		if g.kind == "stmt" {
			forces = []string{"statement deleted"}
		}
		for _, force := range forces {
			src, err := g.variant(ctx.Overlay, force)
			if err != nil {
				continue
			}
			rel, _ := filepath.Rel(p.RepoDir, g.file)
			jobs = append(jobs, job{fmt.Sprintf("%s:%d (%s) %s", rel, g.line, g.fn, force), map[string][]byte{g.file: src}, "guard"})
		}
	}
	// seeded corpus
	seedDir := filepath.Join(ctx.Verif, "seeded")
	ents, _ := os.ReadDir(seedDir)
	var seedNotes []string
	for _, e := range ents {
		id := e.Name()
		prop := seededProp[id]
		if prop == "" && len(id) >= 3 && strings.HasPrefix(id, "C") {
			prop = id[:3]
		}
		// meta.json may record which properties' checks report the change (tools: kvcheck matrix)
		expected := []string{prop}
		if mb, err := os.ReadFile(filepath.Join(seedDir, id, "meta.json")); err == nil {
			var meta struct {
				ReportedBy []string `json:"reported_by"`
			}
			if json.Unmarshal(mb, &meta) == nil && meta.ReportedBy != nil {
				// a change written against this property is this property's to report; only when its own
				// property does not report it (C06 is not claimed; some changes break another property's
				// condition instead) the recorded reporters are held to it
				own := false
				for _, rb := range meta.ReportedBy {
					if rb == prop {
						own = true
					}
				}
				if !own {
					expected = meta.ReportedBy
				}
			}
		}
		mine := false
		for _, e2 := range expected {
			if e2 == rule.ID {
				mine = true
			}
		}
		if !mine {
			continue
		}
		patch := filepath.Join(seedDir, id, "patch.diff")
		if _, err := os.Stat(patch); err != nil {
			continue
		}
		ov, err := overlayFromPatch(ctx.Repo, patch, scratch, id)
		if err != nil {
			seedNotes = append(seedNotes, id+": patch does not apply to the current tree ("+err.Error()+")")
			continue
		}
		jobs = append(jobs, job{"seeded/" + id, ov, "seeded"})
	}
	results := make([]childResult, len(jobs))
	sem := make(chan struct{}, 8)
	var wg sync.WaitGroup
	for i := range jobs {
		wg.Add(1)
		sem <- struct{}{}
		go func(i int) {
			defer wg.Done()
			defer func() { <-sem }()
			results[i] = runChild(ctx, rule.ID, jobs[i].ov, scratch, i)
			results[i].name = jobs[i].name
		}(i)
	}
	wg.Wait()
	var killed, survived, broken, seedKilled, seedMissed []string
	for i, res := range results {
		newKeys := 0
		for _, k := range res.keys {
			if !base[k] {
				newKeys++
			}
		}
		switch {
		case res.err != "" && jobs[i].kind == "guard":
			broken = append(broken, res.name)
		case jobs[i].kind == "guard" && newKeys > 0:
			killed = append(killed, res.name)
		case jobs[i].kind == "guard":
			survived = append(survived, res.name)
		case newKeys > 0:
			seedKilled = append(seedKilled, fmt.Sprintf("%s (%d obligations)", res.name, newKeys))
		default:
			seedMissed = append(seedMissed, res.name)
		}
	}
	st := map[string]interface{}{
		"guard_variants":           len(killed) + len(survived),
		"guard_variants_killed":    len(killed),
		"guard_variants_survived":  survived,
		"guard_variants_discarded": len(broken),
		"seeded_changes_reported":  seedKilled,
		"seeded_changes_missed":    seedMissed,
		"seeded_notes":             seedNotes,
		"note":                     "survivors are guards the rules of this property do not depend on (or a weakness of the checker); they are not a verdict about kvass",
	}
	// a seeded change of this property that is no longer reported is a regression of the checker
	for _, m := range seedMissed {
		rep.Controls = append(rep.Controls, engine.ControlResult{Name: "corpus " + m, Expect: rule.ID + "/", Fired: false, Reported: []string{"the confirmed seeded change is not reported any more"}})
	}
	b, _ := json.Marshal(st)
	_ = b
	return st
}

// overlayFromPatch applies a unified diff to copies of the files it touches and returns them as an overlay.
// OverlayFromPatch applies a unified diff to private copies of the files it names and returns them as an overlay
// (the repository itself is not touched).
func OverlayFromPatch(repo, patch string) (map[string][]byte, error) {
	if abs, err := filepath.Abs(patch); err == nil {
		patch = abs
	}
	scratch, err := os.MkdirTemp("", "kvcheck-patch-")
	if err != nil {
		return nil, err
	}
	defer os.RemoveAll(scratch)
	return overlayFromPatch(repo, patch, scratch, "p")
}

func overlayFromPatch(repo, patch, scratch, id string) (map[string][]byte, error) {
	b, err := os.ReadFile(patch)
	if err != nil {
		return nil, err
	}
	dir := filepath.Join(scratch, "seed_"+id)
	var files []string
	seenFile := map[string]bool{}
	for _, l := range strings.Split(string(b), "\n") {
		for _, pfx := range []string{"+++ b/", "--- a/"} {
			if strings.HasPrefix(l, pfx) {
				f := strings.TrimSpace(strings.TrimPrefix(l, pfx))
				if !seenFile[f] {
					seenFile[f] = true
					files = append(files, f)
				}
			}
		}
	}
	for _, f := range files {
		src, err := os.ReadFile(filepath.Join(repo, f))
		if err != nil {
			// new file
			continue
		}
		dst := filepath.Join(dir, f)
		if err := os.MkdirAll(filepath.Dir(dst), 0755); err != nil {
			return nil, err
		}
		if err := os.WriteFile(dst, src, 0644); err != nil {
			return nil, err
		}
	}
	if err := os.MkdirAll(dir, 0755); err != nil {
		return nil, err
	}
	cmd := exec.Command("git", "apply", "--unsafe-paths", patch)
	cmd.Dir = dir
	cmd.Env = append(os.Environ(), "GIT_CEILING_DIRECTORIES="+scratch, "GIT_DIR=/nonexistent")
	if out, err := cmd.CombinedOutput(); err != nil {
		return nil, fmt.Errorf("%v: %s", err, strings.TrimSpace(string(out)))
	}
	ov := map[string][]byte{}
	for _, f := range files {
		nb, err := os.ReadFile(filepath.Join(dir, f))
		if err != nil {
			if os.IsNotExist(err) && strings.HasSuffix(f, ".go") {
				// the patch deletes the file: an overlay cannot remove it, an empty file of the same package is the same
				if src, err2 := os.ReadFile(filepath.Join(repo, f)); err2 == nil {
					pkgLine := "package main"
					for _, l := range strings.Split(string(src), "\n") {
						if strings.HasPrefix(l, "package ") {
							pkgLine = strings.TrimSpace(l)
							break
						}
					}
					ov[filepath.Join(repo, f)] = []byte(pkgLine + "\n")
					continue
				}
			}
			return nil, err
		}
		ov[filepath.Join(repo, f)] = nb
	}
	return ov, nil
}

// astControl derives a control by rewriting the first AST node accepted by match in the package.
func astControl(p *engine.Prog, pkg, name, expect string, match func(n ast.Node, src []byte, pos func(token.Pos) int) (int, int, string, bool)) Control {
	pk := p.ByPath[engine.ModPath+"/"+pkg]
	if pk == nil {
		return Control{Name: name, Expect: expect, Skip: "package " + pkg + " not loaded"}
	}
	for i, file := range pk.Syntax {
		fname := pk.CompiledGoFiles[i]
		src, err := os.ReadFile(fname)
		if err != nil {
			continue
		}
		off := func(ps token.Pos) int { return p.Fset.Position(ps).Offset }
		var out *Control
		ast.Inspect(file, func(n ast.Node) bool {
			if out != nil || n == nil {
				return false
			}
			if s0, e0, repl, ok := match(n, src, off); ok {
				var b []byte
				b = append(b, src[:s0]...)
				b = append(b, []byte(repl)...)
				b = append(b, src[e0:]...)
				out = &Control{Name: name, File: fname, Src: b, Expect: expect}
				return false
			}
			return true
		})
		if out != nil {
			return *out
		}
	}
	return Control{Name: name, Expect: expect, Skip: "no matching construct in " + pkg + " (the control cannot be derived from the current tree)"}
}

// Matrix replays every committed seeded change against every registered property (child processes,
// overlays only) and prints, as JSON, which properties report it. Used to maintain "reported_by" in
// seeded/<id>/meta.json; not part of any verdict.
func Matrix(args []string) int {
	repo, verif := "/repo", "/verif"
	if len(args) > 0 {
		repo = args[0]
	}
	if len(args) > 1 {
		verif = args[1]
	}
	ctx := &Ctx{Repo: repo, Verif: verif, Tier: "quick"}
	scratch, err := os.MkdirTemp("", "kvcheck-matrix-")
	if err != nil {
		fmt.Println(err)
		return 2
	}
	defer os.RemoveAll(scratch)
	var props []string
	for id := range Registry {
		props = append(props, id)
	}
	sort.Strings(props)
	// baseline keys per property
	base := map[string]map[string]bool{}
	for _, pr := range props {
		res := runChild(ctx, pr, nil, scratch, 0)
		base[pr] = map[string]bool{}
		for _, k := range res.keys {
			base[pr][k] = true
		}
	}
	ents, _ := os.ReadDir(filepath.Join(verif, "seeded"))
	type job struct {
		id, prop string
		ov       map[string][]byte
	}
	var jobs []job
	out := map[string]map[string][]string{}
	only := map[string]bool{}
	if len(args) > 2 {
		for _, a := range args[2:] {
			only[a] = true
		}
	}
	for _, e := range ents {
		if len(only) > 0 && !only[e.Name()] {
			continue
		}
		patch := filepath.Join(verif, "seeded", e.Name(), "patch.diff")
		if _, err := os.Stat(patch); err != nil {
			continue
		}
		ov, err := overlayFromPatch(repo, patch, scratch, e.Name())
		if err != nil {
			out[e.Name()] = map[string][]string{"_error": {err.Error()}}
			continue
		}
		out[e.Name()] = map[string][]string{}
		for _, pr := range props {
			jobs = append(jobs, job{e.Name(), pr, ov})
		}
	}
	var mu sync.Mutex
	sem := make(chan struct{}, 10)
	var wg sync.WaitGroup
	for i := range jobs {
		wg.Add(1)
		sem <- struct{}{}
		go func(i int) {
			defer wg.Done()
			defer func() { <-sem }()
			j := jobs[i]
			res := runChild(ctx, j.prop, j.ov, scratch, i+1)
			var rulesHit []string
			seen := map[string]bool{}
			for _, k := range res.keys {
				if base[j.prop][k] {
					continue
				}
				ru := k
				if c := strings.Index(k, ":"); c > 0 {
					ru = k[:c]
				}
				if !seen[ru] {
					seen[ru] = true
					rulesHit = append(rulesHit, ru)
				}
			}
			if len(rulesHit) > 0 {
				mu.Lock()
				out[j.id][j.prop] = rulesHit
				mu.Unlock()
			}
		}(i)
	}
	wg.Wait()
	b, _ := json.MarshalIndent(out, "", " ")
	fmt.Println(string(b))
	return 0
}
