package rules

import (
	"fmt"
	"os"
	"strings"

	"kvcheck/engine"
)

// Control is a derived variant of the current tree that the rule must report.
type Control struct {
	Name   string
	File   string // absolute file name
	Src    []byte // replacement content
	Expect string // prefix of an obligation key that must be violated/undecided in the variant
	Skip   string // non-empty: control not applicable (reason)
}

func runControls(ctx *Ctx, rule *Rule, p *engine.Prog, rep *engine.Report) {
	base := map[string]bool{}
	for _, o := range rep.Obligations {
		if o.Status != engine.Discharged {
			base[o.Key] = true
		}
	}
	for _, c := range rule.Controls(p) {
		res := engine.ControlResult{Name: c.Name, Expect: c.Expect}
		if c.Skip != "" {
			res.Skipped = c.Skip
			rep.Controls = append(rep.Controls, res)
			continue
		}
		already := false
		for k := range base {
			if strings.HasPrefix(k, c.Expect) {
				already = true
			}
		}
		if already {
			res.Skipped = "instance already violated on the current tree"
			rep.Controls = append(rep.Controls, res)
			continue
		}
		ov := map[string][]byte{}
		for k, v := range ctx.Overlay {
			ov[k] = v
		}
		ov[c.File] = c.Src
		vp, err := engine.Load(engine.LoadOptions{RepoDir: ctx.Repo, Overlay: ov, Whole: rule.Whole})
		if err != nil {
			res.Reported = []string{"variant does not load: " + err.Error()}
			rep.Controls = append(rep.Controls, res)
			continue
		}
		vr := engine.NewReport(rep.Property, ctx.Tier)
		func() {
			defer func() {
				if r := recover(); r != nil {
					vr.Add("panic", "panic", "analyzer panic on variant", "", fmt.Sprint(r), engine.Undecided)
				}
			}()
			rule.Run(vp, vr)
		}()
		for _, o := range vr.Obligations {
			if o.Status == engine.Discharged || base[o.Key] {
				continue
			}
			res.Reported = append(res.Reported, o.Key)
			if strings.HasPrefix(o.Key, c.Expect) {
				res.Fired = true
			}
		}
		rep.Controls = append(rep.Controls, res)
	}
}

// readFile reads a repository file through the overlay-free file system.
func readFile(name string) []byte {
	b, err := os.ReadFile(name)
	if err != nil {
		return nil
	}
	return b
}
