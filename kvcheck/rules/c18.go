package rules

import (
	"fmt"
	"go/token"
	"go/types"
	"strings"

	"golang.org/x/tools/go/ssa"

	"kvcheck/engine"
)

func init() {
	register(&Rule{ID: "C18", Run: runC18, Controls: controlsC18,
		Explanation: "Structural necessary conditions of 'Kubernetes shards are ordered by ordinal; scaling deletes only removed volumes', decided on pkg/shard/kubernetes: " +
			"R18.1 ordinal order: shards are appended in a loop over 0..n-1, each taken from a name→pod table (filled from every listed pod under its own name) by the key '<set>-<index>' rendered from the StatefulSet's name and the loop index; id, address and readiness come from that entry; " +
			"R18.2 deletion range: every claim Delete sits in a loop whose index starts at old−1 (old = the replica count read before it is overwritten), steps by −1 and continues while index ≥ the requested count; the claim name is '<template>-<set>-<index>' from those three sources; " +
			"R18.3 guards: Delete only under deletePVC ∧ the Update succeeded; Update only when the replica count of the StatefulSet just read from the API server (Get) is set and differs from the request, and no successful return precedes that read; the value stored is the request; " +
			"R18.4 rolling update: a manager is appended only under Status.Replicas == Status.UpdatedReplicas; R18.5 the StatefulSet a manager keeps is an object of its own iteration (not the address of a variable shared by all iterations under the language version of go.mod). " +
			"R18.4 also: every list of managers Replicas returns is built in that call from the listing of that call. " +
			"R18.1 also: what is appended to the shard list is the shard built from this listing, never one kept from an earlier call. " +
			"Not decided: the behaviour of the Kubernetes API server / fake clientset.",
		Assumptions: []string{"go/types and go/ssa are correct", "StatefulSet pod naming <set>-<ordinal> and claim naming <template>-<set>-<ordinal> (Kubernetes convention)"}})
}

func sprintfArgs(call *ssa.Call) (string, []ssa.Value) {
	if !engine.CalleeIs(call.Common(), "fmt", "", "Sprintf") {
		return "", nil
	}
	f, _ := constString(call.Call.Args[0])
	sl, ok := call.Call.Args[1].(*ssa.Slice)
	if !ok {
		return f, nil
	}
	al, ok := sl.X.(*ssa.Alloc)
	if !ok {
		return f, nil
	}
	vals := map[int64]ssa.Value{}
	n := int64(0)
	for _, rr := range *al.Referrers() {
		ia, ok := rr.(*ssa.IndexAddr)
		if !ok {
			continue
		}
		ic, ok := ia.Index.(*ssa.Const)
		if !ok {
			continue
		}
		idx := ic.Int64()
		for _, r2 := range *ia.Referrers() {
			if st, ok := r2.(*ssa.Store); ok {
				vals[idx] = unwrapIface(st.Val)
				if idx+1 > n {
					n = idx + 1
				}
			}
		}
	}
	out := make([]ssa.Value, n)
	for i := int64(0); i < n; i++ {
		out[i] = vals[i]
	}
	return f, out
}

func runC18(p *engine.Prog, r *engine.Report) {
	newShard := p.FuncObj(pkgShard, "NewShard")
	if len(p.Problems) > 0 {
		return
	}
	r.Min("R18.1-ordinal-order", 1)
	r.Min("R18.2-deletion-range", 1)
	r.Min("R18.3-guards", 2)
	r.Min("R18.4-rolling-update", 1)
	r.Min("R18.5-own-object", 1)
	var k8sFuncs []*ssa.Function
	for _, fn := range p.Funcs {
		if engine.InPkg(fn, pkgK8s) {
			k8sFuncs = append(k8sFuncs, fn)
		}
	}
	for _, fn := range k8sFuncs {
		fi := p.Info(fn)
		// ---- R18.1
		for _, ci := range callsIn(fn, newShard) {
			call := ci.(*ssa.Call)
			var probs []string
			lp := loopOf(fi, call.Block())
			if lp == nil {
				probs = append(probs, "shards are not built in a loop")
			}
			// the pod entry: a Lookup in a local map keyed by Sprintf("%s-%d", set name, index)
			var lk *ssa.Lookup
			for _, in := range allInstrs(fn) {
				if l, ok := in.(*ssa.Lookup); ok && lp != nil && lp.blocks[l.Block().Index] {
					if _, ok := l.X.(*ssa.MakeMap); ok {
						lk = l
					}
				}
			}
			if lk == nil {
				probs = append(probs, "the pod of a shard is not looked up by name in a name→pod table (list order would decide the shard order)")
			} else {
				kc, ok := lk.Index.(*ssa.Call)
				f, args := "", []ssa.Value(nil)
				if ok {
					f, args = sprintfArgs(kc)
				}
				if f != "%s-%d" || len(args) != 2 {
					probs = append(probs, "the lookup key is "+short(fi.T(lk.Index).S)+", not '<set>-<index>'")
				} else {
					if !strings.HasSuffix(fi.T(args[0]).S, ".ObjectMeta.Name") || !strings.Contains(fi.T(args[0]).S, ".sts") {
						probs = append(probs, "the name part of the key is "+short(fi.T(args[0]).S)+", not the StatefulSet's name")
					}
					it := fi.T(args[1])
					okIdx := false
					if lp != nil {
						for _, in := range lp.header.Instrs {
							if ph, ok := in.(*ssa.Phi); ok && strings.Contains(ph.Comment, "rangeindex") && it.S == fi.T(ph).S+"+1" {
								// range index starts at -1 and the body uses phi+1: 0..n-1
								okIdx = true
							}
							if ph, ok := in.(*ssa.Phi); ok && it.S == fi.T(ph).S && countedFromZero(fi, ph, "Items") {
								// for i := 0; i < len(items); i++
								okIdx = true
							}
						}
					}
					if !okIdx {
						probs = append(probs, "the ordinal part of the key is "+it.S+", not the loop index 0..n-1")
					}
				}
				// the table is filled with every listed pod under its own name
				mm := lk.X.(*ssa.MakeMap)
				filled := false
				for _, rr := range *mm.Referrers() {
					if mu, ok := rr.(*ssa.MapUpdate); ok && mu.Map == ssa.Value(mm) {
						if strings.Contains(fi.T(mu.Key).S, "ObjectMeta.Name") {
							filled = true
						}
					}
				}
				if !filled {
					probs = append(probs, "the table is not filled from the listed pods' names")
				}
				// id, url, readiness from that entry
				entVal := ssa.Value(lk)
				if lk.CommaOk {
					// v, ok := table[key]; a missing entry may be replaced by an empty pod (what the plain lookup yields)
					var e0, e1 *ssa.Extract
					for _, rr := range *lk.Referrers() {
						if ex, ok := rr.(*ssa.Extract); ok {
							if ex.Index == 0 {
								e0 = ex
							} else {
								e1 = ex
							}
						}
					}
					if e0 != nil {
						entVal = e0
						for _, rr := range *e0.Referrers() {
							ph, ok := rr.(*ssa.Phi)
							if !ok || len(ph.Edges) != 2 || e1 == nil {
								continue
							}
							for _, e := range ph.Edges {
								if al, ok := e.(*ssa.Alloc); ok && len(*al.Referrers()) == 1 {
									// allocated only where the ok flag is false
									ab := al.Block()
									if len(ab.Preds) == 1 {
										if iff, ok := ab.Preds[0].Instrs[len(ab.Preds[0].Instrs)-1].(*ssa.If); ok && iff.Cond == ssa.Value(e1) && ab.Preds[0].Succs[1] == ab && ab.Preds[0].Succs[0] != ab {
											entVal = ph
										}
									}
								}
							}
						}
					}
				}
				ent := fi.T(entVal).S
				argT := []string{fi.T(call.Call.Args[0]).S, fi.T(call.Call.Args[1]).S, fi.T(call.Call.Args[2]).S}
				entLocal := ""
				// the entry is usually copied to a local (p := ps[...])
				for _, rr := range *lk.Referrers() {
					if st, ok := rr.(*ssa.Store); ok {
						if al, ok := st.Addr.(*ssa.Alloc); ok {
							entLocal = "local:" + al.Name()
						}
					}
				}
				from := func(s string) bool {
					return strings.Contains(s, ent) || (entLocal != "" && strings.Contains(s, entLocal))
				}
				if !from(argT[0]) || !strings.Contains(argT[0], "Name") {
					probs = append(probs, "the shard id is "+short(argT[0])+", not the looked-up pod's name")
				}
				if !from(argT[1]) && !strings.Contains(argT[1], "Sprintf") {
					probs = append(probs, "the shard URL is "+short(argT[1]))
				}
				if uc, ok := call.Call.Args[1].(*ssa.Call); ok {
					_, uargs := sprintfArgs(uc)
					okIP := false
					for _, a := range uargs {
						if from(fi.T(a).S) && strings.Contains(fi.T(a).S, "PodIP") {
							okIP = true
						}
					}
					if !okIP {
						probs = append(probs, "the shard address is not the looked-up pod's IP")
					}
				}
				if !from(argT[2]) || !strings.Contains(argT[2], "PodIP") {
					probs = append(probs, "readiness is "+short(argT[2])+", not derived from the looked-up pod")
				}
			}
			// what is appended to the list is that new shard (through phis: one on every path), never a shard kept from an
			// earlier listing (its address was fixed when it was built)
			for _, in := range allInstrs(fn) {
				ap, ok := in.(*ssa.Call)
				if !ok {
					continue
				}
				if bi, ok := ap.Call.Value.(*ssa.Builtin); !ok || bi.Name() != "append" || !strings.HasSuffix(ap.Type().String(), "shard.Shard") {
					continue
				}
				for _, e := range varargElems(ap.Call.Args[1]) {
					var bad ssa.Value
					var walk func(v ssa.Value, seen map[ssa.Value]bool)
					walk = func(v ssa.Value, seen map[ssa.Value]bool) {
						if seen[v] || bad != nil {
							return
						}
						seen[v] = true
						switch x := v.(type) {
						case *ssa.Phi:
							for _, ed := range x.Edges {
								walk(ed, seen)
							}
						case *ssa.Call:
							if x.Call.StaticCallee() == nil || x.Call.StaticCallee().Object() != types.Object(newShard) {
								bad = v
							}
						default:
							bad = v
						}
					}
					walk(e, map[ssa.Value]bool{})
					if bad != nil {
						probs = append(probs, "the list receives "+short(fi.T(bad).S)+" at "+p.Rel(ap.Pos())+", not a shard built from this listing")
					}
				}
			}
			r.Check(len(probs) == 0, "R18.1-ordinal-order", "shard list in "+engine.FuncName(fn), "NewShard at "+p.Rel(call.Pos()), "shard i = pod named <set>-i from the name table; id, address, readiness from that pod", strings.Join(probs, "; "))
		}

		// ---- R18.2 / R18.3
		var update, del *ssa.Call
		for _, in := range allInstrs(fn) {
			if call, ok := in.(*ssa.Call); ok && call.Call.IsInvoke() {
				recvT := call.Call.Value.Type().String()
				if call.Call.Method.Name() == "Update" && strings.Contains(recvT, "StatefulSetInterface") {
					update = call
				}
				if call.Call.Method.Name() == "Delete" && strings.Contains(recvT, "PersistentVolumeClaimInterface") {
					del = call
				}
			}
		}
		if update == nil && del == nil {
			continue
		}
		// the request cell and the replica store
		var repStore *ssa.Store
		for _, in := range allInstrs(fn) {
			if st, ok := in.(*ssa.Store); ok {
				if fa, ok := st.Addr.(*ssa.FieldAddr); ok && engine.FieldOf(fa).Name() == "Replicas" && strings.HasSuffix(fa.X.Type().String(), "StatefulSetSpec") {
					repStore = st
				}
			}
		}
		var reqCell *ssa.Alloc
		var probs3 []string
		if repStore == nil {
			probs3 = append(probs3, "Spec.Replicas is never set")
		} else if al, ok := repStore.Val.(*ssa.Alloc); ok {
			reqCell = al
			if sv := singleStoreOf(al); sv == nil || paramIndex(fn, sv) < 0 {
				probs3 = append(probs3, "the value stored into Spec.Replicas is not the requested count")
			}
		} else {
			probs3 = append(probs3, "Spec.Replicas is set to "+short(fi.T(repStore.Val).S)+", not to the requested count")
		}
		if update != nil {
			var gl []string
			for _, g := range fi.Guards(update.Block()) {
				gl = append(gl, g)
			}
			hasNonNil, hasDiff := false, false
			for _, g := range gl {
				if strings.HasPrefix(g, "¬eq(") && strings.Contains(g, ".Spec.Replicas") && strings.Contains(g, "nil") {
					hasNonNil = true
				}
				if strings.HasPrefix(g, "¬eq0(") && strings.Contains(g, ".Spec.Replicas") && reqCell != nil && strings.Contains(g, "mem:"+reqCell.Name()) {
					hasDiff = true
				}
			}
			if !hasNonNil {
				probs3 = append(probs3, "Update is reachable with Spec.Replicas == nil")
			}
			if !hasDiff {
				probs3 = append(probs3, "Update is reachable when the replica count already equals the request (it must do nothing then)")
			}
			if repStore != nil && !engine.InstrDominates(repStore, update) {
				probs3 = append(probs3, "the new replica count is not stored before Update")
			}
			if repStore != nil {
				// the object updated is the one whose replicas were set
				base := repStore.Addr.(*ssa.FieldAddr).X
				if fa, ok := base.(*ssa.FieldAddr); ok && len(update.Call.Args) >= 2 && fi.T(fa.X).S != fi.T(update.Call.Args[1]).S {
					probs3 = append(probs3, "the object passed to Update is not the one whose replica count was changed")
				}
			}
			// "unchanged" and "changed" are decided on the StatefulSet as it is now, not on the copy taken when the replicas were listed
			var get *ssa.Call
			for _, in := range allInstrs(fn) {
				if call, ok := in.(*ssa.Call); ok && call.Call.IsInvoke() && call.Call.Method.Name() == "Get" && strings.Contains(call.Call.Value.Type().String(), "StatefulSetInterface") {
					get = call
				}
			}
			if get == nil {
				probs3 = append(probs3, "the StatefulSet is not read from the API server before deciding")
			} else {
				gt := fi.T(get).S
				for _, ret := range returnsOf(fn) {
					if isNilConst(returnedValue(ret, 0)) && !engine.InstrDominates(get, ret) {
						probs3 = append(probs3, "ChangeScale can report success at "+p.Rel(ret.Pos())+" without having read the live StatefulSet (a request that differs from the live replica count would be dropped)")
					}
				}
				live := false
				for _, g := range gl {
					if strings.HasPrefix(g, "¬eq0(") && strings.Contains(g, gt+".0.Spec.Replicas") {
						live = true
					}
				}
				if !live {
					probs3 = append(probs3, "the comparison with the request is not made on the StatefulSet returned by Get")
				}
			}
			r.Check(len(probs3) == 0, "R18.3-guards", "StatefulSet update in "+engine.FuncName(fn), "Update at "+p.Rel(update.Pos()), "decided on the live object (Get): Replicas != nil ∧ *Replicas != request; Spec.Replicas = request stored before; same object", strings.Join(probs3, "; "))
		}
		if del != nil {
			var probs []string
			okFlag, okUpd := false, false
			for _, g := range fi.Guards(del.Block()) {
				if strings.HasPrefix(g, "true(") && strings.HasSuffix(g, ".deletePVC)") {
					okFlag = true
				}
				if update != nil && g == "eq("+min2(fi.T(update).S+".1", "nil")+","+max2(fi.T(update).S+".1", "nil")+")" {
					okUpd = true
				}
			}
			if !okFlag {
				probs = append(probs, "claims are deleted although volume deletion may be disabled")
			}
			if !okUpd {
				probs = append(probs, "claims are deleted without the StatefulSet update having succeeded (a failed update would leave running shards without their volumes)")
			}
			r.Check(len(probs) == 0, "R18.3-guards", "claim deletion in "+engine.FuncName(fn), "Delete at "+p.Rel(del.Pos()), "deletePVC ∧ Update err == nil", strings.Join(probs, "; "))

			// R18.2
			probs = nil
			// the ordinal loop: outermost loop containing del whose header has a non-range phi
			var idx *ssa.Phi
			for lp := loopOf(fi, del.Block()); lp != nil; lp = enclosingLoop(fi, lp) {
				for _, in := range lp.header.Instrs {
					if ph, ok := in.(*ssa.Phi); ok && !strings.Contains(ph.Comment, "rangeindex") && isIntBasic(ph.Type()) {
						idx = ph
					}
				}
			}
			if idx == nil {
				probs = append(probs, "the deletion is not inside a loop over ordinals")
			} else {
				for k, e := range idx.Edges {
					pred := idx.Block().Preds[k]
					if fi.IsBackEdge(pred, idx.Block()) {
						if fi.T(e).S != fi.T(idx).S+"-1" {
							probs = append(probs, "the ordinal is stepped by "+fi.T(e).S+", not i-1")
						}
						continue
					}
					// init: old - 1, old loaded before the replica store
					bo, ok := e.(*ssa.BinOp)
					if !ok || bo.Op != token.SUB || !(fi.T(bo.Y).IsConst() && fi.T(bo.Y).K == 1) {
						probs = append(probs, "the first ordinal deleted is "+short(fi.T(e).S)+", not old-1")
						continue
					}
					old, ok := bo.X.(*ssa.UnOp)
					if !ok || !strings.Contains(fi.T(old).S, ".Spec.Replicas") {
						probs = append(probs, "'old' is "+short(fi.T(bo.X).S)+", not the StatefulSet's replica count")
					} else if repStore != nil && !(engine.InstrDominates(old, repStore)) {
						probs = append(probs, "the old replica count is read after it was overwritten with the request (nothing, or the wrong range, would be deleted)")
					}
				}
				// loop condition: idx >= request
				hb := idx.Block()
				if iff, ok := hb.Instrs[len(hb.Instrs)-1].(*ssa.If); ok {
					bo, ok := iff.Cond.(*ssa.BinOp)
					okc := false
					if ok && reqCell != nil {
						isReq := func(v ssa.Value) bool {
							u, ok := v.(*ssa.UnOp)
							return ok && u.X == ssa.Value(reqCell)
						}
						switch {
						case bo.Op == token.GEQ && bo.X == ssa.Value(idx) && isReq(bo.Y):
							okc = true
						case bo.Op == token.LEQ && bo.Y == ssa.Value(idx) && isReq(bo.X):
							okc = true
						}
					}
					if !okc {
						probs = append(probs, "the loop continues under "+short(fi.T(iff.Cond).S)+", not 'ordinal >= requested count' (an off-by-one deletes a remaining shard's claim or leaves one behind)")
					} else if ok, _ := fi.Implies(del.Block(), fi.Cond(bo)); !ok {
						probs = append(probs, "a claim can be deleted without 'ordinal >= requested count' holding on the path")
					}
				}
				// name
				nameOK := false
				if len(del.Call.Args) >= 2 {
					if nc, ok := del.Call.Args[1].(*ssa.Call); ok {
						f, args := sprintfArgs(nc)
						if f == "%s-%s-%d" && len(args) == 3 {
							a0, a1, a2 := fi.T(args[0]).S, fi.T(args[1]).S, fi.T(args[2]).S
							if strings.Contains(a0, "ObjectMeta.Name") && !strings.Contains(a0, ".Spec.") == true && strings.Contains(a1, "ObjectMeta.Name") && a2 == fi.T(idx).S {
								nameOK = true
							}
							// the template name comes from the range over VolumeClaimTemplates
							tmplOK := false
							for _, in := range allInstrs(fn) {
								if st, ok := in.(*ssa.Store); ok {
									if al, ok := st.Addr.(*ssa.Alloc); ok && strings.Contains(a0, "local:"+al.Name()) && strings.Contains(fi.T(st.Val).S, "VolumeClaimTemplates[") {
										tmplOK = true
									}
								}
							}
							if !tmplOK {
								nameOK = false
							}
						}
					}
				}
				if !nameOK {
					probs = append(probs, "the claim name is not '<template>-<set>-<ordinal>' from the claim template, the StatefulSet name and the loop ordinal")
				}
			}
			r.Check(len(probs) == 0, "R18.2-deletion-range", "claim deletion range in "+engine.FuncName(fn), "Delete at "+p.Rel(del.Pos()), "ordinals old-1 down to the requested count (inclusive), old read before the store; name <template>-<set>-<ordinal>", strings.Join(probs, "; "))
		}
	}

	// ---- R18.4
	n := 0
	for _, fn := range k8sFuncs {
		fi := p.Info(fn)
		// every list of managers the function returns was built in this very call (through the guarded appends below):
		// a list kept from an earlier call was checked against an earlier state of the StatefulSets
		if fn.Signature.Results().Len() >= 1 && strings.Contains(fn.Signature.Results().At(0).Type().String(), "shard.Manager") && fn.Parent() == nil {
			var probs []string
			for _, ret := range returnsOf(fn) {
				v := returnedValue(ret, 0)
				if v == nil || isNilConst(v) {
					continue
				}
				if !builtHere(v, map[ssa.Value]bool{}) {
					probs = append(probs, "the list returned at "+p.Rel(ret.Pos())+" is "+short(fi.T(v).S)+", not one built from this call's listing")
				}
			}
			r.Check(len(probs) == 0, "R18.4-rolling-update", "lists returned by "+engine.FuncName(fn), engine.FuncName(fn), "every returned list is built in the call from StatefulSets listed and checked in the call", strings.Join(probs, "; "))
		}
		for _, in := range allInstrs(fn) {
			call, ok := in.(*ssa.Call)
			if !ok {
				continue
			}
			bi, ok := call.Call.Value.(*ssa.Builtin)
			if !ok || bi.Name() != "append" || !strings.Contains(call.Type().String(), "shard.Manager") {
				continue
			}
			n++
			okg := false
			for _, g := range fi.Guards(call.Block()) {
				if strings.HasPrefix(g, "eq0(") && strings.Contains(g, "Status.Replicas") && strings.Contains(g, "Status.UpdatedReplicas") {
					okg = true
				}
			}
			r.Check(okg, "R18.4-rolling-update", fmt.Sprintf("manager append#%d in %s", n, engine.FuncName(fn)), "append at "+p.Rel(call.Pos()), "only StatefulSets with Status.Replicas == Status.UpdatedReplicas are coordinated", strings.Join(nonStructural(fi.Guards(call.Block())), " ∧ "))
			// R18.5: the StatefulSet object a manager keeps is its own: a copy made in the iteration (or the list element),
			// not the address of a variable that the next iteration overwrites
			var probs5 []string
			lp := loopOf(fi, call.Block())
			for _, e := range varargElems(call.Call.Args[1]) {
				mk, ok := unwrapIface(e).(*ssa.Call)
				if !ok {
					continue
				}
				for _, a := range mk.Call.Args {
					if !strings.HasSuffix(a.Type().String(), "*k8s.io/api/apps/v1.StatefulSet") {
						continue
					}
					switch x := a.(type) {
					case *ssa.Alloc:
						if lp != nil && !lp.blocks[x.Block().Index] {
							probs5 = append(probs5, "the manager is given the address of "+x.Comment+", a variable declared outside the loop body (with the loop semantics of go.mod's language version every manager ends up with the last StatefulSet)")
						}
					case *ssa.IndexAddr:
					default:
						if al, _ := rootAllocOf(a).(*ssa.Alloc); al != nil && lp != nil && !lp.blocks[al.Block().Index] {
							probs5 = append(probs5, "the manager is given a pointer into "+al.Comment+", declared outside the loop body")
						}
					}
				}
			}
			r.Check(len(probs5) == 0, "R18.5-own-object", fmt.Sprintf("manager object#%d in %s", n, engine.FuncName(fn)), "constructor call appended at "+p.Rel(call.Pos()), "each manager keeps a StatefulSet object of its own iteration", strings.Join(probs5, "; "))
		}
	}
}

func controlsC18(p *engine.Prog) []Control { return nil }

// countedFromZero recognises the induction variable of "for i := 0; i < len(<...what...>); i++": a header phi of the
// constant 0 and of itself plus one, tested against a length at the loop's exit test.
func countedFromZero(fi *engine.FuncInfo, ph *ssa.Phi, what string) bool {
	if len(ph.Edges) != 2 {
		return false
	}
	zero, step := false, false
	for _, e := range ph.Edges {
		if c, ok := e.(*ssa.Const); ok && c.Value != nil && c.Value.ExactString() == "0" {
			zero = true
		}
		if bo, ok := e.(*ssa.BinOp); ok && bo.Op == token.ADD && bo.X == ssa.Value(ph) {
			if c, ok := bo.Y.(*ssa.Const); ok && c.Value != nil && c.Value.ExactString() == "1" {
				step = true
			}
		}
	}
	if !zero || !step {
		return false
	}
	b := ph.Block()
	iff, ok := b.Instrs[len(b.Instrs)-1].(*ssa.If)
	if !ok {
		return false
	}
	cmp, ok := iff.Cond.(*ssa.BinOp)
	if !ok || cmp.Op != token.LSS || cmp.X != ssa.Value(ph) {
		return false
	}
	bt := fi.T(cmp.Y).S
	return strings.HasPrefix(bt, "len(") && strings.Contains(bt, what)
}

// builtHere: v is a slice made and appended to in this function (through phis), not something read from elsewhere.
func builtHere(v ssa.Value, seen map[ssa.Value]bool) bool {
	if seen[v] {
		return true
	}
	seen[v] = true
	switch x := v.(type) {
	case *ssa.Phi:
		for _, e := range x.Edges {
			if !builtHere(e, seen) {
				return false
			}
		}
		return true
	case *ssa.Call:
		if bi, ok := x.Call.Value.(*ssa.Builtin); ok && bi.Name() == "append" {
			return builtHere(x.Call.Args[0], seen)
		}
		return false
	case *ssa.MakeSlice:
		return true
	case *ssa.Slice:
		_, ok := x.X.(*ssa.Alloc)
		return ok
	case *ssa.Const:
		return true
	}
	return false
}
