package rules

import (
	"fmt"
	"go/constant"
	"go/token"
	"go/types"
	"strings"

	"golang.org/x/tools/go/ssa"

	"kvcheck/engine"
)

func init() {
	register(&Rule{ID: "C13", Run: runC13, Controls: controlsC13, ThoroughWhole: true,
		Explanation: "Structural necessary conditions of 'a failed real scrape is a failed scrape for Prometheus, with truthful health', decided on the proxy handler, its deferred completion and ScrapeStatus.SetScrapeErr: " +
			"R13.1 late failure must abort: once the response writer was handed to the scraper (WithRawWriter), every exit reached through ParseResponse's error edge passes panic(http.ErrAbortHandler) unless the hand-over condition is false on that path (the same SSA value decides both) - a status code written after body bytes is ineffective (net/http contract); " +
			"R13.2 the completion is deferred before the request is made; it increments ScrapeTimes exactly once, outside any loop, conditional only on the status entry existing; " +
			"R13.3 SetScrapeErr runs at exit with the final error; inside it err == nil gives health up and empty error, otherwise health down and the text; " +
			"R13.4 each failing scraper call stores a non-nil error into the completion's error variable on its error edge before the handler exits; " +
			"R13.5 under a non-empty stop reason the writer is not handed over and the completion writes a non-200 status and records an error; " +
			"R13.6 every WriteHeader argument in the proxy is a constant other than 200; R13.7 a failure recorded before any byte was forwarded is answered with a failure status by the completion; " +
			"R13.8 a failed read of the body is a failed scrape although the pinned stream parser takes some read errors (text containing 'reset by peer') for the end of the stream: the tee's Read stores every error of the underlying read other than io.EOF into a field of the tee that nothing else writes, and ParseResponse returns nil only if that field is nil after parsing; R13.9 every successful return of RequestTo implies StatusCode == 200 (helper predicates are looked through). " +
			"R13.1 also: nothing in pkg/sidecar recovers panics around a handler call (the abort must reach net/http); R13.3 also: the outcome is recorded by SetScrapeErr for every attempt, conditional only on the status entry existing. " +
			"Not decided: what an HTTP client observes (taken from the documented net/http contract).",
		Assumptions: []string{"go/types and go/ssa are correct", "net/http: WriteHeader after the first Write is ignored; panic(http.ErrAbortHandler) aborts the response", "fmt.Errorf never returns nil", "github.com/VictoriaMetrics/VictoriaMetrics v1.71.0 lib/protoparser/common.isEOFLikeError ends the stream silently on read errors whose text contains 'reset by peer' (read; demonstrated by seeded/D12)"}})
}

type proxyRoles struct {
	p          *engine.Prog
	fn         *ssa.Function // the handler
	fi         *engine.FuncInfo
	w          ssa.Value // ResponseWriter parameter
	with       *ssa.Call
	request    *ssa.Call
	parse      *ssa.Call
	completion *ssa.Function
	deferIn    *ssa.Defer
	errCell    *ssa.Alloc
	tarCell    ssa.Value
}

func findProxy(p *engine.Prog) *proxyRoles {
	mServe := p.Method(pkgSide, "Proxy", "ServeHTTP")
	mWith := p.Method(pkgScrape, "Scraper", "WithRawWriter")
	mReq := p.Method(pkgScrape, "Scraper", "RequestTo")
	mParse := p.Method(pkgScrape, "Scraper", "ParseResponse")
	mSet := p.Method(pkgTarget, "ScrapeStatus", "SetScrapeErr")
	if len(p.Problems) > 0 {
		return nil
	}
	fn := p.SSAFunc(mServe)
	if fn == nil {
		p.Problem("Proxy.ServeHTTP has no body")
		return nil
	}
	pr := &proxyRoles{p: p, fn: fn, fi: p.Info(fn)}
	if len(fn.Params) >= 2 {
		pr.w = fn.Params[1]
	}
	one := func(m *types.Func) *ssa.Call {
		var out *ssa.Call
		for _, ci := range callsIn(fn, m) {
			if c, ok := ci.(*ssa.Call); ok {
				out = c
			}
		}
		return out
	}
	pr.with, pr.request, pr.parse = one(mWith), one(mReq), one(mParse)
	for _, in := range allInstrs(fn) {
		d, ok := in.(*ssa.Defer)
		if !ok {
			continue
		}
		mc, ok := d.Call.Value.(*ssa.MakeClosure)
		if !ok {
			continue
		}
		body := mc.Fn.(*ssa.Function)
		if len(callsIn(body, mSet)) > 0 {
			pr.completion, pr.deferIn = body, d
			for _, ci := range callsIn(body, mSet) {
				args := ci.Common().Args
				// the error handed over is the handler's error variable as it is when the completion runs, possibly
				// through a local of the completion that is given another value on some paths
				var find func(v ssa.Value, d int)
				find = func(v ssa.Value, d int) {
					if d > 4 {
						return
					}
					switch x := v.(type) {
					case *ssa.UnOp:
						if fv, ok := x.X.(*ssa.FreeVar); ok {
							for i, f := range body.FreeVars {
								if f == fv && pr.errCell == nil {
									pr.errCell, _ = mc.Bindings[i].(*ssa.Alloc)
								}
							}
						}
					case *ssa.Phi:
						for _, e := range x.Edges {
							find(e, d+1)
						}
					}
				}
				find(args[len(args)-1], 0)
			}
		}
	}
	return pr
}

func isAbortPanic(in ssa.Instruction) bool {
	pn, ok := in.(*ssa.Panic)
	if !ok {
		return false
	}
	v := pn.X
	if mi, ok := v.(*ssa.MakeInterface); ok {
		v = mi.X
	}
	if ci, ok := v.(*ssa.ChangeInterface); ok {
		v = ci.X
	}
	u, ok := v.(*ssa.UnOp)
	if !ok {
		return false
	}
	g, ok := u.X.(*ssa.Global)
	return ok && g.Pkg.Pkg.Path() == "net/http" && g.Name() == "ErrAbortHandler"
}

func runC13(p *engine.Prog, r *engine.Report) {
	pr := findProxy(p)
	fTimes := p.Field(pkgTarget, "ScrapeStatus", "ScrapeTimes")
	fHealth := p.Field(pkgTarget, "ScrapeStatus", "Health")
	fLastErr := p.Field(pkgTarget, "ScrapeStatus", "LastError")
	mSet := p.Method(pkgTarget, "ScrapeStatus", "SetScrapeErr")
	if pr == nil || len(p.Problems) > 0 {
		return
	}
	fn, fi := pr.fn, pr.fi
	r.Min("R13.1-late-failure-aborts", 1)
	r.Min("R13.2-counter", 2)
	r.Min("R13.3-truthful-health", 2)
	r.Min("R13.4-error-mapping", 2)
	r.Min("R13.5-stop-scrape", 1)
	r.Min("R13.6-status-codes", 1)
	r.Min("R13.7-failure-status", 1)
	r.Min("R13.8-read-failure-reported", 2)
	r.Min("R13.9-only-200-succeeds", 1)
	if pr.request == nil || pr.parse == nil || pr.completion == nil || pr.errCell == nil {
		r.Add("R13.1-late-failure-aborts", "roles", engine.FuncName(fn), "the handler calls RequestTo and ParseResponse and defers a completion that calls SetScrapeErr with a captured error variable",
			fmt.Sprintf("RequestTo:%v ParseResponse:%v completion:%v error variable:%v", pr.request != nil, pr.parse != nil, pr.completion != nil, pr.errCell != nil), engine.Undecided)
		return
	}
	// hand-over condition
	var handed []string
	if pr.with != nil {
		base := map[string]bool{}
		for _, g := range fi.Guards(pr.request.Block()) {
			base[g] = true
		}
		for _, g := range fi.Guards(pr.with.Block()) {
			if !base[g] && !engine.IsStructuralLiteral(g) {
				handed = append(handed, g)
			}
		}
		// the writer handed over is the handler's ResponseWriter
		okw := false
		for _, e := range varargElems(pr.with.Call.Args[1]) {
			if fi.T(unwrapIface(e)).S == fi.T(pr.w).S {
				okw = true
			}
		}
		if !okw {
			r.Add("R13.1-late-failure-aborts", "writer handed over", "WithRawWriter at "+p.Rel(pr.with.Pos()), "the handler's own ResponseWriter", "another writer", engine.Undecided)
		}
	}
	litFormula := func(lits []string) *engine.Formula {
		fs := []*engine.Formula{}
		for _, l := range lits {
			if strings.HasPrefix(l, "¬") {
				fs = append(fs, engine.Not(engine.A(strings.TrimPrefix(l, "¬"))))
			} else {
				fs = append(fs, engine.A(l))
			}
		}
		return engine.And(fs...)
	}

	// ---- R13.1
	{
		var probs []string
		if pr.with == nil {
			probs = append(probs, "the response writer is never handed to the scraper (nothing to forward)")
		}
		// error edge of ParseResponse
		var errSucc *ssa.BasicBlock
		pb := pr.parse.Block()
		if iff, ok := pb.Instrs[len(pb.Instrs)-1].(*ssa.If); ok {
			c := fi.Cond(iff.Cond)
			nilAtom := engine.EqAtom(fi.T(pr.parse).S, "nil")
			if ok, _ := engine.Implies(c, engine.Not(nilAtom)); ok {
				errSucc = pb.Succs[0]
			} else if ok, _ := engine.Implies(engine.Not(c), engine.Not(nilAtom)); ok {
				errSucc = pb.Succs[1]
			}
		}
		if errSucc == nil {
			probs = append(probs, "the error of ParseResponse is not tested right after the call")
		} else {
			notHanded := engine.Not(litFormula(handed))
			v := fi.ViewOpt(notHanded, errSucc)
			for _, b := range fn.Blocks {
				if b == fn.Recover || !v.Reachable(b) {
					continue
				}
				last := b.Instrs[len(b.Instrs)-1]
				if _, isRet := last.(*ssa.Return); isRet {
					if ok, have := v.Implies(b, notHanded); !ok {
						probs = append(probs, "after a mid-body failure the handler can return normally (at "+p.Rel(last.Pos())+") although the writer was handed over under ["+strings.Join(handed, " ∧ ")+"]; path gives: "+strings.Join(nonStructural(have), " ∧ "))
					}
				}
				if pn, isPanic := last.(*ssa.Panic); isPanic && !isAbortPanic(pn) {
					probs = append(probs, "a panic other than http.ErrAbortHandler at "+p.Rel(pn.Pos()))
				}
			}
			// the completion must not swallow the abort
			for _, in := range allInstrs(pr.completion) {
				if call, ok := in.(*ssa.Call); ok {
					if bi, ok := call.Call.Value.(*ssa.Builtin); ok && bi.Name() == "recover" {
						probs = append(probs, "the deferred completion recovers panics (the abort would be swallowed)")
					}
				}
			}
		}
		// nor may a wrapper around the handler: whatever serves the proxy must let the abort reach net/http
		for _, f := range p.Funcs {
			if !engine.InPkg(f, pkgSide) {
				continue
			}
			rec := false
			for _, in := range allInstrs(f) {
				if call, ok := in.(*ssa.Call); ok {
					if bi, ok := call.Call.Value.(*ssa.Builtin); ok && bi.Name() == "recover" {
						rec = true
					}
				}
			}
			if !rec {
				continue
			}
			for g := f; g != nil; g = g.Parent() {
				if g == fn {
					break // the handler's own completion: reported above
				}
				wraps := false
				for _, in := range allInstrs(g) {
					if ci, ok := in.(ssa.CallInstruction); ok {
						if m := ci.Common().Method; m != nil && m.Name() == "ServeHTTP" {
							wraps = true
						}
						if callee := ci.Common().StaticCallee(); callee != nil && callee.Name() == "ServeHTTP" {
							wraps = true
						}
					}
				}
				if wraps {
					probs = append(probs, "panics are recovered around a handler call in "+engine.FuncName(g)+" ("+p.Rel(f.Pos())+"): the abort of a scrape that failed after body bytes were sent would be swallowed and the truncated response completed")
					break
				}
			}
		}
		r.Check(len(probs) == 0, "R13.1-late-failure-aborts", "ParseResponse error edge in "+engine.FuncName(fn), "error edge of ParseResponse at "+p.Rel(pr.parse.Pos()),
			"every exit passes panic(http.ErrAbortHandler) unless the writer was not handed over (same condition value)", strings.Join(probs, "; "))
	}

	// ---- R13.2
	{
		var probs []string
		if !engine.InstrDominates(pr.deferIn, pr.request) {
			probs = append(probs, "the completion is not deferred before RequestTo")
		}
		for _, ret := range returnsOf(fn) {
			if engine.InstrDominates(pr.deferIn, ret) {
				continue
			}
			// returns before the defer: must be before the scrape attempt too
			if blockReaches(pr.request.Block(), ret.Block()) {
				probs = append(probs, "a return after the request is not covered by the completion")
			}
		}
		// once the completion is registered the target is really contacted: no exit between the defer and RequestTo
		if !fi.MustPass(pr.deferIn, nil, func(in ssa.Instruction) bool { return in == ssa.Instruction(pr.request) }) {
			probs = append(probs, "the handler can exit after registering the completion without attempting the request (requests that never reach the target would be counted as scrapes)")
		}
		r.Check(len(probs) == 0, "R13.2-counter", "completion deferred in "+engine.FuncName(fn), "defer at "+p.Rel(pr.deferIn.Pos()), "the completion is registered before the scrape attempt starts, and every path from there attempts the request", strings.Join(probs, "; "))
		cfi := p.Info(pr.completion)
		var incs []*ssa.Store
		for _, in := range allInstrs(pr.completion) {
			if st, ok := in.(*ssa.Store); ok {
				if fa, ok := st.Addr.(*ssa.FieldAddr); ok && engine.FieldOf(fa) == fTimes {
					incs = append(incs, st)
				}
			}
		}
		probs = nil
		// increments elsewhere in the handler
		for _, in := range allInstrs(fn) {
			if st, ok := in.(*ssa.Store); ok {
				if fa, ok := st.Addr.(*ssa.FieldAddr); ok && engine.FieldOf(fa) == fTimes {
					probs = append(probs, "ScrapeTimes is also written in the handler body at "+p.Rel(st.Pos()))
				}
			}
		}
		if len(incs) != 1 {
			probs = append(probs, fmt.Sprintf("%d stores to ScrapeTimes in the completion (want exactly 1)", len(incs)))
		} else {
			st := incs[0]
			bo, ok := st.Val.(*ssa.BinOp)
			if !ok || bo.Op != token.ADD || !(cfi.T(bo.Y).IsConst() && cfi.T(bo.Y).K == 1) {
				probs = append(probs, "the store is not ScrapeTimes+1")
			}
			if loopOf(cfi, st.Block()) != nil {
				probs = append(probs, "the increment is inside a loop")
			}
			ent := st.Addr.(*ssa.FieldAddr).X
			et := cfi.T(ent).S
			pr.tarCell = ent
			for _, g := range cfi.Guards(st.Block()) {
				if engine.IsStructuralLiteral(g) {
					continue
				}
				if g == "¬eq("+min2(et, "nil")+","+max2(et, "nil")+")" {
					continue
				}
				// guards inherited from the handler at the defer site are about the request being well-formed
				inherited := false
				for _, hg := range fi.Guards(pr.deferIn.Block()) {
					if hg == g {
						inherited = true
					}
				}
				if !inherited {
					probs = append(probs, "the increment is conditional on "+g)
				}
			}
			// the entry may be absent (target not assigned to this shard): the increment needs the test
			nn := engine.Not(engine.EqAtom(et, "nil"))
			if ok, _ := cfi.Implies(st.Block(), nn); !ok {
				probs = append(probs, "the status entry is dereferenced without a nil test (the proxy also serves targets that are not assigned to this shard)")
			}
			// every exit of the completion with the entry non-nil passes the increment
			v := cfi.ViewOpt(nn, nil, st.Block())
			for _, ret := range returnsOf(pr.completion) {
				if !v.Reachable(ret.Block()) {
					continue
				}
				if ok, _ := v.Implies(ret.Block(), engine.Not(nn)); !ok {
					probs = append(probs, "the completion can finish without counting the attempt although the target is assigned")
				}
			}
			// the entry is the status entry of the requested hash
			if !strings.Contains(et, "p.getStatus()") {
				probs = append(probs, "the counted entry "+et+" is not looked up in the shard's status map")
			}
		}
		r.Check(len(probs) == 0, "R13.2-counter", "increment in "+engine.FuncName(pr.completion), "completion of "+engine.FuncName(fn), "exactly one ScrapeTimes+1 per attempt, outside loops, conditional only on the status entry existing", strings.Join(probs, "; "))
	}

	// ---- R13.3
	checkSetScrapeErr(p, r, "R13.3-truthful-health", pkgSide)
	if pr != nil && pr.completion != nil && pr.deferIn != nil {
		// the health is recorded for every attempt on an assigned target: the call is conditional only on the entry
		cfi := p.Info(pr.completion)
		fi := p.Info(fn)
		for _, ci := range callsIn(pr.completion, mSet) {
			call, ok := ci.(*ssa.Call)
			if !ok {
				continue
			}
			var probs []string
			et := cfi.T(recvOf(call)).S
			for _, g := range cfi.Guards(call.Block()) {
				if engine.IsStructuralLiteral(g) || g == "¬eq("+min2(et, "nil")+","+max2(et, "nil")+")" {
					continue
				}
				inherited := false
				for _, hg := range fi.Guards(pr.deferIn.Block()) {
					if hg == g {
						inherited = true
					}
				}
				if !inherited {
					probs = append(probs, "the health is only recorded when "+g)
				}
			}
			nn := engine.Not(engine.EqAtom(et, "nil"))
			v := cfi.ViewOpt(nn, nil, call.Block())
			for _, ret := range returnsOf(pr.completion) {
				if !v.Reachable(ret.Block()) {
					continue
				}
				if ok, _ := v.Implies(ret.Block(), engine.Not(nn)); !ok {
					probs = append(probs, "the completion can finish without recording the outcome although the target is assigned (it keeps the health of an earlier scrape)")
				}
			}
			r.Check(len(probs) == 0, "R13.3-truthful-health", "outcome recorded in "+engine.FuncName(pr.completion), "SetScrapeErr at "+p.Rel(call.Pos()), "called for every attempt, conditional only on the status entry existing", strings.Join(probs, "; "))
		}
	}
	if sf := p.SSAFunc(mSet); sf != nil {
		sfi := p.Info(sf)
		errP := sf.Params[len(sf.Params)-1]
		nilA := engine.EqAtom(sfi.T(errP).S, "nil")
		var probs []string
		seen := map[string]bool{}
		for _, in := range allInstrs(sf) {
			st, ok := in.(*ssa.Store)
			if !ok {
				continue
			}
			fa, ok := st.Addr.(*ssa.FieldAddr)
			if !ok {
				continue
			}
			switch engine.FieldOf(fa) {
			case fHealth:
				v := sfi.T(st.Val).S
				okN, _ := sfi.Implies(st.Block(), nilA)
				okE, _ := sfi.Implies(st.Block(), engine.Not(nilA))
				switch {
				case v == `"up"` && okN:
					seen["up"] = true
				case v == `"down"` && okE:
					seen["down"] = true
				default:
					probs = append(probs, "Health = "+v+" is stored without the matching test of err")
				}
			case fLastErr:
				v := sfi.T(st.Val).S
				okN, _ := sfi.Implies(st.Block(), nilA)
				okE, _ := sfi.Implies(st.Block(), engine.Not(nilA))
				switch {
				case v == `""` && okN:
					seen["noerr"] = true
				case strings.Contains(v, "(error).Error("+sfi.T(errP).S+")") && okE:
					seen["errtext"] = true
				default:
					probs = append(probs, "LastError = "+v+" is stored without the matching test of err")
				}
			}
		}
		for _, k := range []string{"up", "down", "noerr", "errtext"} {
			if !seen[k] {
				probs = append(probs, "missing store: "+k)
			}
		}
		r.Check(len(probs) == 0, "R13.3-truthful-health", "SetScrapeErr body", engine.FuncName(sf), "err == nil ⇒ Health up, LastError empty; err != nil ⇒ Health down, LastError = err.Error()", strings.Join(probs, "; "))
	}

	// ---- R13.4
	for _, call := range []*ssa.Call{pr.request, pr.parse} {
		name := engine.CalleeObj(call.Common()).Name()
		var probs []string
		cb := call.Block()
		var errSucc *ssa.BasicBlock
		if iff, ok := cb.Instrs[len(cb.Instrs)-1].(*ssa.If); ok {
			c := fi.Cond(iff.Cond)
			nilAtom := engine.EqAtom(fi.T(call).S, "nil")
			if ok, _ := engine.Implies(c, engine.Not(nilAtom)); ok {
				errSucc = cb.Succs[0]
			} else if ok, _ := engine.Implies(engine.Not(c), engine.Not(nilAtom)); ok {
				errSucc = cb.Succs[1]
			}
		}
		// the test may come a few statements after the call: the blocks entered exactly when the call's error is known
		// not to be nil
		var errEntries []*ssa.BasicBlock
		if errSucc != nil {
			errEntries = []*ssa.BasicBlock{errSucc}
		} else {
			notNil := engine.Not(engine.EqAtom(fi.T(call).S, "nil"))
			for _, b := range fn.Blocks {
				if !cb.Dominates(b) || b == cb {
					continue
				}
				if ok, _ := fi.Implies(b, notNil); !ok {
					continue
				}
				first := false
				for _, pb := range b.Preds {
					if ok, _ := fi.Implies(pb, notNil); !ok {
						first = true
					}
				}
				if first {
					errEntries = append(errEntries, b)
				}
			}
			// and no exit is reachable from the call without the test
			if len(errEntries) > 0 {
				tested := fi.MustPass(call, nil, func(in ssa.Instruction) bool {
					iff, ok := in.(*ssa.If)
					if !ok {
						return false
					}
					for _, a := range fi.Cond(iff.Cond).Atoms() {
						if strings.Contains(a, fi.T(call).S) {
							return true
						}
					}
					return false
				})
				if !tested {
					errEntries = nil
				}
			}
		}
		if len(errEntries) == 0 {
			probs = append(probs, "the error is not tested right after the call")
		}
		for _, errSucc := range errEntries {
			isErrStore := func(in ssa.Instruction) bool {
				st, ok := in.(*ssa.Store)
				if !ok || st.Addr != ssa.Value(pr.errCell) {
					return false
				}
				c2, ok := st.Val.(*ssa.Call)
				return ok && (engine.CalleeIs(c2.Common(), "fmt", "", "Errorf") || engine.CalleeIs(c2.Common(), "errors", "", "New") || strings.HasPrefix(engine.CalleeObj(c2.Common()).Pkg().Path(), "github.com/pkg/errors"))
			}
			if !fi.MustPass(errSucc.Instrs[0], nil, isErrStore) && !isErrStore(errSucc.Instrs[0]) {
				probs = append(probs, "an exit is reachable from the error edge without a non-nil error being stored into the completion's error variable (health would show up)")
			}
		}
		r.Check(len(probs) == 0, "R13.4-error-mapping", name+" error edge in "+engine.FuncName(fn), "error edge of "+name+" at "+p.Rel(call.Pos()), "a non-nil error is stored into the completion's error variable before the handler exits", strings.Join(probs, "; "))
	}

	// ---- R13.5
	{
		var probs []string
		stopTerm := ""
		for _, h := range handed {
			if strings.HasPrefix(h, `eq("",`) {
				stopTerm = strings.TrimSuffix(strings.TrimPrefix(h, `eq("",`), ")")
			}
		}
		if pr.with != nil && stopTerm == "" {
			probs = append(probs, "the hand-over of the writer is not conditional on an empty stop reason (condition: "+strings.Join(handed, " ∧ ")+")")
		}
		if stopTerm != "" {
			if !strings.Contains(stopTerm, "StopScrapeReason") {
				probs = append(probs, "the value tested is not the configuration's StopScrapeReason")
			}
			cfi := p.Info(pr.completion)
			stopped := engine.Not(engine.EqAtom(`""`, stopTerm))
			// values that can be the error handed to SetScrapeErr (through locals of the completion)
			argVals := map[ssa.Value]bool{}
			for _, ci := range callsIn(pr.completion, mSet) {
				args := ci.Common().Args
				var walk func(v ssa.Value, d int)
				walk = func(v ssa.Value, d int) {
					if d > 4 || argVals[v] {
						return
					}
					argVals[v] = true
					if ph, ok := v.(*ssa.Phi); ok {
						for _, e := range ph.Edges {
							walk(e, d+1)
						}
					}
				}
				walk(args[len(args)-1], 0)
			}
			// a block of the completion, reached only when stopped, that writes a non-200 status and stores an error
			var blk *ssa.BasicBlock
			for _, b := range pr.completion.Blocks {
				if ok, _ := cfi.Implies(b, stopped); !ok {
					continue
				}
				hasWH, hasErr := false, false
				for _, in := range b.Instrs {
					if call, ok := in.(*ssa.Call); ok && call.Call.IsInvoke() && call.Call.Method.Name() == "WriteHeader" {
						if t := cfi.T(call.Call.Args[0]); t.IsConst() && t.K != 200 {
							hasWH = true
						}
					}
					if st, ok := in.(*ssa.Store); ok {
						if u, ok := st.Addr.(*ssa.FreeVar); ok {
							_, al, _ := cfi.ResolveCell(u)
							if al == pr.errCell {
								if _, isCall := st.Val.(*ssa.Call); isCall {
									hasErr = true
								}
							}
						}
					}
					// or the error is built here and is what SetScrapeErr receives on the paths through this block
					if call, ok := in.(*ssa.Call); ok && argVals[call] && strings.HasSuffix(call.Type().String(), "error") {
						hasErr = true
					}
				}
				if hasWH && hasErr {
					blk = b
				}
			}
			if blk == nil {
				probs = append(probs, "the completion has no branch, taken under a non-empty stop reason, that writes a non-200 status and records an error")
			} else {
				// every path to SetScrapeErr with stop reason set and no earlier error passes that block
				for _, ci := range callsIn(pr.completion, mSet) {
					need := engine.Or(engine.EqAtom(`""`, stopTerm), engine.A("errAtEntry"))
					_ = need
					v := cfi.ViewOpt(stopped, nil, blk)
					if v.Reachable(ci.Block()) {
						// allowed only when an error was already set: the path must contain ¬eq(err,nil)
						okp := false
						for _, g := range v.Literals(ci.Block()) {
							_ = g
						}
						// re-evaluate with the error-variable atom
						for _, a := range cfi.AllAtoms() {
							if strings.HasPrefix(a, "eq(") && strings.Contains(a, "cell:"+pr.errCell.Name()) && strings.Contains(a, "nil") {
								f := engine.Or(engine.Not(stopped), engine.Not(engine.A(a)))
								v2 := cfi.ViewOpt(f, nil, blk)
								if ok, _ := v2.Implies(ci.Block(), f); ok {
									okp = true
								}
							}
						}
						if !okp {
							probs = append(probs, "with a stop reason set and no scrape error the completion can reach SetScrapeErr without failing the scrape")
						}
					}
				}
			}
		}
		r.Check(len(probs) == 0, "R13.5-stop-scrape", "stop reason in "+engine.FuncName(fn), engine.FuncName(fn)+" and its completion", "writer handed over only when the stop reason is empty; otherwise the completion answers non-200 and records an error", strings.Join(probs, "; "))
	}

	// ---- R13.7: a failure recorded in the completion's error variable is answered with a failure status
	{
		cfi := p.Info(pr.completion)
		var probs []string
		var errAtom string
		for _, a := range cfi.AllAtoms() {
			if strings.HasPrefix(a, "eq(") && strings.Contains(a, "cell:"+pr.errCell.Name()) && strings.Contains(a, "nil") {
				if errAtom == "" {
					errAtom = a
				}
			}
		}
		if errAtom == "" {
			probs = append(probs, "the completion never tests the error variable")
		} else {
			var cut []*ssa.BasicBlock
			for _, in := range allInstrs(pr.completion) {
				if call, ok := in.(*ssa.Call); ok && call.Call.IsInvoke() && call.Call.Method.Name() == "WriteHeader" {
					if t := cfi.T(call.Call.Args[0]); t.IsConst() && t.K != 200 {
						cut = append(cut, call.Block())
					}
				}
			}
			if len(cut) == 0 {
				probs = append(probs, "the completion never writes a failure status")
			}
			noErr := engine.A(errAtom)
			v := cfi.ViewOpt(noErr, nil, cut...)
			for _, ret := range returnsOf(pr.completion) {
				if !v.Reachable(ret.Block()) {
					continue
				}
				if ok, _ := v.Implies(ret.Block(), noErr); !ok {
					probs = append(probs, "the completion can finish after a failed scrape without writing a failure status (Prometheus would see an empty 200 response)")
				}
			}
		}
		r.Check(len(probs) == 0, "R13.7-failure-status", "completion "+engine.FuncName(pr.completion), "completion of "+engine.FuncName(fn), "error variable non-nil at entry ⇒ a non-200 status is written before the completion ends", strings.Join(probs, "; "))
	}

	// ---- R13.9: any status other than 200 is a failed request
	if rq := p.SSAFunc(p.Method(pkgScrape, "Scraper", "RequestTo")); rq != nil {
		rfi := p.Info(rq)
		var atoms []string
		for _, a := range append(rfi.AllAtoms(), rfi.Deep().AllAtoms()...) {
			if strings.HasPrefix(a, "eq0(") && strings.HasSuffix(a, ".StatusCode-200)") && strings.Contains(a, ".HTTPResponse") {
				atoms = append(atoms, a)
			}
		}
		var probs []string
		if len(atoms) == 0 {
			probs = append(probs, "the response status is never compared with 200")
		}
		nOK := 0
		for _, ret := range returnsOf(rq) {
			if !isNilConst(returnedValue(ret, 0)) {
				continue
			}
			nOK++
			okRet := false
			for _, a := range atoms {
				if ok, _ := rfi.Implies(ret.Block(), engine.A(a)); ok {
					okRet = true
				}
			}
			if !okRet && len(atoms) > 0 {
				probs = append(probs, "RequestTo can succeed at "+p.Rel(ret.Pos())+" with a status other than 200")
			}
		}
		if nOK == 0 {
			probs = append(probs, "no successful return found")
		}
		r.Check(len(probs) == 0, "R13.9-only-200-succeeds", "status check in "+engine.FuncName(rq), engine.FuncName(rq), "every successful return implies StatusCode == 200", strings.Join(probs, "; "))
	}

	// ---- R13.8: a failed read of the target's body is a failed scrape
	checkReadFailureReported(p, r)

	// ---- R13.6
	nWH := 0
	for _, f := range append([]*ssa.Function{fn}, fn.AnonFuncs...) {
		ffi := p.Info(f)
		for _, in := range allInstrs(f) {
			call, ok := in.(*ssa.Call)
			if !ok || !call.Call.IsInvoke() || call.Call.Method.Name() != "WriteHeader" {
				continue
			}
			nWH++
			t := ffi.T(call.Call.Args[0])
			okc := false
			if cst, ok := call.Call.Args[0].(*ssa.Const); ok && cst.Value != nil && cst.Value.Kind() == constant.Int {
				okc = t.K != 200 && t.K >= 400
			}
			r.Check(okc, "R13.6-status-codes", fmt.Sprintf("WriteHeader#%d in %s", nWH, engine.FuncName(f)), "WriteHeader at "+p.Rel(call.Pos()), "a constant failure status (the success path never sets a status explicitly)", "argument "+t.S)
		}
	}
}

func controlsC13(p *engine.Prog) []Control { return nil }

// parserSwallowsReadErrors re-derives, from the pinned source in the whole-program load, the library
// behaviour R13.8 guards against: the stream parser's line reader classifies some read errors as the end of the stream.
func parserSwallowsReadErrors(p *engine.Prog) (bool, string) {
	for fn := range ssautilAll(p) {
		if fn.Pkg == nil || !strings.HasSuffix(fn.Pkg.Pkg.Path(), "VictoriaMetrics/lib/protoparser/common") || fn.Blocks == nil {
			continue
		}
		// a predicate on an error that is true for io.EOF and for errors matched by text, used by the line reader
		if fn.Signature.Params().Len() != 1 || fn.Signature.Results().Len() != 1 || fn.Signature.Params().At(0).Type().String() != "error" {
			continue
		}
		for _, in := range allInstrs(fn) {
			call, ok := in.(*ssa.Call)
			if !ok || !engine.CalleeIs(call.Common(), "strings", "", "Contains") {
				continue
			}
			if c, ok := call.Call.Args[1].(*ssa.Const); ok && c.Value != nil && c.Value.Kind() == constant.String {
				return true, engine.FuncName(fn) + " (" + p.Rel(fn.Pos()) + ") is true for read errors whose text contains " + c.Value.ExactString()
			}
		}
	}
	return false, "no text-matching end-of-stream predicate found in the pinned stream parser (R13.8 then asks for more than this parser needs; it stays a necessary condition for parsers that may stop early on a read error)"
}

// checkReadFailureReported is R13.8.
func checkReadFailureReported(p *engine.Prog, r *engine.Report) {
	if p.Whole {
		_, why := parserSwallowsReadErrors(p)
		r.Add("R13.8-read-failure-reported", "library summary: the stream parser can take a read error for the end of the stream", "VictoriaMetrics lib/protoparser/common", "re-derived from the pinned source", why, engine.Discharged)
	}
	mParse := p.Method(pkgScrape, "Scraper", "ParseResponse")
	fReader := p.Field(pkgScrape, "Scraper", "reader")
	if len(p.Problems) > 0 {
		return
	}
	const need1 = "every error of the underlying read other than io.EOF is stored into a field of the tee (at least while that field is nil); nothing else writes the field"
	const need2 = "ParseResponse returns nil only when the tee's stored read error, loaded after parsing, is nil"
	// the tee: a Read method in pkg/scrape that forwards to writers
	var tee *ssa.Function
	for _, fn := range p.Funcs {
		if !engine.InPkg(fn, pkgScrape) || fn.Name() != "Read" || fn.Signature.Recv() == nil || len(fn.Params) != 2 {
			continue
		}
		for _, in := range allInstrs(fn) {
			if call, ok := in.(*ssa.Call); ok && call.Call.IsInvoke() && call.Call.Method.Name() == "Write" {
				tee = fn
			}
		}
	}
	if tee == nil {
		r.Add("R13.8-read-failure-reported", "read error kept by the tee", pkgScrape, need1, "no Read method that forwards to io.Writers found", engine.Undecided)
		return
	}
	fi := p.Info(tee)
	var rd *ssa.Call
	for _, in := range allInstrs(tee) {
		if call, ok := in.(*ssa.Call); ok && call.Call.IsInvoke() && call.Call.Method.Name() == "Read" {
			rd = call
		}
	}
	var latch *types.Var
	{
		var probs []string
		var rerr *ssa.Extract
		if rd != nil {
			rerr = extractOf(rd, 1)
		}
		if rerr == nil {
			probs = append(probs, "the error of the underlying read is not used")
		} else {
			et := fi.T(rerr).S
			var stores []*ssa.Store
			for _, in := range allInstrs(tee) {
				st, ok := in.(*ssa.Store)
				if !ok {
					continue
				}
				fa, ok := st.Addr.(*ssa.FieldAddr)
				if !ok || fa.X != ssa.Value(tee.Params[0]) {
					continue
				}
				if fi.T(st.Val).S == et {
					stores = append(stores, st)
					latch = engine.FieldOf(fa)
				}
			}
			if len(stores) == 0 {
				probs = append(probs, "the error of the underlying read is never stored in the tee: a read failure that the stream parser takes for the end of the stream ('reset by peer') leaves no trace and the scrape is reported complete")
			} else {
				recvT := fi.T(tee.Params[0]).S
				failed := engine.And(engine.Not(engine.EqAtom(et, "nil")), engine.Not(engine.EqAtom(et, "g:io.EOF")), engine.EqAtom(recvT+"."+latch.Name(), "nil"))
				v := fi.ViewAll(failed, rd.Block())
				if v == nil {
					probs = append(probs, "too many conditions in "+engine.FuncName(tee)+" to decide when the error is stored")
				} else {
					// the stores are alternatives: the disjunction of their path conditions must cover 'failed'
					covered := false
					for _, st := range stores {
						if v.ImpliedBy(st.Block(), failed) {
							covered = true
						}
					}
					if !covered {
						probs = append(probs, "a failed read (error neither nil nor io.EOF, no earlier error kept) does not always reach the store at "+p.Rel(stores[0].Pos()))
					}
				}
			}
		}
		// who else writes the field
		if latch != nil {
			for _, fn := range p.Funcs {
				for _, in := range allInstrs(fn) {
					st, ok := in.(*ssa.Store)
					if !ok {
						continue
					}
					fa, ok := st.Addr.(*ssa.FieldAddr)
					if !ok || engine.FieldOf(fa) != latch {
						continue
					}
					if fn == tee && rerr != nil && fi.T(st.Val).S == fi.T(rerr).S {
						continue
					}
					probs = append(probs, "the field is also written at "+p.Rel(st.Pos())+" in "+engine.FuncName(fn))
				}
			}
		}
		r.Check(len(probs) == 0, "R13.8-read-failure-reported", "read error kept by the tee", engine.FuncName(tee)+" ("+p.Rel(tee.Pos())+")", need1, strings.Join(probs, "; "))
	}
	ps := p.SSAFunc(mParse)
	if ps == nil {
		r.Add("R13.8-read-failure-reported", "read error consulted by ParseResponse", "ParseResponse", need2, "no body", engine.Undecided)
		return
	}
	{
		pfi := p.Info(ps)
		var probs []string
		var parse *ssa.Call
		for _, in := range allInstrs(ps) {
			if call, ok := in.(*ssa.Call); ok && strings.Contains(pfi.T(call).S, "ParseStream(") {
				parse = call
			}
		}
		if latch == nil {
			probs = append(probs, "the tee keeps no read error to consult")
		} else if parse == nil {
			probs = append(probs, "no call of the stream parser found")
		} else {
			// loads of the field through the scraper's reader, after parsing
			terms := map[string]bool{}
			for _, in := range allInstrs(ps) {
				u, ok := in.(*ssa.UnOp)
				if !ok || u.Op != token.MUL {
					continue
				}
				fa, ok := u.X.(*ssa.FieldAddr)
				if !ok || engine.FieldOf(fa) != latch {
					continue
				}
				if _, ok := loadOfField(fa.X, fReader); !ok {
					continue
				}
				if engine.InstrDominates(parse, u) {
					terms[pfi.T(u).S] = true
				}
			}
			if len(terms) == 0 {
				probs = append(probs, "the tee's stored read error is never looked at after parsing")
			}
			nonNilCtor := func(v ssa.Value, blk *ssa.BasicBlock) bool {
				call, ok := v.(*ssa.Call)
				if !ok {
					return false
				}
				c := call.Common()
				if engine.CalleeIs(c, "fmt", "", "Errorf") || engine.CalleeIs(c, "errors", "", "New") || engine.CalleeIs(c, "github.com/pkg/errors", "", "New") || engine.CalleeIs(c, "github.com/pkg/errors", "", "Errorf") {
					return true
				}
				for _, n := range []string{"Wrap", "Wrapf", "WithMessage", "WithMessagef", "WithStack"} {
					if engine.CalleeIs(c, "github.com/pkg/errors", "", n) {
						ok, _ := pfi.Implies(blk, engine.Not(engine.EqAtom(pfi.T(c.Args[0]).S, "nil")))
						return ok
					}
				}
				return false
			}
			for _, ret := range returnsOf(ps) {
				v := returnedValue(ret, 0)
				if nonNilCtor(v, ret.Block()) {
					continue
				}
				vt := pfi.T(v).S
				okRet := false
				for t := range terms {
					want := engine.Or(engine.Not(engine.EqAtom(vt, "nil")), engine.EqAtom(t, "nil"))
					if ok, _ := pfi.Implies(ret.Block(), want); ok {
						okRet = true
					}
				}
				if !okRet {
					probs = append(probs, "the return at "+p.Rel(ret.Pos())+" can report success while the tee holds a read error")
				}
			}
		}
		r.Check(len(probs) == 0, "R13.8-read-failure-reported", "read error consulted by ParseResponse", engine.FuncName(ps)+" ("+p.Rel(ps.Pos())+")", need2, strings.Join(probs, "; "))
	}
}
