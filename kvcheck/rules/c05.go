package rules

import (
	"fmt"
	"go/constant"
	"os"
	"path/filepath"
	"regexp"
	"strconv"
	"strings"

	"golang.org/x/tools/go/ssa"

	"kvcheck/engine"
)

func init() {
	register(&Rule{ID: "C05", Run: runC05, Controls: controlsC05,
		Explanation: "Structural necessary conditions of 'a moving target stays on its source until the destination has scraped it': " +
			"R5.1/R5.2 the removal of an in-transfer copy (the delete justified by 'own in-transfer, other normal') is dominated by own.ScrapeTimes ≥ N and other.ScrapeTimes ≥ N on the right entries, N = the documented hand-over count parsed from README.md ('at least 3 times'); " +
			"R5.3 the move helper copies the source entry before it marks the source in-transfer, places the copy, never deletes, and is only called for entries in normal state; " +
			"R5.4 the sidecar's only store of 0 to ScrapeTimes is guarded by (status entry's old state normal ∧ requested state in-transfer), read before the state is overwritten; " +
			"R5.5 the posted target's TargetState is taken from the planned entry. " +
			"Not decided: multi-cycle histories of the counters (the counting itself is C13 R13.2).",
		Assumptions: []string{"go/types and go/ssa are correct", "README.md documents the hand-over count; fallback 3 when the sentence is missing"}})
}

// documentedHandover parses "at least N times" from the README's transfer section.
func documentedHandover(repo string) (int64, string) {
	b, err := os.ReadFile(filepath.Join(repo, "README.md"))
	if err != nil {
		return 3, "README.md unreadable, fallback 3"
	}
	s := string(b)
	if i := strings.Index(s, "## Targets transfer"); i >= 0 {
		s = s[i:]
		if j := strings.Index(s[3:], "\n## "); j >= 0 {
			s = s[:j+3]
		}
	}
	m := regexp.MustCompile(`(?i)scraped by both shards for at least (\d+) times`).FindStringSubmatch(s)
	if m == nil {
		return 3, "sentence not found in README.md, fallback 3"
	}
	n, _ := strconv.ParseInt(m[1], 10, 64)
	return n, "README.md: \"" + m[0] + "\""
}

func runC05(p *engine.Prog, r *engine.Report) {
	c := newCoord(p)
	fTgtState := p.Field(pkgTarget, "Target", "TargetState")
	fTgtHash := p.Field(pkgTarget, "Target", "Hash")
	if len(p.Problems) > 0 {
		return
	}
	N, src := documentedHandover(p.RepoDir)
	r.Analysed["documented_handover_count"] = N
	r.Analysed["documented_handover_source"] = src
	r.Min("R5.2-handover-guard", 1)
	r.Min("R5.3-one-step-move", 2)
	r.Min("R5.4-counter-restart", 1)
	r.Min("R5.5-mark-posted", 1)

	// ---- R5.1/R5.2: the hand-over delete
	nH := 0
	for _, del := range c.mapDeletes {
		fn := del.Parent()
		fi := p.Info(fn)
		s, _ := loadOfField(del.Call.Args[0], c.fScraping)
		st, kt := fi.T(s).S, fi.T(del.Call.Args[1]).S
		for _, b := range fn.Blocks {
			for _, in := range b.Instrs {
				lk, ok := in.(*ssa.Lookup)
				if !ok || fi.T(lk.Index).S != kt {
					continue
				}
				o, ok := loadOfField(lk.X, c.fScraping)
				if !ok || fi.T(o).S == st {
					continue
				}
				oe := ownBase(fi, lk)
				se := fi.ElemPath(fi.FieldPath(st, del, c.fScraping), c.fScraping.Type(), kt, lk)
				j2a := engine.And(engine.EqAtom(fi.FieldPath(se, lk, c.fState), `"in_transfer"`), engine.EqAtom(fi.FieldPath(oe, lk, c.fState), `""`))
				for _, site := range c.decisionSites(del) {
					if ok, _ := site.implies(fi, j2a); !ok {
						continue
					}
					nH++
					ck := fmt.Sprintf("hand-over delete#%d in %s", nH, engine.FuncName(fn))
					own := engine.Sym(fi.FieldPath(se, lk, c.fTimes))
					oth := engine.Sym(fi.FieldPath(oe, lk, c.fTimes))
					needOwn := engine.Not(engine.LtAtom(own, engine.Int(N)))
					needOth := engine.Not(engine.LtAtom(oth, engine.Int(N)))
					okOwn, have := site.implies(fi, needOwn)
					okOth, have2 := site.implies(fi, needOth)
					r.Check(okOwn, "R5.2-handover-guard", ck+": source count", "removal of the in-transfer copy at "+c.at(del),
						fmt.Sprintf("source's own ScrapeTimes ≥ %d (%s)", N, src), "path condition: "+strings.Join(have, " ∧ "))
					r.Check(okOth, "R5.2-handover-guard", ck+": destination count", "removal of the in-transfer copy at "+c.at(del),
						fmt.Sprintf("destination's ScrapeTimes ≥ %d (%s)", N, src), "path condition: "+strings.Join(have2, " ∧ "))
				}
			}
		}
	}

	// ---- R5.3: the move helper
	for i, mw := range c.mapWrites {
		fn := mw.Parent()
		d, _ := loadOfField(mw.Map, c.fScraping)
		if _, isParam := d.(*ssa.Parameter); !isParam {
			continue
		}
		fi := p.Info(fn)
		ck := fmt.Sprintf("move helper %s (placement#%d)", engine.FuncName(fn), i+1)
		var probs []string
		al, ok := mw.Value.(*ssa.Alloc)
		var copyLoad *ssa.UnOp
		var srcEntry ssa.Value
		if !ok {
			probs = append(probs, "the destination receives "+fi.T(mw.Value).S+", not a fresh copy of the source entry")
		} else if sv := singleStoreOf(al); sv != nil {
			if u, ok := sv.(*ssa.UnOp); ok {
				copyLoad = u
				srcEntry = u.X
			}
		}
		if ok && copyLoad == nil {
			probs = append(probs, "the placed object is not a whole copy of one entry")
		}
		nMark := 0
		for _, b := range fn.Blocks {
			for _, in := range b.Instrs {
				switch in := in.(type) {
				case *ssa.Store:
					fa, ok := in.Addr.(*ssa.FieldAddr)
					if !ok || engine.FieldOf(fa) != c.fState {
						continue
					}
					if srcEntry != nil && fi.T(fa.X).S == fi.T(srcEntry).S {
						nMark++
						cst, ok := in.Val.(*ssa.Const)
						if !ok || cst.Value == nil || cst.Value.Kind() != constant.String || constant.StringVal(cst.Value) != "in_transfer" {
							probs = append(probs, "the source entry is marked with "+fi.T(in.Val).S+", not the in-transfer constant")
						}
						if copyLoad != nil && !engine.InstrDominates(copyLoad, in) {
							probs = append(probs, "the source is marked in-transfer before the copy for the destination is taken (the destination would start in-transfer)")
						}
					} else if al != nil && fa.X == ssa.Value(al) {
						probs = append(probs, "the destination copy's state is overwritten")
					}
				case *ssa.Call:
					if bi, ok := in.Call.Value.(*ssa.Builtin); ok && bi.Name() == "delete" {
						probs = append(probs, "the move helper deletes from a map")
					}
				}
			}
		}
		if srcEntry != nil && nMark != 1 {
			probs = append(probs, fmt.Sprintf("%d stores mark the source entry in-transfer (want exactly 1)", nMark))
		}
		r.Check(len(probs) == 0, "R5.3-one-step-move", ck, "move helper at "+c.at(mw), "copy source entry → mark source in-transfer → place the copy; no removal", strings.Join(probs, "; "))
		// call sites: the moved entry is in normal state
		fromIdx, keyIdx := -1, -1
		if lk, ok := srcEntry.(*ssa.Lookup); ok {
			if fb, ok := loadOfField(lk.X, c.fScraping); ok {
				fromIdx, keyIdx = paramIndex(fn, fb), paramIndex(fn, lk.Index)
			}
		}
		if fromIdx < 0 || keyIdx < 0 {
			continue
		}
		for _, caller := range c.funcs {
			cfi := p.Info(caller)
			for _, b := range caller.Blocks {
				for _, in := range b.Instrs {
					ci, ok := in.(ssa.CallInstruction)
					if !ok || ci.Common().StaticCallee() != fn {
						continue
					}
					args := ci.Common().Args
					e := cfi.ElemPath(cfi.FieldPath(cfi.T(args[fromIdx]).S, ci, c.fScraping), c.fScraping.Type(), cfi.T(args[keyIdx]).S, ci)
					need := engine.EqAtom(cfi.FieldPath(e, ci, c.fState), `""`)
					ok2, have := cfi.Implies(ci.Block(), need)
					r.Check(ok2, "R5.3-one-step-move", fmt.Sprintf("call#%d of %s in %s: source entry normal", countCallsBefore(caller, fn, ci)+1, engine.FuncName(fn), engine.FuncName(caller)),
						"move at "+c.at(ci), "only entries in normal state are moved (so the destination copy is normal and a pending move is not restarted)", "path condition: "+strings.Join(have, " ∧ "))
				}
			}
		}
	}

	// ---- R5.4: counter restart in the sidecar (stores of the constant 0 to ScrapeTimes anywhere)
	nR := 0
	for _, fn := range p.Funcs {
		fi := p.Info(fn)
		for _, b := range fn.Blocks {
			for _, in := range b.Instrs {
				st, ok := in.(*ssa.Store)
				if !ok {
					continue
				}
				fa, ok := st.Addr.(*ssa.FieldAddr)
				if !ok || engine.FieldOf(fa) != c.fTimes {
					continue
				}
				cst, ok := st.Val.(*ssa.Const)
				if !ok || cst.Value == nil || constant.Sign(cst.Value) != 0 {
					continue // increments are C13's
				}
				nR++
				ck := fmt.Sprintf("reset#%d in %s", nR, engine.FuncName(fn))
				e := fa.X
				var probs []string
				old := engine.EqAtom(fi.FieldPath(fi.T(e).S, st, c.fState), `""`)
				if ok, have := fi.Implies(st.Block(), old); !ok {
					probs = append(probs, "not guarded by the status entry's own (old) state being normal: "+strings.Join(nonStructural(have), " ∧ "))
				}
				// requested state: the *target.Target whose Hash keys the entry
				reqOK := false
				var keyV ssa.Value
				if lk, ok := e.(*ssa.Lookup); ok {
					keyV = lk.Index
				} else if e.Referrers() != nil {
					// the entry was chosen into a variable first; it is the entry of the hash it is stored under
					for _, rr := range *e.Referrers() {
						if mu, ok := rr.(*ssa.MapUpdate); ok && mu.Value == e {
							keyV = mu.Key
						}
					}
				}
				if keyV != nil {
					if req, ok := loadOfField(keyV, fTgtHash); ok {
						need := engine.EqAtom(fi.FieldPath(fi.T(req).S, st, fTgtState), `"in_transfer"`)
						if ok, _ := fi.Implies(st.Block(), need); ok {
							reqOK = true
						}
					}
				}
				if !reqOK {
					probs = append(probs, "not guarded by the requested state of the same target being in-transfer")
				}
				// the old state is read before it is overwritten
				for _, b2 := range fn.Blocks {
					for _, in2 := range b2.Instrs {
						if s2, ok := in2.(*ssa.Store); ok {
							if fa2, ok := s2.Addr.(*ssa.FieldAddr); ok && engine.FieldOf(fa2) == c.fState && engine.InstrDominates(s2, st) {
								probs = append(probs, "the entry's state is overwritten (at "+p.Rel(s2.Pos())+") before the restart decision")
							}
						}
					}
				}
				// exactness: no further data condition
				for _, g := range fi.Guards(st.Block()) {
					if engine.IsStructuralLiteral(g) || strings.Contains(g, "."+c.fState.Name()) || strings.Contains(g, "."+fTgtState.Name()) {
						continue
					}
					if strings.HasPrefix(g, "¬eq(") && strings.Contains(g, "nil") {
						continue
					}
					probs = append(probs, "additional condition "+g)
				}
				r.Check(len(probs) == 0, "R5.4-counter-restart", ck, "store of 0 to ScrapeStatus.ScrapeTimes at "+engine.FuncName(fn)+" ("+p.Rel(st.Pos())+")",
					"exactly when the status entry's old state is normal and the requested state is in-transfer", strings.Join(probs, "; "))
			}
		}
	}

	// ---- R5.5: posted state taken from the planned entry
	for _, fn := range c.funcs {
		fi := p.Info(fn)
		for _, b := range fn.Blocks {
			for _, in := range b.Instrs {
				mu, ok := in.(*ssa.MapUpdate)
				if !ok {
					continue
				}
				x, ok := c.postedListOwner(mu)
				if !ok {
					continue
				}
				// appended element(s)
				var probs []string
				call, ok := mu.Value.(*ssa.Call)
				var elems []ssa.Value
				if ok {
					if bi, ok := call.Call.Value.(*ssa.Builtin); ok && bi.Name() == "append" {
						elems = varargElems(call.Call.Args[1])
					}
				}
				if len(elems) == 0 {
					probs = append(probs, "the posted list is not built by appending targets")
				}
				for _, e := range elems {
					al, ok := e.(*ssa.Alloc)
					if !ok {
						probs = append(probs, "the appended target is shared ("+fi.T(e).S+"), its state cannot be set per shard")
						continue
					}
					found := false
					for _, rr := range *al.Referrers() {
						fa, ok := rr.(*ssa.FieldAddr)
						if !ok || engine.FieldOf(fa) != fTgtState {
							continue
						}
						for _, r2 := range *fa.Referrers() {
							s2, ok := r2.(*ssa.Store)
							if !ok || s2.Addr != fa {
								continue
							}
							ent, ok := loadOfField(s2.Val, c.fState)
							if !ok {
								probs = append(probs, "TargetState is set from "+fi.T(s2.Val).S)
								continue
							}
							// the entry must be an element of the same shard's planned set
							want := fi.T(x).S + "." + c.fScraping.Name()
							if strings.HasPrefix(fi.T(ent).S, want) && engine.InstrDominates(s2, mu) {
								found = true
							} else {
								probs = append(probs, "TargetState is taken from "+fi.T(ent).S+", not from an entry of "+want)
							}
						}
					}
					if !found && len(probs) == 0 {
						probs = append(probs, "the posted target's TargetState is never set from the planned entry")
					}
				}
				r.Check(len(probs) == 0, "R5.5-mark-posted", "posted target in "+engine.FuncName(fn), "posted-list update at "+c.at(mu),
					"posted Target.TargetState = planned entry's TargetState (so the in-transfer mark reaches the sidecar)", strings.Join(probs, "; "))
			}
		}
	}
}

func nonStructural(lits []string) []string {
	var out []string
	for _, l := range lits {
		if !engine.IsStructuralLiteral(l) {
			out = append(out, l)
		}
	}
	return out
}

func controlsC05(p *engine.Prog) []Control { return nil }
