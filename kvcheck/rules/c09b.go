package rules

import (
	"fmt"
	"go/constant"
	"go/token"

	"golang.org/x/tools/go/ssa"

)

// everyFeasiblePathPasses decides, over the simple paths of fn from the entry to block dst, that each one either takes the
// true edge of a branch on one of the calls in `tests`, or is infeasible. Feasibility is decided along one path at a time:
// φ-nodes are resolved by the edge taken, branch conditions over boolean constants, nil comparisons and the nil-ness facts
// collected on the path are evaluated (errors.Wrap*(x) is nil iff x is nil). Anything else is taken as feasible, so the
// answer "true" is sound; the number of paths is capped and the cap answers "false".
func everyFeasiblePathPasses(fn *ssa.Function, dst *ssa.BasicBlock, tests []*ssa.Call) (bool, string) {
	if len(fn.Blocks) == 0 {
		return false, "no body"
	}
	isTest := map[ssa.Value]bool{}
	for _, t := range tests {
		isTest[t] = true
	}
	type state struct {
		phi   map[*ssa.Phi]ssa.Value
		truth map[ssa.Value]bool // boolean values decided on the path
		isNil map[ssa.Value]bool // nil-ness decided on the path
	}
	var resolve func(st *state, v ssa.Value) ssa.Value
	resolve = func(st *state, v ssa.Value) ssa.Value {
		for i := 0; i < 20; i++ {
			switch x := v.(type) {
			case *ssa.Phi:
				if in, ok := st.phi[x]; ok {
					v = in
					continue
				}
			case *ssa.ChangeInterface:
				v = x.X
				continue
			}
			break
		}
		return v
	}
	var nilness func(st *state, v ssa.Value, d int) (known, isnil bool)
	nilness = func(st *state, v ssa.Value, d int) (bool, bool) {
		v = resolve(st, v)
		if d > 10 {
			return false, false
		}
		if n, ok := st.isNil[v]; ok {
			return true, n
		}
		switch x := v.(type) {
		case *ssa.Const:
			if x.Value == nil {
				return true, true
			}
		case *ssa.MakeInterface, *ssa.Alloc, *ssa.MakeClosure, *ssa.MakeMap, *ssa.MakeChan:
			return true, false
		case *ssa.Call:
			if wrapsErr(x) && len(x.Call.Args) > 0 {
				return nilness(st, x.Call.Args[0], d+1)
			}
		}
		return false, false
	}
	var eval func(st *state, v ssa.Value, d int) (known, val bool)
	eval = func(st *state, v ssa.Value, d int) (bool, bool) {
		v = resolve(st, v)
		if d > 10 {
			return false, false
		}
		if b, ok := st.truth[v]; ok {
			return true, b
		}
		switch x := v.(type) {
		case *ssa.Const:
			if x.Value != nil && x.Value.Kind() == constant.Bool {
				return true, constant.BoolVal(x.Value)
			}
		case *ssa.UnOp:
			if x.Op == token.NOT {
				k, b := eval(st, x.X, d+1)
				return k, !b
			}
		case *ssa.BinOp:
			if x.Op == token.EQL || x.Op == token.NEQ {
				var other ssa.Value
				if c, ok := x.X.(*ssa.Const); ok && c.Value == nil {
					other = x.Y
				} else if c, ok := x.Y.(*ssa.Const); ok && c.Value == nil {
					other = x.X
				}
				if other != nil {
					if k, n := nilness(st, other, d+1); k {
						return true, n == (x.Op == token.EQL)
					}
				}
			}
		}
		return false, false
	}
	record := func(st *state, cond ssa.Value, taken bool) {
		cond = resolve(st, cond)
		st.truth[cond] = taken
		for {
			u, ok := cond.(*ssa.UnOp)
			if !ok || u.Op != token.NOT {
				break
			}
			cond, taken = resolve(st, u.X), !taken
			st.truth[cond] = taken
		}
		if x, ok := cond.(*ssa.BinOp); ok && (x.Op == token.EQL || x.Op == token.NEQ) {
			var other ssa.Value
			if c, ok := x.X.(*ssa.Const); ok && c.Value == nil {
				other = x.Y
			} else if c, ok := x.Y.(*ssa.Const); ok && c.Value == nil {
				other = x.X
			}
			if other != nil {
				st.isNil[resolve(st, other)] = taken == (x.Op == token.EQL)
			}
		}
	}
	clone := func(st *state) *state {
		n := &state{phi: map[*ssa.Phi]ssa.Value{}, truth: map[ssa.Value]bool{}, isNil: map[ssa.Value]bool{}}
		for k, v := range st.phi {
			n.phi[k] = v
		}
		for k, v := range st.truth {
			n.truth[k] = v
		}
		for k, v := range st.isNil {
			n.isNil[k] = v
		}
		return n
	}
	paths := 0
	var bad string
	onPath := map[*ssa.BasicBlock]bool{}
	var walk func(b *ssa.BasicBlock, st *state, trail []int) bool
	walk = func(b *ssa.BasicBlock, st *state, trail []int) bool {
		if b == dst {
			paths++
			bad = "a feasible path reaches the decode without a not-exist result for the store file: blocks " + fmt.Sprint(trail)
			return false
		}
		if paths > 20000 || len(trail) > 400 {
			bad = "too many paths"
			return false
		}
		if !blockReaches(b, dst) {
			return true
		}
		onPath[b] = true
		defer func() { onPath[b] = false }()
		for si, s := range b.Succs {
			if onPath[s] {
				continue // a path that comes back is covered by the shorter one
			}
			ns := clone(st)
			if ifi, ok := b.Instrs[len(b.Instrs)-1].(*ssa.If); ok {
				taken := si == 0
				if k, v := eval(ns, ifi.Cond, 0); k && v != taken {
					continue // infeasible
				}
				if taken && isTest[resolve(ns, ifi.Cond)] {
					continue // satisfied
				}
				record(ns, ifi.Cond, taken)
			}
			// resolve the φ-nodes of s for the edge b -> s
			pi := -1
			for i, p := range s.Preds {
				if p == b {
					pi = i
				}
			}
			for _, in := range s.Instrs {
				ph, ok := in.(*ssa.Phi)
				if !ok {
					break
				}
				if pi >= 0 {
					ns.phi[ph] = resolve(ns, ph.Edges[pi])
				}
			}
			if !walk(s, ns, append(trail, s.Index)) {
				return false
			}
		}
		return true
	}
	st := &state{phi: map[*ssa.Phi]ssa.Value{}, truth: map[ssa.Value]bool{}, isNil: map[ssa.Value]bool{}}
	if walk(fn.Blocks[0], st, []int{0}) {
		return true, ""
	}
	return false, bad
}
