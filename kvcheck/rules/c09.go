package rules

import (
	"fmt"
	"go/token"
	"go/types"
	"reflect"
	"strings"

	"golang.org/x/tools/go/ssa"

	"kvcheck/engine"
)

func init() {
	register(&Rule{ID: "C09", Run: runC09, Controls: controlsC09,
		Explanation: "Structural necessary conditions of 'a sidecar resumes its acknowledged assignment after restart or crash', decided on pkg/sidecar: " +
			"R9.1 atomic-replace typestate: the store path (storeDir joined with the store file name) is never handed to a truncating writer (WriteFile, Create, OpenFile with write flags); it is only the destination of os.Rename whose source is a temp file created in the same directory, and on every path from the creation to the rename the marshalled data is written and the file closed, with the error of every fallible operation on the file (or on writers wrapping it) checked; " +
			"R9.2 acknowledge after save: every return of UpdateTargets that can be nil is the (wrapped) result of the saver, every nil return of the saver passes the rename, and the HTTP handler answers success only under err = nil; " +
			"R9.3 what is persisted: Marshal and Unmarshal operate on the manager's own TargetsInfo; its Targets and IdleAt fields and every field of target.Target are exported without a '-' tag; " +
			"R9.4 Load registers the status/idle rebuild (UpdateTargets) before any return; R9.5 nothing but the saver's temp file is ever removed, truncated or renamed away (the old-version store stays until it has been replaced); R9.6 the old-version store is decoded only when reading the store path failed with a not-exist error. " +
			"Not decided: byte-level content, file-system semantics beyond the atomicity of rename within a directory.",
		Assumptions: []string{"go/types and go/ssa are correct", "os.Rename within one directory replaces the destination atomically", "errors.Wrap*(nil) = nil (reviewed in the pinned github.com/pkg/errors)"}})
}

// returnedValue resolves result idx of a Return through the named-result cell it is loaded from.
func returnedValue(ret *ssa.Return, idx int) ssa.Value {
	v := ret.Results[idx]
	u, ok := v.(*ssa.UnOp)
	if !ok || u.Op != token.MUL {
		return v
	}
	al, ok := u.X.(*ssa.Alloc)
	if !ok {
		return v
	}
	b := ret.Block()
	for depth := 0; depth < 4 && b != nil; depth++ {
		for i := len(b.Instrs) - 1; i >= 0; i-- {
			if st, ok := b.Instrs[i].(*ssa.Store); ok && st.Addr == ssa.Value(al) {
				// "return err" of a named result stores the variable to itself: look further back
				if u2, ok := st.Val.(*ssa.UnOp); ok && u2.X == ssa.Value(al) {
					continue
				}
				return st.Val
			}
		}
		if len(b.Preds) != 1 {
			break
		}
		b = b.Preds[0]
	}
	return v
}

func returnsOf(fn *ssa.Function) []*ssa.Return {
	var out []*ssa.Return
	for _, b := range fn.Blocks {
		if b == fn.Recover {
			continue
		}
		if ret, ok := b.Instrs[len(b.Instrs)-1].(*ssa.Return); ok {
			out = append(out, ret)
		}
	}
	return out
}

func isErrorType(t types.Type) bool {
	n, ok := t.(*types.Named)
	return ok && n.Obj().Pkg() == nil && n.Obj().Name() == "error"
}

// errResultOf returns the formula "call's error result is nil" and whether the call returns an error.
func errResultNil(fi *engine.FuncInfo, call *ssa.Call) (*engine.Formula, bool) {
	res := call.Call.Signature().Results()
	if res.Len() == 0 || !isErrorType(res.At(res.Len()-1).Type()) {
		return nil, false
	}
	if res.Len() == 1 {
		return engine.EqAtom(fi.T(call).S, "nil"), true
	}
	return engine.EqAtom(fmt.Sprintf("%s.%d", fi.T(call).S, res.Len()-1), "nil"), true
}

func runC09(p *engine.Prog, r *engine.Report) {
	fStoreDir := p.Field(pkgSide, "TargetsManager", "storeDir")
	fTargets := p.Field(pkgSide, "TargetsManager", "targets")
	gStoreFile := p.Object(pkgSide, "storeFileName")
	mUpdate := p.Method(pkgSide, "TargetsManager", "UpdateTargets")
	mLoad := p.Method(pkgSide, "TargetsManager", "Load")
	tInfo := p.Named(pkgSide, "TargetsInfo")
	tTarget := p.Named(pkgTarget, "Target")
	if len(p.Problems) > 0 {
		return
	}
	r.Min("R9.1-atomic-replace", 2)
	r.Min("R9.2-ack-after-save", 3)
	r.Min("R9.3-persisted-fields", 3)
	r.Min("R9.4-rebuild-after-load", 1)
	r.Min("R9.6-old-store-fallback", 1)
	var side []*ssa.Function
	for _, fn := range p.Funcs {
		if engine.InPkg(fn, pkgSide) {
			side = append(side, fn)
		}
	}
	// store-path role: value is path.Join/filepath.Join(storeDir, storeFileName) or a call of a function returning exactly that
	isJoinOfStore := func(fi *engine.FuncInfo, v ssa.Value) bool {
		call, ok := v.(*ssa.Call)
		if !ok {
			return false
		}
		if !(engine.CalleeIs(call.Common(), "path", "", "Join") || engine.CalleeIs(call.Common(), "path/filepath", "", "Join")) {
			return false
		}
		elems := varargElems(call.Call.Args[0])
		hasDir, hasName := false, false
		for _, e := range elems {
			if _, ok := loadOfField(e, fStoreDir); ok {
				hasDir = true
			}
			if u, ok := e.(*ssa.UnOp); ok {
				if g, ok := u.X.(*ssa.Global); ok && g.Object() == gStoreFile {
					hasName = true
				}
			}
		}
		return hasDir && hasName
	}
	storePathFns := map[*ssa.Function]bool{}
	for _, fn := range side {
		rets := returnsOf(fn)
		if len(rets) != 1 || len(rets[0].Results) != 1 {
			continue
		}
		if isJoinOfStore(p.Info(fn), rets[0].Results[0]) {
			storePathFns[fn] = true
		}
	}
	isStorePath := func(fi *engine.FuncInfo, v ssa.Value) bool {
		if isJoinOfStore(fi, v) {
			return true
		}
		if call, ok := v.(*ssa.Call); ok && call.Call.StaticCallee() != nil && storePathFns[call.Call.StaticCallee()] {
			return true
		}
		return false
	}

	// ---- R9.1
	var savers []*ssa.Function
	nSink := 0
	for _, fn := range side {
		fi := p.Info(fn)
		for _, in := range allInstrs(fn) {
			call, ok := in.(*ssa.Call)
			if !ok {
				continue
			}
			c := call.Common()
			trunc := engine.CalleeIs(c, "io/ioutil", "", "WriteFile") || engine.CalleeIs(c, "os", "", "WriteFile") || engine.CalleeIs(c, "os", "", "Create") || engine.CalleeIs(c, "os", "", "OpenFile")
			if trunc && len(c.Args) > 0 && isStorePath(fi, c.Args[0]) {
				if engine.CalleeIs(c, "os", "", "OpenFile") {
					if fl := fi.T(c.Args[1]); fl.IsConst() && fl.K&0x3 == 0 {
						continue // read only
					}
				}
				nSink++
				r.Add("R9.1-atomic-replace", fmt.Sprintf("truncating write#%d in %s", nSink, engine.FuncName(fn)), "call of "+engine.CalleeObj(c).FullName()+" on the store path at "+engine.FuncName(fn)+" ("+p.Rel(call.Pos())+")",
					"the store file is never truncated in place (a crash or failed write would leave an empty or partial store that the next start cannot load)", "truncate-then-write on the store path", engine.Violated)
			}
			if engine.CalleeIs(c, "os", "", "Rename") && len(c.Args) == 2 && isStorePath(fi, c.Args[1]) {
				savers = append(savers, fn)
				checkRename(p, r, fn, call, fStoreDir, fTargets)
			}
		}
	}
	if len(savers) == 0 {
		r.Add("R9.1-atomic-replace", "rename onto the store path", "pkg/sidecar", "the store is replaced by os.Rename(temp file in the store directory, store path)", "no such rename found", engine.Violated)
	}
	r.Add("R9.1-atomic-replace", "truncating sinks on the store path", "pkg/sidecar: WriteFile/Create/OpenFile call sites", "none receives the store path", fmt.Sprintf("%d found", nSink), engine.Discharged)

	// ---- R9.5: nothing but the saver's own temp file is ever removed or renamed away in pkg/sidecar
	{
		var probs []string
		n := 0
		for _, fn := range side {
			fi := p.Info(fn)
			for _, in := range allInstrs(fn) {
				ci, ok := in.(ssa.CallInstruction)
				if !ok {
					continue
				}
				c := ci.Common()
				isRm := engine.CalleeIs(c, "os", "", "Remove") || engine.CalleeIs(c, "os", "", "RemoveAll") || engine.CalleeIs(c, "os", "", "Truncate")
				isMv := engine.CalleeIs(c, "os", "", "Rename")
				if !isRm && !isMv {
					continue
				}
				n++
				src := fi.T(c.Args[0]).S
				if !strings.HasPrefix(src, "call (*os.File).Name(call io/ioutil.TempFile(") && !strings.HasPrefix(src, "call (*os.File).Name(call os.CreateTemp(") {
					probs = append(probs, engine.CalleeObj(c).FullName()+" on "+short(src)+" at "+p.Rel(ci.Pos())+" (a persisted assignment must not be deleted or moved away; only the saver's temp file may)")
				}
			}
		}
		r.Check(len(probs) == 0, "R9.5-no-store-removal", "removals and renames in pkg/sidecar", fmt.Sprintf("%d os.Remove/Rename/Truncate call sites", n), "only the temp file created by the saver is removed or renamed", strings.Join(probs, "; "))
	}

	// ---- R9.2
	isSaver := func(f *ssa.Function) bool {
		for _, s := range savers {
			if s == f {
				return true
			}
		}
		return false
	}
	// saver: every return that can be nil passes the rename
	for _, sv := range savers {
		fi := p.Info(sv)
		for i, ret := range returnsOf(sv) {
			v := returnedValue(ret, 0)
			ck := fmt.Sprintf("saver %s return#%d", engine.FuncName(sv), i+1)
			ok, why := false, ""
			switch x := unwrapErr(v).(type) {
			case *ssa.Call:
				if engine.CalleeIs(x.Common(), "os", "", "Rename") {
					ok, why = true, "returns the rename's result"
				}
			}
			if !ok {
				if isNilConst(v) {
					// must be dominated by a rename whose error is nil on the path
					for _, in := range allInstrs(sv) {
						if call, ok2 := in.(*ssa.Call); ok2 && engine.CalleeIs(call.Common(), "os", "", "Rename") && engine.InstrDominates(call, ret) {
							if okk, _ := fi.Implies(ret.Block(), engine.EqAtom(fi.T(call).S, "nil")); okk {
								ok, why = true, "after a successful rename"
							}
						}
					}
					if !ok {
						why = "returns nil without having replaced the store (an update would be acknowledged but not persisted)"
					}
				} else {
					if nonNilErrAt(fi, v, ret.Block(), 0) {
						ok, why = true, "error return"
					} else {
						why = "returns " + fi.T(v).S + " which is not known to be non-nil and is not the rename's result"
					}
				}
			}
			r.Check(ok, "R9.2-ack-after-save", ck, "return at "+engine.FuncName(sv)+" ("+p.Rel(ret.Pos())+")", "nil only after the rename succeeded", why)
		}
	}
	if up := p.SSAFunc(mUpdate); up != nil {
		fi := p.Info(up)
		for i, ret := range returnsOf(up) {
			v := returnedValue(ret, 0)
			ck := fmt.Sprintf("UpdateTargets return#%d", i+1)
			ok, why := false, "returns "+fi.T(v).S
			inner := v
			if call, okc := v.(*ssa.Call); okc {
				c := call.Common()
				if engine.CalleeIs(c, "github.com/pkg/errors", "", "Wrapf") || engine.CalleeIs(c, "github.com/pkg/errors", "", "Wrap") || engine.CalleeIs(c, "github.com/pkg/errors", "", "WithStack") || engine.CalleeIs(c, "github.com/pkg/errors", "", "WithMessage") {
					inner = c.Args[0]
				}
			}
			if call, okc := inner.(*ssa.Call); okc && call.Call.StaticCallee() != nil && isSaver(call.Call.StaticCallee()) {
				ok, why = true, "the (wrapped) result of the saver"
			} else if isNilConst(inner) {
				for _, in := range allInstrs(up) {
					if call, ok2 := in.(*ssa.Call); ok2 && call.Call.StaticCallee() != nil && isSaver(call.Call.StaticCallee()) && engine.InstrDominates(call, ret) {
						if okk, _ := fi.Implies(ret.Block(), engine.EqAtom(fi.T(call).S, "nil")); okk {
							ok, why = true, "nil after a successful save"
						}
					}
				}
				if !ok {
					why = "acknowledges (nil) without the assignment having been saved"
				}
			} else {
				nn := engine.Not(engine.EqAtom(fi.T(inner).S, "nil"))
				if okk, _ := fi.Implies(ret.Block(), nn); okk {
					ok, why = true, "error return"
				}
			}
			r.Check(ok, "R9.2-ack-after-save", ck, "return at "+engine.FuncName(up)+" ("+p.Rel(ret.Pos())+")", "a nil result is the (wrapped) result of the save", why)
		}
		// in-memory assignment is replaced before saving (what is saved is the new assignment)
		{
			fTargetsInfoTargets := p.Field(pkgSide, "TargetsInfo", "Targets")
			fReqTargets := p.Field(pkgShard, "UpdateTargetsRequest", "Targets")
			var inst *ssa.Store
			for _, in := range allInstrs(up) {
				if st, ok := in.(*ssa.Store); ok {
					if fa, ok := st.Addr.(*ssa.FieldAddr); ok && engine.FieldOf(fa) == fTargetsInfoTargets {
						if _, ok := loadOfField(st.Val, fReqTargets); ok {
							inst = st
						}
					}
				}
			}
			var probs []string
			if inst == nil {
				probs = append(probs, "the requested assignment is never installed as the manager's current assignment")
			} else {
				for _, in := range allInstrs(up) {
					if call, ok := in.(*ssa.Call); ok && call.Call.StaticCallee() != nil && isSaver(call.Call.StaticCallee()) && !engine.InstrDominates(inst, call) {
						probs = append(probs, "the store is saved before the requested assignment is installed (the previous assignment would be persisted and acknowledged)")
					}
				}
			}
			r.Check(len(probs) == 0, "R9.2-ack-after-save", "UpdateTargets installs the request", engine.FuncName(up), "t.targets.Targets = req.Targets precedes the save", strings.Join(probs, "; "))
		}
	}
	// HTTP handler
	nH := 0
	for _, ci := range p.CallsTo(mUpdate) {
		fn := ci.Parent()
		if !engine.InPkg(fn, pkgSide) || fn.Parent() != nil || p.SSAFunc(mLoad) == fn {
			continue
		}
		call, ok := ci.(*ssa.Call)
		if !ok {
			continue
		}
		fi := p.Info(fn)
		for _, ret := range returnsOf(fn) {
			if len(ret.Results) != 1 {
				continue
			}
			rc, ok := ret.Results[0].(*ssa.Call)
			if !ok || !engine.CalleeIs(rc.Common(), engine.ModPath+"/pkg/api", "", "Data") || !engine.InstrDominates(call, ret) {
				continue
			}
			nH++
			okk, have := fi.Implies(ret.Block(), engine.EqAtom(fi.T(call).S, "nil"))
			r.Check(okk, "R9.2-ack-after-save", fmt.Sprintf("handler %s success#%d", engine.FuncName(fn), nH), "success answer at "+engine.FuncName(fn)+" ("+p.Rel(ret.Pos())+")", "only when UpdateTargets returned nil", "path condition: "+strings.Join(have, " ∧ "))
		}
	}

	// ---- R9.3
	var marshalT, unmarshalT []string
	for _, fn := range side {
		fi := p.Info(fn)
		for _, in := range allInstrs(fn) {
			call, ok := in.(*ssa.Call)
			if !ok {
				continue
			}
			c := call.Common()
			if engine.CalleeIs(c, "encoding/json", "", "Marshal") || engine.CalleeIs(c, "encoding/json", "Encoder", "Encode") {
				if fa, ok := unwrapIface(c.Args[len(c.Args)-1]).(*ssa.FieldAddr); ok && engine.FieldOf(fa) == fTargets {
					marshalT = append(marshalT, fi.T(fa).S)
				} else if isSaver(fn) {
					r.Add("R9.3-persisted-fields", "marshalled value in "+engine.FuncName(fn), "json.Marshal at "+p.Rel(call.Pos()), "the manager's whole TargetsInfo (&t.targets)", fi.T(c.Args[len(c.Args)-1]).S, engine.Violated)
				}
			}
			if engine.CalleeIs(c, "encoding/json", "", "Unmarshal") && p.SSAFunc(mLoad) == fn {
				dst := unwrapIface(c.Args[1])
				if fa, ok := dst.(*ssa.FieldAddr); ok && engine.FieldOf(fa) == fTargets {
					unmarshalT = append(unmarshalT, fi.T(fa).S)
				} else if fa, ok := dst.(*ssa.FieldAddr); ok && engine.FieldOf(fa).Name() == "Targets" {
					// old-version store: targets only (compatibility path), allowed only under "new store file does not exist"
					continue
				} else {
					r.Add("R9.3-persisted-fields", fmt.Sprintf("unmarshal destination in %s (%s)", engine.FuncName(fn), fi.T(dst).S), "json.Unmarshal at "+p.Rel(call.Pos()),
						"the store is decoded into the manager's own TargetsInfo (so that every persisted field, including the idle-since time, is resumed)", "decoded into "+fi.T(dst).S, engine.Violated)
				}
			}
		}
	}
	r.Check(len(marshalT) >= 1 && len(unmarshalT) >= 1, "R9.3-persisted-fields", "marshal/unmarshal agree", "json.Marshal in the saver, json.Unmarshal in Load",
		"both operate on TargetsManager.targets", fmt.Sprintf("marshal: %v, unmarshal: %v", marshalT, unmarshalT))
	checkJSONFields(r, "R9.3-persisted-fields", tInfo, []string{"Targets", "IdleAt"}, false)
	checkJSONFields(r, "R9.3-persisted-fields", tTarget, nil, true)

	// ---- R9.6: the old-version store is read only as a fallback for a store file that does not exist.
	// A partial decode into the manager's TargetsInfo (the compatibility path: Targets only) must be reached only
	// under "the read of the store path failed with a not-exist error": any other condition (nothing loaded, an
	// empty assignment, a decode error) lets an old file override an assignment that was acknowledged.
	if ld := p.SSAFunc(mLoad); ld != nil {
		fi := p.Info(ld)
		// not-exist tests on the error of a read of the store path
		var notExist []*ssa.Call
		for _, in := range allInstrs(ld) {
			call, ok := in.(*ssa.Call)
			if !ok {
				continue
			}
			c := call.Common()
			var e ssa.Value
			switch {
			case engine.CalleeIs(c, "os", "", "IsNotExist") && len(c.Args) == 1:
				e = c.Args[0]
			case engine.CalleeIs(c, "errors", "", "Is") && len(c.Args) == 2:
				if u, ok := c.Args[1].(*ssa.UnOp); ok {
					if g, ok := u.X.(*ssa.Global); ok && g.Name() == "ErrNotExist" && (g.Pkg.Pkg.Path() == "os" || g.Pkg.Pkg.Path() == "io/fs") {
						e = c.Args[0]
					}
				}
			}
			if e == nil {
				continue
			}
			ex, ok := e.(*ssa.Extract)
			if !ok {
				continue
			}
			rd, ok := ex.Tuple.(*ssa.Call)
			if !ok || len(rd.Call.Args) == 0 || !isErrorType(ex.Type()) {
				continue
			}
			rc := rd.Common()
			isRead := engine.CalleeIs(rc, "io/ioutil", "", "ReadFile") || engine.CalleeIs(rc, "os", "", "ReadFile") ||
				engine.CalleeIs(rc, "os", "", "Open") || engine.CalleeIs(rc, "os", "", "Stat") || engine.CalleeIs(rc, "os", "", "Lstat")
			if isRead && isStorePath(fi, rc.Args[0]) {
				notExist = append(notExist, call)
			}
		}
		nPartial := 0
		for _, in := range allInstrs(ld) {
			call, ok := in.(*ssa.Call)
			if !ok {
				continue
			}
			c := call.Common()
			var dst ssa.Value
			if engine.CalleeIs(c, "encoding/json", "", "Unmarshal") {
				dst = unwrapIface(c.Args[1])
			} else if engine.CalleeIs(c, "encoding/json", "Decoder", "Decode") {
				dst = unwrapIface(c.Args[len(c.Args)-1])
			} else {
				continue
			}
			fa, ok := dst.(*ssa.FieldAddr)
			if !ok || engine.FieldOf(fa) == fTargets {
				continue
			}
			// a field inside t.targets?
			inner, ok := fa.X.(*ssa.FieldAddr)
			if !ok || engine.FieldOf(inner) != fTargets {
				continue
			}
			nPartial++
			okk := false
			var have []string
			for _, ne := range notExist {
				if g, h := fi.Implies(call.Block(), engine.TrueAtom(fi.T(ne).S)); g {
					okk = true
				} else {
					have = h
				}
			}
			why := "path condition: " + strings.Join(have, " ∧ ")
			if !okk && len(notExist) > 0 {
				// the condition may be carried by values merged at a join (a helper's results after expansion): decide path by path
				if g, w := everyFeasiblePathPasses(ld, call.Block(), notExist); g {
					okk = true
				} else {
					why = w + "; " + why
				}
			}
			if len(notExist) == 0 {
				why = "Load has no not-exist test on the error of reading the store path"
			}
			r.Check(okk, "R9.6-old-store-fallback", fmt.Sprintf("old-version decode#%d into %s", nPartial, fi.T(fa).S), "json decode at "+engine.FuncName(ld)+" ("+p.Rel(call.Pos())+")",
				"reached only when reading the store path failed with a not-exist error (an existing store, even an empty one, is never overridden by the old-version file)", why)
		}
		if nPartial == 0 {
			r.Add("R9.6-old-store-fallback", "old-version decode", engine.FuncName(ld), "no partial decode into the manager's TargetsInfo", "none", engine.Discharged)
		}
	}

	// ---- R9.4
	if ld := p.SSAFunc(mLoad); ld != nil {
		var probs []string
		var reg ssa.Instruction
		for _, in := range allInstrs(ld) {
			d, ok := in.(*ssa.Defer)
			if !ok {
				continue
			}
			var body *ssa.Function
			if mc, ok := d.Call.Value.(*ssa.MakeClosure); ok {
				body, _ = mc.Fn.(*ssa.Function)
			} else if sc := d.Call.StaticCallee(); sc != nil {
				body = sc
			}
			if body != nil && (p.SSAFunc(mUpdate) == body || len(callsIn(body, mUpdate)) > 0) {
				reg = d
			}
		}
		if reg == nil {
			// a direct call on every nil-returning path is fine too
			for _, ret := range returnsOf(ld) {
				found := false
				for _, ci := range callsIn(ld, mUpdate) {
					if engine.InstrDominates(ci, ret) {
						found = true
					}
				}
				if !found {
					probs = append(probs, "return at "+p.Rel(ret.Pos())+" is reached without rebuilding status and idle state")
				}
			}
		} else {
			for _, ret := range returnsOf(ld) {
				if !engine.InstrDominates(reg, ret) {
					probs = append(probs, "return at "+p.Rel(ret.Pos())+" precedes the registration of the rebuild")
				}
			}
		}
		r.Check(len(probs) == 0, "R9.4-rebuild-after-load", "Load", engine.FuncName(ld)+" ("+p.Rel(ld.Pos())+")", "every return of Load is followed by UpdateTargets (status map and idle state rebuilt from the loaded targets)", strings.Join(probs, "; "))
	}
}

func unwrapIface(v ssa.Value) ssa.Value {
	for i := 0; i < 4; i++ {
		switch x := v.(type) {
		case *ssa.MakeInterface:
			v = x.X
		case *ssa.ChangeInterface:
			v = x.X
		default:
			return v
		}
	}
	return v
}

// checkRename verifies the write-close-rename typestate for one rename onto the store path.
func checkRename(p *engine.Prog, r *engine.Report, fn *ssa.Function, ren *ssa.Call, fStoreDir, fTargets *types.Var) {
	fi := p.Info(fn)
	ck := "rename in " + engine.FuncName(fn)
	var probs []string
	// source: Name() of a temp file
	var file ssa.Value
	var create *ssa.Call
	if nm, ok := ren.Call.Args[0].(*ssa.Call); ok && engine.CalleeIs(nm.Common(), "os", "File", "Name") {
		if ex, ok := nm.Call.Args[0].(*ssa.Extract); ok && ex.Index == 0 {
			if tc, ok := ex.Tuple.(*ssa.Call); ok && (engine.CalleeIs(tc.Common(), "io/ioutil", "", "TempFile") || engine.CalleeIs(tc.Common(), "os", "", "CreateTemp")) {
				file, create = ex, tc
			}
		}
	}
	if file == nil {
		r.Add("R9.1-atomic-replace", ck, "os.Rename onto the store path at "+engine.FuncName(fn)+" ("+p.Rel(ren.Pos())+")", "the source is the Name() of a temp file created by TempFile/CreateTemp", "source is "+fi.T(ren.Call.Args[0]).S, engine.Violated)
		return
	}
	if _, ok := loadOfField(create.Call.Args[0], fStoreDir); !ok {
		probs = append(probs, "the temp file is created in "+fi.T(create.Call.Args[0]).S+", not in the store directory (rename across directories is not atomic)")
	}
	// values derived from the file: wrappers
	derived := map[ssa.Value]bool{file: true}
	for changed := true; changed; {
		changed = false
		for _, in := range allInstrs(fn) {
			call, ok := in.(*ssa.Call)
			if !ok || derived[call] {
				continue
			}
			for _, a := range call.Call.Args {
				if derived[unwrapIface(a)] && !isErrorOnly(call) {
					// constructor-like: returns a non-error value built from the file
					if call.Call.Signature().Results().Len() >= 1 && !isErrorType(call.Call.Signature().Results().At(0).Type()) && !isBasicResult(call) {
						derived[call] = true
						changed = true
					}
				}
			}
		}
	}
	wrote, closed := false, false
	for _, in := range allInstrs(fn) {
		call, ok := in.(*ssa.Call)
		if !ok || call == create {
			continue
		}
		uses := false
		if call.Call.IsInvoke() && derived[unwrapIface(call.Call.Value)] {
			uses = true
		}
		for _, a := range call.Call.Args {
			if derived[unwrapIface(a)] {
				uses = true
			}
		}
		if !uses {
			continue
		}
		o := engine.CalleeObj(call.Common())
		name := "?"
		if o != nil {
			name = o.Name()
		}
		// only operations that can reach the rename matter
		if !blockReaches(call.Block(), ren.Block()) {
			continue
		}
		if nilF, fallible := errResultNil(fi, call); fallible {
			if ok, _ := fi.ImpliesFrom(call.Block(), ren.Block(), nilF); !ok {
				probs = append(probs, "the error of "+name+" (at "+p.Rel(call.Pos())+") is not checked on a path to the rename")
			}
		}
		switch name {
		case "Write", "WriteString", "Encode", "Copy", "ReadFrom", "Fprint", "Fprintf":
			if fi.MustPass(create, ren, func(x ssa.Instruction) bool { return x == ssa.Instruction(call) }) {
				// the data written must be the marshalled TargetsInfo
				okData := false
				for _, a := range call.Call.Args {
					t := fi.T(unwrapIface(a)).S
					if strings.Contains(t, "encoding/json.Marshal(&") || strings.Contains(t, "."+fTargets.Name()) {
						okData = true
					}
				}
				if okData {
					wrote = true
				}
			}
		case "Close":
			if call.Call.Args[0] == file && fi.MustPass(create, ren, func(x ssa.Instruction) bool {
				c2, ok := x.(*ssa.Call)
				return ok && engine.CalleeIs(c2.Common(), "os", "File", "Close") && c2.Call.Args[0] == file
			}) {
				closed = true
			}
		}
	}
	if !wrote {
		probs = append(probs, "not every path to the rename writes the marshalled assignment to the temp file")
	}
	if !closed {
		probs = append(probs, "not every path to the rename closes the temp file")
	}
	r.Check(len(probs) == 0, "R9.1-atomic-replace", ck, "os.Rename onto the store path at "+engine.FuncName(fn)+" ("+p.Rel(ren.Pos())+")",
		"temp file in the store directory; marshalled assignment written; file closed; every fallible operation on the file checked before the rename", strings.Join(probs, "; "))
}

func isErrorOnly(call *ssa.Call) bool {
	res := call.Call.Signature().Results()
	return res.Len() == 1 && isErrorType(res.At(0).Type())
}

func isBasicResult(call *ssa.Call) bool {
	_, ok := call.Call.Signature().Results().At(0).Type().Underlying().(*types.Basic)
	return ok
}

func blockReaches(a, b *ssa.BasicBlock) bool {
	if a == b {
		return true
	}
	seen := map[*ssa.BasicBlock]bool{}
	var walk func(x *ssa.BasicBlock) bool
	walk = func(x *ssa.BasicBlock) bool {
		if x == b {
			return true
		}
		if seen[x] {
			return false
		}
		seen[x] = true
		for _, s := range x.Succs {
			if walk(s) {
				return true
			}
		}
		return false
	}
	return walk(a)
}

// checkJSONFields: named fields (or all fields) of a struct type are exported and not tagged json:"-".
func checkJSONFields(r *engine.Report, rule string, n *types.Named, fields []string, all bool) {
	st, ok := n.Underlying().(*types.Struct)
	if !ok {
		return
	}
	want := map[string]bool{}
	for _, f := range fields {
		want[f] = true
	}
	var probs []string
	seen := map[string]bool{}
	for i := 0; i < st.NumFields(); i++ {
		f := st.Field(i)
		if !all && !want[f.Name()] {
			continue
		}
		seen[f.Name()] = true
		tag := reflect.StructTag(st.Tag(i)).Get("json")
		if !f.Exported() {
			probs = append(probs, f.Name()+" is unexported (not persisted)")
		}
		if strings.Split(tag, ",")[0] == "-" {
			probs = append(probs, f.Name()+" is tagged json:\"-\" (not persisted)")
		}
	}
	for f := range want {
		if !seen[f] {
			probs = append(probs, "field "+f+" no longer exists")
		}
	}
	// the round trip relies on encoding/json's own symmetric treatment of exported fields; a hand-written
	// codec on the persisted type replaces it on one or both sides
	ms := types.NewMethodSet(types.NewPointer(n))
	for _, m := range []string{"MarshalJSON", "UnmarshalJSON", "MarshalText", "UnmarshalText"} {
		if sel := ms.Lookup(nil, m); sel != nil {
			if fn, ok := sel.Obj().(*types.Func); ok && fn.Pkg() != nil && strings.HasPrefix(fn.Pkg().Path(), "tkestack.io/kvass") {
				probs = append(probs, "hand-written "+m+" on the persisted type: what is read back is no longer what encoding/json wrote by construction")
			}
		}
	}
	r.Check(len(probs) == 0, rule, "persisted fields of "+n.Obj().Name(), "type "+n.Obj().Pkg().Name()+"."+n.Obj().Name(), "persisted fields are exported, not excluded from JSON, and encoded/decoded by encoding/json itself", strings.Join(probs, "; "))
}

func controlsC09(p *engine.Prog) []Control { return nil }

// wrapsErr: call is one of the wrappers of github.com/pkg/errors that return nil exactly when the error given is nil.
func wrapsErr(call *ssa.Call) bool {
	callee := call.Call.StaticCallee()
	if callee == nil || callee.Pkg == nil || callee.Pkg.Pkg.Path() != "github.com/pkg/errors" || len(call.Call.Args) == 0 {
		return false
	}
	switch callee.Name() {
	case "Wrap", "Wrapf", "WithMessage", "WithMessagef", "WithStack":
		return true
	}
	return false
}

// unwrapErr strips such wrappers: the value whose nil-ness decides the result's.
func unwrapErr(v ssa.Value) ssa.Value {
	for d := 0; d < 4; d++ {
		call, ok := v.(*ssa.Call)
		if !ok || !wrapsErr(call) {
			return v
		}
		v = call.Call.Args[0]
	}
	return v
}

// nonNilErrAt: the error value v is known not to be nil at block b: by the path condition, because it was just
// constructed (fmt.Errorf, errors.New), or because it wraps a value that is.
func nonNilErrAt(fi *engine.FuncInfo, v ssa.Value, b *ssa.BasicBlock, depth int) bool {
	if depth > 4 {
		return false
	}
	if ok, _ := fi.Implies(b, engine.Not(engine.EqAtom(fi.T(v).S, "nil"))); ok {
		return true
	}
	switch x := v.(type) {
	case *ssa.MakeInterface:
		return nonNilErrAt(fi, x.X, b, depth+1)
	case *ssa.Call:
		if wrapsErr(x) {
			return nonNilErrAt(fi, x.Call.Args[0], b, depth+1)
		}
		if callee := x.Call.StaticCallee(); callee != nil && callee.Pkg != nil {
			switch callee.Pkg.Pkg.Path() + "." + callee.Name() {
			case "fmt.Errorf", "errors.New", "github.com/pkg/errors.New", "github.com/pkg/errors.Errorf":
				return true
			}
		}
	case *ssa.Phi:
		for i, e := range x.Edges {
			if !nonNilErrAt(fi, e, x.Block().Preds[i], depth+1) {
				return false
			}
		}
		return true
	}
	return false
}
