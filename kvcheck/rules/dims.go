package rules

import (
	"fmt"
	"go/token"
	"go/types"
	"sort"
	"strings"

	"golang.org/x/tools/go/ssa"

	"kvcheck/engine"
)

// Units inference for the two series dimensions used by kvass:
//   head    - series kept after metric relabeling (what Prometheus' head holds)
//   process - series before metric relabeling (what the shard has to process)
// Lattice ⊥ < {head, process} < ⊤. Seeds are struct fields; values flow through loads, + -,
// conversions, phis, composite literals and kvass calls (context sensitive: a callee is evaluated
// per vector of argument dimensions). A violation is an addition, subtraction, comparison, store
// into a seeded field or return whose two sides are head and process.

type dim int

const (
	dBot dim = iota
	dHead
	dProc
	dTop
)

func (d dim) String() string { return [...]string{"⊥", "head", "process", "⊤(mixed)"}[d] }

func join(a, b dim) dim {
	switch {
	case a == b:
		return a
	case a == dBot:
		return b
	case b == dBot:
		return a
	}
	return dTop
}

type dimViolation struct {
	fn   *ssa.Function
	in   ssa.Instruction
	kind string
	l, r dim
}

type dimAnalysis struct {
	p     *engine.Prog
	seeds map[*types.Var]dim
	memo  map[string][]dim
	busy  map[string]bool
	viol  map[ssa.Instruction]*dimViolation
	nEval int
	scope map[string]bool
}

func newDims(p *engine.Prog) *dimAnalysis {
	a := &dimAnalysis{p: p, seeds: map[*types.Var]dim{}, memo: map[string][]dim{}, busy: map[string]bool{}, viol: map[ssa.Instruction]*dimViolation{}}
	seed := func(pkg, typ, f string, d dim) {
		if v := p.Field(pkg, typ, f); v != nil {
			a.seeds[v] = d
		}
	}
	seed(pkgShard, "RuntimeInfo", "HeadSeries", dHead)
	seed(pkgShard, "RuntimeInfo", "ProcessSeries", dProc)
	seed(pkgTarget, "ScrapeStatus", "Series", dHead)
	seed(pkgTarget, "ScrapeStatus", "TotalSeries", dProc)
	seed(pkgTarget, "Target", "Series", dHead)
	seed(pkgTarget, "Target", "TotalSeries", dProc)
	seed(pkgCoord, "space", "headSpace", dHead)
	seed(pkgCoord, "space", "processSpace", dProc)
	seed(pkgCoord, "Option", "MaxHeadSeries", dHead)
	seed(pkgCoord, "Option", "MaxProcessSeries", dProc)
	seed(pkgScrape, "StatisticsSeriesResult", "ScrapedTotal", dHead)
	seed(pkgScrape, "StatisticsSeriesResult", "Total", dProc)
	seed(pkgScrape, "MetricSamplesInfo", "Scraped", dHead)
	seed(pkgScrape, "MetricSamplesInfo", "Total", dProc)
	return a
}

func isNumeric(t types.Type) bool {
	b, ok := t.Underlying().(*types.Basic)
	return ok && b.Info()&(types.IsInteger|types.IsFloat) != 0
}

func ctxKey(fn *ssa.Function, args []dim) string {
	var sb strings.Builder
	sb.WriteString(fn.String())
	for _, d := range args {
		sb.WriteByte(byte('0' + d))
	}
	return sb.String()
}

// eval evaluates fn under the given parameter dimensions and returns its result dimensions.
func (a *dimAnalysis) eval(fn *ssa.Function, args []dim, free map[*ssa.FreeVar]dim) []dim {
	key := ctxKey(fn, args)
	if r, ok := a.memo[key]; ok {
		return r
	}
	nres := fn.Signature.Results().Len()
	if a.busy[key] || fn.Blocks == nil {
		return make([]dim, nres)
	}
	a.busy[key] = true
	defer delete(a.busy, key)
	a.nEval++
	val := map[ssa.Value]dim{}
	for i, q := range fn.Params {
		if i < len(args) {
			val[q] = args[i]
		}
	}
	for fv, d := range free {
		val[fv] = d
	}
	// dims of locals: join of stored values
	get := func(v ssa.Value) dim { return val[v] }
	res := make([]dim, nres)
	report := func(in ssa.Instruction, kind string, l, r dim) {
		if _, ok := a.viol[in]; !ok {
			a.viol[in] = &dimViolation{fn: fn, in: in, kind: kind, l: l, r: r}
		}
	}
	for iter := 0; iter < 8; iter++ {
		changed := false
		set := func(v ssa.Value, d dim) {
			if nd := join(val[v], d); nd != val[v] {
				val[v] = nd
				changed = true
			}
		}
		for _, b := range fn.Blocks {
			for _, in := range b.Instrs {
				switch in := in.(type) {
				case *ssa.UnOp:
					switch in.Op {
					case token.MUL:
						if fa, ok := in.X.(*ssa.FieldAddr); ok {
							if d, ok := a.seeds[engine.FieldOf(fa)]; ok {
								set(in, d)
								continue
							}
						}
						set(in, get(in.X)) // cell dimension (locals, captured variables)
					case token.SUB:
						set(in, get(in.X))
					}
				case *ssa.Field:
					if d, ok := a.seeds[engine.FieldOf(in)]; ok {
						set(in, d)
					}
				case *ssa.BinOp:
					l, r := get(in.X), get(in.Y)
					mixed := (l == dHead && r == dProc) || (l == dProc && r == dHead)
					switch in.Op {
					case token.ADD, token.SUB:
						if mixed && isNumeric(in.X.Type()) {
							report(in, "arithmetic", l, r)
						}
						set(in, join(l, r))
					case token.MUL:
						set(in, join(l, r))
					case token.QUO, token.REM:
						if l == r && l != dBot {
							// ratio of like quantities is dimensionless
						} else if r == dBot {
							set(in, l)
						} else {
							set(in, dTop)
						}
					case token.EQL, token.NEQ, token.LSS, token.LEQ, token.GTR, token.GEQ:
						if mixed {
							report(in, "comparison", l, r)
						}
					}
				case *ssa.Convert:
					set(in, get(in.X))
				case *ssa.ChangeType:
					set(in, get(in.X))
				case *ssa.Phi:
					d := dBot
					for _, e := range in.Edges {
						d = join(d, get(e))
					}
					set(in, d)
				case *ssa.Store:
					d := get(in.Val)
					if fa, ok := in.Addr.(*ssa.FieldAddr); ok {
						if want, ok := a.seeds[engine.FieldOf(fa)]; ok {
							if d != dBot && d != want {
								report(in, "store into "+engine.FieldOf(fa).Name(), want, d)
							}
							continue
						}
					}
					// cell (local / captured variable / named result)
					switch in.Addr.(type) {
					case *ssa.Alloc, *ssa.FreeVar:
						set(in.Addr, d)
					}
				case *ssa.Call:
					rd := a.call(fn, in, in.Common(), get)
					if len(rd) == 1 {
						set(in, rd[0])
					} else if len(rd) > 1 {
						if refs := in.Referrers(); refs != nil {
							for _, rr := range *refs {
								if e, ok := rr.(*ssa.Extract); ok && e.Index < len(rd) {
									set(e, rd[e.Index])
								}
							}
						}
					}
				case *ssa.Go:
					a.call(fn, in, in.Common(), get)
				case *ssa.Defer:
					a.call(fn, in, in.Common(), get)
				case *ssa.MakeClosure:
					if f, ok := in.Fn.(*ssa.Function); ok {
						fr := map[*ssa.FreeVar]dim{}
						for i, bnd := range in.Bindings {
							if i < len(f.FreeVars) {
								fr[f.FreeVars[i]] = get(bnd)
							}
						}
						a.eval(f, make([]dim, len(f.Params)), fr)
					}
				case *ssa.Return:
					for i, rv := range in.Results {
						if i < nres {
							if nd := join(res[i], get(rv)); nd != res[i] {
								res[i] = nd
								changed = true
							}
						}
					}
				}
			}
		}
		if !changed {
			break
		}
	}
	a.memo[key] = res
	return res
}

func (a *dimAnalysis) call(fn *ssa.Function, in ssa.Instruction, c *ssa.CallCommon, get func(ssa.Value) dim) []dim {
	callee := c.StaticCallee()
	if callee == nil || callee.Blocks == nil || !strings.HasPrefix(engine.PkgOf(callee), engine.ModPath) {
		return nil
	}
	args := make([]dim, len(c.Args))
	for i, x := range c.Args {
		args[i] = get(x)
		// by-value struct arguments carry no single dimension
	}
	return a.eval(callee, args, nil)
}

// runDims evaluates every function of the given packages and reports violations under rule.
func runDims(p *engine.Prog, r *engine.Report, rule string, pkgs []string) {
	a := newDims(p)
	if len(p.Problems) > 0 {
		return
	}
	nfn := 0
	for _, fn := range p.Funcs {
		in := false
		for _, pk := range pkgs {
			if engine.InPkg(fn, pk) {
				in = true
			}
		}
		if !in || fn.Parent() != nil {
			continue
		}
		nfn++
		a.eval(fn, make([]dim, len(fn.Params)), nil)
	}
	// count binary operations / stores that involve a dimensioned value (for evidence)
	var vs []*dimViolation
	for _, v := range a.viol {
		vs = append(vs, v)
	}
	sort.Slice(vs, func(i, j int) bool { return vs[i].in.Pos() < vs[j].in.Pos() })
	ord := map[string]int{}
	for _, v := range vs {
		base := fmt.Sprintf("%s in %s", v.kind, engine.FuncName(v.fn))
		ord[base]++
		r.Add(rule, fmt.Sprintf("%s #%d", base, ord[base]), v.kind+" at "+engine.FuncName(v.fn)+" ("+p.Rel(v.in.Pos())+")",
			"both sides have the same series dimension (head = after metric relabeling, process = before)", fmt.Sprintf("%s vs %s in `%s`", v.l, v.r, v.in.String()), engine.Violated)
	}
	r.Add(rule, "summary", fmt.Sprintf("%d functions, %d evaluation contexts", nfn, a.nEval), "no addition, comparison, store or argument mixes head-series and process-series quantities",
		fmt.Sprintf("%d mixed constructs", len(vs)), engine.Discharged)
	r.Analysed["dimension_contexts"] = a.nEval
}
