package rules

import (
	"fmt"
	"go/constant"
	"go/token"
	"go/types"
	"regexp"
	"strings"

	"golang.org/x/tools/go/ssa"

	"kvcheck/engine"
)

func init() {
	register(&Rule{ID: "C14", Run: runC14, Controls: controlsC14,
		Explanation: "The arithmetic itself is behavioural; decided are the pairings, guards and data paths the recorded numbers depend on: " +
			"R14.1 paired counters: in the per-row loop the grand total and the metric's total are incremented on every iteration, and the kept total and the metric's kept count are incremented together exactly when relabel.Process of that row's label set returns non-nil; " +
			"R14.2 per-sample labels: the label slice given to relabel.Process is rebuilt for every row (not carried across rows) from the row's own metric name and tags, and the relabel rules are the caller's; " +
			"R14.3 every write to the result happens under the result's mutex (the parser calls back concurrently); " +
			"R14.4 window: the history is bounded by 3; below the bound the new kept count is appended, at the bound exactly the oldest element is dropped; the series value is the mean over the window, total-series is the last scrape's total; the proxy updates the estimate only after both scraper calls succeeded; " +
			"R14.5 runtime info: sums are taken per dimension over the status map and the reported head series is bounded below by both the sum and Prometheus' own value (plus the units inference of C04 over pkg/sidecar, pkg/target, pkg/scrape, pkg/explore); " +
			"R14.6 who may write ScrapeStatus.Series/TotalSeries: only the constructor and the scrape-result update (a failed scrape leaves the last total); R14.7 the scrape manager installs a fresh job table on every reload, no entry carried over from the previous one (a job reads its metric relabel rules from its own copy of the configuration); R14.8 an entry read out of one per-metric table is never installed in another one (aggregations own their entries; recorded counts are not added to); R14.4 also: every call of UpdateScrapeResult stores the estimate (no early return for an empty page).",
		Assumptions: []string{"go/types and go/ssa are correct", "relabel.Process is pure (reviewed in the pinned prometheus module)"}})
}

func isPlusOne(fi *engine.FuncInfo, st *ssa.Store) bool {
	bo, ok := st.Val.(*ssa.BinOp)
	if !ok || bo.Op != token.ADD {
		return false
	}
	c, ok := bo.Y.(*ssa.Const)
	if !ok || c.Value == nil {
		return false
	}
	one := constant.Compare(c.Value, token.EQL, constant.MakeInt64(1))
	u, ok := bo.X.(*ssa.UnOp)
	return one && ok && u.X == st.Addr || (one && ok && fi.T(u.X).S == fi.T(st.Addr).S)
}

func runC14(p *engine.Prog, r *engine.Report) {
	fnStat := p.SSAFunc(p.FuncObj(pkgScrape, "StatisticSeries"))
	fTotal := p.Field(pkgScrape, "StatisticsSeriesResult", "Total")
	fScraped := p.Field(pkgScrape, "StatisticsSeriesResult", "ScrapedTotal")
	fMetrics := p.Field(pkgScrape, "StatisticsSeriesResult", "MetricsTotal")
	fMTotal := p.Field(pkgScrape, "MetricSamplesInfo", "Total")
	fMScraped := p.Field(pkgScrape, "MetricSamplesInfo", "Scraped")
	fLast := p.Field(pkgTarget, "ScrapeStatus", "lastSeries")
	fSeries := p.Field(pkgTarget, "ScrapeStatus", "Series")
	fTotalSeries := p.Field(pkgTarget, "ScrapeStatus", "TotalSeries")
	mUpdate := p.Method(pkgTarget, "ScrapeStatus", "UpdateScrapeResult")
	fHead := p.Field(pkgShard, "RuntimeInfo", "HeadSeries")
	fProc := p.Field(pkgShard, "RuntimeInfo", "ProcessSeries")
	fStatus := p.Field(pkgSide, "TargetsInfo", "Status")
	fGetHead := p.Field(pkgSide, "Service", "getHeadSeries")
	if len(p.Problems) > 0 || fnStat == nil {
		return
	}
	r.Min("R14.1-paired-counters", 2)
	r.Min("R14.2-per-sample-labels", 1)
	r.Min("R14.3-result-lock", 4)
	r.Min("R14.4-window", 2)
	r.Min("R14.5-runtime-info", 2)
	r.Min("R14.6-statistics-writers", 1)
	r.Min("R14.7-jobs-rebuilt", 1)
	r.Min("R14.8-recorded-statistics", 1)
	checkStatisticsWriters(p, r, "R14.6-statistics-writers")
	checkJobsRebuilt(p, r)
	checkRecordedStatistics(p, r)
	fi := p.Info(fnStat)
	resT := fi.T(fnStat.Params[len(fnStat.Params)-1]).S

	// locate the row loop
	var rowLoop *loopInfo
	var rowElem string
	for _, in := range allInstrs(fnStat) {
		// the element of the rows parameter, copied ("for _, row := range rows") or addressed ("row := &rows[i]")
		if ia, ok := in.(*ssa.IndexAddr); ok && ia.X == ssa.Value(fnStat.Params[0]) {
			if lp := loopOf(fi, ia.Block()); lp != nil {
				rowLoop = lp
				rowElem = strings.TrimPrefix(fi.T(ia).S, "&")
			}
		}
	}
	var process *ssa.Call
	for _, in := range allInstrs(fnStat) {
		if call, ok := in.(*ssa.Call); ok && engine.CalleeIs(call.Common(), "github.com/prometheus/prometheus/model/relabel", "", "Process") {
			process = call
		}
	}
	type ctr struct {
		f  *types.Var
		st []*ssa.Store
	}
	ctrs := map[*types.Var]*ctr{fTotal: {f: fTotal}, fScraped: {f: fScraped}, fMTotal: {f: fMTotal}, fMScraped: {f: fMScraped}}
	for _, in := range allInstrs(fnStat) {
		if st, ok := in.(*ssa.Store); ok {
			if fa, ok := st.Addr.(*ssa.FieldAddr); ok {
				if c, ok := ctrs[engine.FieldOf(fa)]; ok {
					c.st = append(c.st, st)
				}
			}
		}
	}
	if rowLoop == nil || process == nil {
		r.Add("R14.1-paired-counters", "roles", engine.FuncName(fnStat), "a loop over the rows that calls relabel.Process", fmt.Sprintf("loop: %v, Process: %v", rowLoop != nil, process != nil), engine.Undecided)
	} else {
		// every-iteration pair
		var probs []string
		for _, f := range []*types.Var{fTotal, fMTotal} {
			c := ctrs[f]
			if len(c.st) != 1 || !isPlusOne(fi, c.st[0]) {
				probs = append(probs, fmt.Sprintf("%s.%s: %d stores, want exactly one +1", f.Pkg().Name(), f.Name(), len(c.st)))
				continue
			}
			for _, pr := range rowLoop.header.Preds {
				if fi.IsBackEdge(pr, rowLoop.header) && !c.st[0].Block().Dominates(pr) {
					probs = append(probs, "a row can be processed without incrementing "+f.Name())
				}
			}
			if lp := loopOf(fi, c.st[0].Block()); lp == nil || lp.header != rowLoop.header {
				probs = append(probs, f.Name()+" is incremented inside an inner loop (more than once per row)")
			}
		}
		// the metric entry is the one of this row's name
		if c := ctrs[fMTotal]; len(c.st) == 1 {
			okEntry := strings.Contains(fi.T(c.st[0].Addr).S, resT+"."+fMetrics.Name()+"[") && strings.Contains(fi.T(c.st[0].Addr).S, rowElem+".Metric")
			if !okEntry {
				// the entry may have been fetched (or created and stored) into a variable first
				var entryOfRow func(v ssa.Value, d int) bool
				entryOfRow = func(v ssa.Value, d int) bool {
					if d > 3 {
						return false
					}
					switch x := v.(type) {
					case *ssa.Phi:
						for _, e := range x.Edges {
							if !entryOfRow(e, d+1) {
								return false
							}
						}
						return len(x.Edges) > 0
					case *ssa.Lookup:
						t := fi.T(x).S
						return strings.Contains(t, resT+"."+fMetrics.Name()+"[") && strings.Contains(t, rowElem+".Metric")
					case *ssa.Extract:
						if lk, ok := x.Tuple.(*ssa.Lookup); ok && x.Index == 0 {
							return entryOfRow(lk, d+1)
						}
					case *ssa.Alloc:
						for _, rr := range *x.Referrers() {
							if mu, ok := rr.(*ssa.MapUpdate); ok && mu.Value == ssa.Value(x) {
								if strings.HasSuffix(strings.Split(fi.T(mu.Map).S, "@")[0], resT+"."+fMetrics.Name()) && strings.Contains(fi.T(mu.Key).S, rowElem+".Metric") {
									return true
								}
							}
						}
					}
					return false
				}
				if fa, ok := c.st[0].Addr.(*ssa.FieldAddr); ok && entryOfRow(fa.X, 0) {
					okEntry = true
				}
			}
			if !okEntry {
				probs = append(probs, "the per-metric total is not the entry of this row's metric name: "+fi.T(c.st[0].Addr).S)
			}
		}
		r.Check(len(probs) == 0, "R14.1-paired-counters", "totals in "+engine.FuncName(fnStat), engine.FuncName(fnStat), "result.Total and MetricsTotal[name].Total are each incremented exactly once per row", strings.Join(probs, "; "))
		probs = nil
		kept := engine.Not(engine.EqAtom(fi.T(process).S, "nil"))
		for _, f := range []*types.Var{fScraped, fMScraped} {
			c := ctrs[f]
			if len(c.st) != 1 || !isPlusOne(fi, c.st[0]) {
				probs = append(probs, fmt.Sprintf("%s: %d stores, want exactly one +1", f.Name(), len(c.st)))
				continue
			}
			if ok, have := fi.Implies(c.st[0].Block(), kept); !ok {
				probs = append(probs, f.Name()+" is incremented without 'relabel.Process returned non-nil for this row' on the path: "+strings.Join(nonStructural(have), " ∧ "))
			}
			for _, g := range extraGuardsExcept(fi, c.st[0].Block(), []string{fi.T(process).S, "." + fMetrics.Name() + "["}) {
				probs = append(probs, f.Name()+" is additionally conditional on "+g)
			}
			// whenever kept, it is incremented: latch reachable avoiding the store implies dropped
			v := fi.ViewOpt(kept, rowLoop.header.Succs[0], c.st[0].Block())
			for _, pr := range rowLoop.header.Preds {
				if fi.IsBackEdge(pr, rowLoop.header) && v.Reachable(pr) {
					if ok, _ := v.ImpliesEdge(pr, rowLoop.header, engine.Not(kept)); !ok {
						probs = append(probs, "a kept sample can pass without incrementing "+f.Name())
					}
				}
			}
		}
		if a, b := ctrs[fScraped], ctrs[fMScraped]; len(a.st) == 1 && len(b.st) == 1 && a.st[0].Block() != b.st[0].Block() {
			probs = append(probs, "kept total and per-metric kept count are incremented in different branches")
		}
		if !engine.InstrDominates(process, firstOf(ctrs[fScraped].st)) {
			probs = append(probs, "relabel.Process is not evaluated for every row before the kept counters")
		}
		if lp := loopOf(fi, process.Block()); lp == nil || lp.header != rowLoop.header {
			probs = append(probs, "relabel.Process is not called exactly once per row")
		}
		for _, pr := range rowLoop.header.Preds {
			if fi.IsBackEdge(pr, rowLoop.header) && !process.Block().Dominates(pr) {
				probs = append(probs, "a row can be counted without applying the relabel rules to it")
			}
		}
		r.Check(len(probs) == 0, "R14.1-paired-counters", "kept counters in "+engine.FuncName(fnStat), engine.FuncName(fnStat), "ScrapedTotal and MetricsTotal[name].Scraped incremented together, exactly when relabel.Process(row labels) != nil", strings.Join(probs, "; "))

		// ---- R14.2
		probs = nil
		var walk func(v ssa.Value, seen map[ssa.Value]bool)
		nameOK := false
		walk = func(v ssa.Value, seen map[ssa.Value]bool) {
			if seen[v] {
				return
			}
			seen[v] = true
			switch x := v.(type) {
			case *ssa.Phi:
				if x.Block() == rowLoop.header {
					probs = append(probs, "the label slice is carried from one row to the next (labels of earlier rows leak into later ones)")
					return
				}
				for _, e := range x.Edges {
					walk(e, seen)
				}
			case *ssa.Call:
				if bi, ok := x.Call.Value.(*ssa.Builtin); ok && bi.Name() == "append" {
					walk(x.Call.Args[0], seen)
					for _, e := range varargElems(x.Call.Args[1]) {
						t := fi.T(e).S
						_ = t
						if u, ok := e.(*ssa.UnOp); ok {
							if al, ok := u.X.(*ssa.Alloc); ok {
								nm := fi.StructFieldByName(al, "Name")
								vl := fi.StructFieldByName(al, "Value")
								if nm == `"__name__"` && vl == rowElem+".Metric" {
									nameOK = true
								}
							}
						}
					}
					return
				}
				probs = append(probs, "the label slice comes from "+fi.T(x).S)
			case *ssa.Const:
				if x.Value != nil {
					probs = append(probs, "unexpected constant label slice")
				}
			case *ssa.MakeSlice:
				if !rowLoop.blocks[x.Block().Index] {
					probs = append(probs, "the label slice is allocated outside the row loop and reused")
				}
			case *ssa.Slice:
				if al, ok := x.X.(*ssa.Alloc); ok && rowLoop.blocks[al.Block().Index] {
					return
				}
				probs = append(probs, "the label slice is a re-slice of "+fi.T(x.X).S+" (reused buffer)")
			default:
				probs = append(probs, "the label slice comes from "+fi.T(v).S)
			}
		}
		walk(process.Call.Args[0], map[ssa.Value]bool{})
		if !nameOK {
			probs = append(probs, "the label set does not start from __name__ = the row's metric name")
		}
		// rules: the function's relabel-config parameter
		okRules := false
		for _, q := range fnStat.Params {
			if fi.T(process.Call.Args[1]).S == fi.T(q).S {
				okRules = true
			}
		}
		if !okRules {
			probs = append(probs, "the relabel rules applied are "+fi.T(process.Call.Args[1]).S+", not the caller's")
		}
		r.Check(len(probs) == 0, "R14.2-per-sample-labels", "label set in "+engine.FuncName(fnStat), engine.FuncName(fnStat), "rebuilt per row from the row's name and tags; caller's relabel rules", strings.Join(probs, "; "))
	}

	// ---- R14.3
	lockKey := "tkestack.io/kvass/pkg/scrape.StatisticsSeriesResult.lk"
	nL := 0
	for _, in := range allInstrs(fnStat) {
		var what string
		switch x := in.(type) {
		case *ssa.Store:
			if fa, ok := x.Addr.(*ssa.FieldAddr); ok {
				f := engine.FieldOf(fa)
				if f == fTotal || f == fScraped || f == fMTotal || f == fMScraped {
					what = "store to " + f.Name()
				}
			}
		case *ssa.MapUpdate:
			if _, ok := loadOfField(x.Map, fMetrics); ok {
				what = "update of MetricsTotal"
			}
		}
		if what == "" {
			continue
		}
		nL++
		held := p.HeldAt(in)
		r.Check(held[lockKey], "R14.3-result-lock", fmt.Sprintf("write#%d in %s", nL, engine.FuncName(fnStat)), what+" at "+p.Rel(in.Pos()), "the result's mutex is held", "held: "+strings.Join(held.Names(), ","))
	}

	// ---- R14.4
	if up := p.SSAFunc(mUpdate); up != nil {
		ufi := p.Info(up)
		var probs []string
		tt := ufi.T(up.Params[0]).S
		rt := ufi.T(up.Params[1]).S
		lenT := "len(" + tt + "." + fLast.Name() + ")"
		below := engine.LtAtom(engine.Sym(lenT), engine.Int(3))
		hasBound := false
		for _, a := range ufi.AllAtoms() {
			if below.Atoms()[0] == a {
				hasBound = true
			}
		}
		if !hasBound {
			probs = append(probs, "the history length is not compared with the bound 3 (atoms: "+strings.Join(ufi.AllAtoms(), ", ")+")")
		}
		nStore := 0
		for _, in := range allInstrs(up) {
			st, ok := in.(*ssa.Store)
			if !ok {
				continue
			}
			fa, ok := st.Addr.(*ssa.FieldAddr)
			if !ok {
				continue
			}
			switch engine.FieldOf(fa) {
			case fLast:
				nStore++
				v := ufi.T(st.Val).S
				newest := "conv<int64>(" + rt + "." + fScraped.Name() + ")"
				elems := ""
				if call, ok := st.Val.(*ssa.Call); ok {
					for _, e := range varargElems(call.Call.Args[1]) {
						elems += ufi.T(e).S
					}
				}
				if elems != newest {
					probs = append(probs, "the value appended to the window is "+elems+", not int64(result.ScrapedTotal)")
				}
				okB, _ := ufi.Implies(st.Block(), below)
				okF, _ := ufi.Implies(st.Block(), engine.Not(below))
				switch {
				case okB:
					if !strings.HasPrefix(v, "call builtin:append("+tt+"."+fLast.Name()+",") {
						probs = append(probs, "below the bound the window is not extended by appending ("+v+")")
					}
				case okF:
					if !strings.Contains(v, "slice("+tt+"."+fLast.Name()+",1,)") {
						probs = append(probs, "at the bound the window does not drop exactly its oldest element ("+v+")")
					}
				default:
					probs = append(probs, "a window update that is neither on the below-bound nor on the at-bound branch")
				}
			case fSeries:
				v := ufi.T(st.Val).S
				if !(strings.HasPrefix(v, "conv<int64>((conv<float64>(phi:") && strings.Contains(v, " / conv<float64>(len("+tt+"."+fLast.Name())) {
					probs = append(probs, "Series is set to "+v+", not the mean over the window")
				}
			case fTotalSeries:
				if ufi.T(st.Val).S != "conv<int64>("+rt+"."+fTotal.Name()+")" {
					probs = append(probs, "TotalSeries is set to "+ufi.T(st.Val).S+", not the last scrape's total")
				}
			}
		}
		if nStore != 2 {
			probs = append(probs, fmt.Sprintf("%d stores to the window (want 2: extend, shift)", nStore))
		}
		// every call takes the result into the window: no return before the estimate is stored
		if !p.Info(up).MustPass(nil, nil, func(in ssa.Instruction) bool {
			st, ok := in.(*ssa.Store)
			if !ok {
				return false
			}
			fa, ok := st.Addr.(*ssa.FieldAddr)
			return ok && engine.FieldOf(fa) == fSeries
		}) {
			probs = append(probs, "a call can return without updating the estimate (a successful scrape would leave the window and the totals of an earlier one)")
		}
		r.Check(len(probs) == 0, "R14.4-window", "window in "+engine.FuncName(up), engine.FuncName(up)+" ("+p.Rel(up.Pos())+")", "bound 3; append below it, drop the oldest at it; Series = mean over the window; TotalSeries = last total", strings.Join(probs, "; "))
	}
	if pr := findProxy(p); pr != nil && pr.request != nil && pr.parse != nil {
		n := 0
		for _, ci := range callsIn(pr.fn, mUpdate) {
			n++
			need := engine.And(engine.EqAtom(pr.fi.T(pr.request).S, "nil"), engine.EqAtom(pr.fi.T(pr.parse).S, "nil"))
			ok, have := pr.fi.Implies(ci.Block(), need)
			var probs []string
			if !ok {
				probs = append(probs, "path condition: "+strings.Join(nonStructural(have), " ∧ "))
			}
			// the result passed is the one filled by this scrape's parse callback
			r.Check(ok, "R14.4-window", fmt.Sprintf("estimate update#%d in %s", n, engine.FuncName(pr.fn)), "UpdateScrapeResult at "+p.Rel(ci.Pos()), "only after RequestTo and ParseResponse both succeeded", strings.Join(probs, "; "))
		}
		for _, f := range pr.fn.AnonFuncs {
			if len(callsIn(f, mUpdate)) > 0 {
				r.Add("R14.4-window", "estimate update in "+engine.FuncName(f), engine.FuncName(f), "the estimate is not updated from the completion (which also runs after failures)", "UpdateScrapeResult called in a closure of the handler", engine.Violated)
			}
		}
	}

	// ---- R14.5
	for _, fn := range p.Funcs {
		if !engine.InPkg(fn, pkgSide) {
			continue
		}
		sfi := p.Info(fn)
		for _, in := range allInstrs(fn) {
			st, ok := in.(*ssa.Store)
			if !ok {
				continue
			}
			fa, ok := st.Addr.(*ssa.FieldAddr)
			if !ok {
				continue
			}
			f := engine.FieldOf(fa)
			if f != fHead && f != fProc {
				continue
			}
			var probs []string
			var skipped []string
			// find the sums: phis adding .Series / .TotalSeries of range values over ...Status
			sumOf := func(v ssa.Value, want *types.Var) bool {
				ph, ok := v.(*ssa.Phi)
				if !ok {
					return false
				}
				for _, e := range ph.Edges {
					if bo, ok := e.(*ssa.BinOp); ok && bo.Op == token.ADD {
						for _, opnd := range []ssa.Value{bo.X, bo.Y} {
							if ent, ok := loadOfField(opnd, want); ok {
								if strings.Contains(sfi.T(ent).S, "."+fStatus.Name()+"[rk:") {
									// every iteration adds: the addition dominates every back edge of the loop
									for k, pb := range ph.Block().Preds {
										if sfi.IsBackEdge(pb, ph.Block()) && ph.Edges[k] != ssa.Value(bo) {
											skipped = append(skipped, "an entry of the status map can be left out of the sum of "+want.Name()+" (an iteration can continue without the addition at "+p.Rel(bo.Pos())+")")
										}
										if sfi.IsBackEdge(pb, ph.Block()) && !(bo.Block() == pb || bo.Block().Dominates(pb)) {
											skipped = append(skipped, "the addition to the sum of "+want.Name()+" at "+p.Rel(bo.Pos())+" is conditional")
										}
									}
									return true
								}
							}
						}
					}
				}
				return false
			}
			if f == fProc {
				if !sumOf(st.Val, fTotalSeries) {
					probs = append(probs, "ProcessSeries is "+sfi.T(st.Val).S+", not the sum of TotalSeries over the status map")
				}
				probs = append(probs, uniqStrings(skipped)...)
				r.Check(len(probs) == 0, "R14.5-runtime-info", "reported ProcessSeries in "+engine.FuncName(fn), "store at "+p.Rel(st.Pos()), "Σ TotalSeries over the status map", strings.Join(probs, "; "))
				continue
			}
			// head: lower-bounded by the sum and by getHeadSeries()
			var sum ssa.Value
			var prom ssa.Value
			for _, in2 := range allInstrs(fn) {
				if ph, ok := in2.(*ssa.Phi); ok && sumOf(ph, fSeries) {
					sum = ph
				}
				if call, ok := in2.(*ssa.Call); ok {
					if _, ok := loadOfField(call.Call.Value, fGetHead); ok {
						if ex := extractOf(call, 0); ex != nil {
							prom = ex
						}
					}
				}
			}
			if sum == nil || prom == nil {
				probs = append(probs, fmt.Sprintf("sum of Series found: %v; Prometheus' head series found: %v", sum != nil, prom != nil))
			} else {
				b1 := &boundCtx{fi: sfi, seen: map[string]bool{}, assume: map[string]bool{}}
				b2 := &boundCtx{fi: sfi, seen: map[string]bool{}, assume: map[string]bool{}}
				if !b1.lower(st.Val, sfi.T(sum).S) {
					probs = append(probs, "the reported head series can be below the sum of the targets' series: "+strings.Join(b1.why, "; "))
				}
				if !b2.lower(st.Val, sfi.T(prom).S) {
					probs = append(probs, "the reported head series can be below Prometheus' own head count: "+strings.Join(b2.why, "; "))
				}
			}
			probs = append(probs, uniqStrings(skipped)...)
			r.Check(len(probs) == 0, "R14.5-runtime-info", "reported HeadSeries in "+engine.FuncName(fn), "store at "+p.Rel(st.Pos()), "≥ Σ Series over the status map and ≥ Prometheus' head series", strings.Join(probs, "; "))
		}
	}
	runDims(p, r, "R14.5-runtime-info-dimension", []string{pkgSide, pkgTarget, pkgScrape, pkgExpl})
}

func firstOf(sts []*ssa.Store) ssa.Instruction {
	if len(sts) == 0 {
		return nil
	}
	return sts[0]
}

// extraGuardsExcept lists non-structural literals at b that contain none of the allowed substrings.
func extraGuardsExcept(fi *engine.FuncInfo, b *ssa.BasicBlock, allowed []string) []string {
	var out []string
	for _, g := range fi.Guards(b) {
		if engine.IsStructuralLiteral(g) {
			continue
		}
		ok := false
		for _, a := range allowed {
			if strings.Contains(g, a) {
				ok = true
			}
		}
		if !ok {
			out = append(out, g)
		}
	}
	return out
}

func controlsC14(p *engine.Prog) []Control { return nil }

func uniqStrings(in []string) []string {
	seen := map[string]bool{}
	var out []string
	for _, s := range in {
		if !seen[s] {
			seen[s] = true
			out = append(out, s)
		}
	}
	return out
}

// checkJobsRebuilt is R14.7: the scrape manager's job table is rebuilt from the configuration on every reload. The
// rules a sample is counted by (metric relabeling) are read from the job's own copy of its configuration, so a job
// carried over from the previous table would go on counting with the previous rules.
func checkJobsRebuilt(p *engine.Prog, r *engine.Report) {
	fJobs := p.Field(pkgScrape, "Manager", "jobs")
	if fJobs == nil {
		return
	}
	n := 0
	for _, fn := range p.Funcs {
		if !engine.InPkg(fn, pkgScrape) || fn.Signature.Recv() == nil {
			continue
		}
		fi := p.Info(fn)
		for _, in := range allInstrs(fn) {
			st, ok := in.(*ssa.Store)
			if !ok {
				continue
			}
			fa, ok := st.Addr.(*ssa.FieldAddr)
			if !ok || engine.FieldOf(fa) != fJobs {
				continue
			}
			n++
			var probs []string
			mm, ok := st.Val.(*ssa.MakeMap)
			if !ok {
				probs = append(probs, "the table installed is "+short(fi.T(st.Val).S)+", not a map made in this reload")
			} else {
				for _, rr := range *mm.Referrers() {
					mu, ok := rr.(*ssa.MapUpdate)
					if !ok || mu.Map != ssa.Value(mm) {
						continue
					}
					if src := comesFromField(mu.Value, fJobs, map[ssa.Value]bool{}); src != nil {
						probs = append(probs, "an entry of the previous table is carried over at "+p.Rel(mu.Pos())+": it keeps the configuration (metric relabel rules) it was created with")
					}
				}
			}
			r.Check(len(probs) == 0, "R14.7-jobs-rebuilt", "job table installed in "+engine.FuncName(fn), "store at "+p.Rel(st.Pos()), "a fresh table whose every entry is created from the configuration being applied", strings.Join(probs, "; "))
		}
	}
	if n == 0 {
		r.Add("R14.7-jobs-rebuilt", "job table", pkgScrape, "a method installing Manager.jobs", "none found", engine.Undecided)
	}
}

// comesFromField: v is (through phis and comma-ok extracts) read out of the map held in field f.
func comesFromField(v ssa.Value, f *types.Var, seen map[ssa.Value]bool) ssa.Value {
	if seen[v] {
		return nil
	}
	seen[v] = true
	switch x := v.(type) {
	case *ssa.Phi:
		for _, e := range x.Edges {
			if r := comesFromField(e, f, seen); r != nil {
				return r
			}
		}
	case *ssa.Extract:
		return comesFromField(x.Tuple, f, seen)
	case *ssa.Lookup:
		if _, ok := loadOfField(x.X, f); ok {
			return x
		}
	case *ssa.Next:
		if rg, ok := x.Iter.(*ssa.Range); ok {
			if _, ok := loadOfField(rg.X, f); ok {
				return x
			}
		}
	}
	return nil
}

// checkRecordedStatistics is R14.8: the per-metric counts recorded for a scrape are not shared with anything that is
// added to later. Whoever aggregates them (the samples API, a merge of results) installs entries of its own: an entry
// read out of one per-metric table is never installed in another one.
func checkRecordedStatistics(p *engine.Prog, r *engine.Report) {
	var probs []string
	n := 0
	isMetricsMap := func(t types.Type) bool {
		m, ok := t.Underlying().(*types.Map)
		return ok && strings.HasSuffix(m.Elem().String(), "scrape.MetricSamplesInfo")
	}
	for _, fn := range p.Funcs {
		for _, in := range allInstrs(fn) {
			mu, ok := in.(*ssa.MapUpdate)
			if !ok || !isMetricsMap(mu.Map.Type()) {
				continue
			}
			n++
			fi := p.Info(fn)
			same := func(a ssa.Value) bool {
				return a == mu.Map || stripVersions(fi.T(a).S) == stripVersions(fi.T(mu.Map).S)
			}
			if src := fromOtherMetricsMap(mu.Value, same, isMetricsMap, map[ssa.Value]bool{}); src != nil {
				probs = append(probs, "an entry read out of another per-metric table is installed at "+p.Rel(mu.Pos())+" in "+engine.FuncName(fn)+": adding to it later changes the counts recorded for a scrape")
			}
		}
	}
	r.Check(len(probs) == 0 && n > 0, "R14.8-recorded-statistics", "entries installed in per-metric tables", fmt.Sprintf("%d installs of *MetricSamplesInfo", n), "every table gets entries of its own (fresh, or its own earlier entry)", strings.Join(probs, "; "))
}

func fromOtherMetricsMap(v ssa.Value, same func(ssa.Value) bool, isMetricsMap func(types.Type) bool, seen map[ssa.Value]bool) ssa.Value {
	if seen[v] {
		return nil
	}
	seen[v] = true
	switch x := v.(type) {
	case *ssa.Phi:
		for _, e := range x.Edges {
			if r := fromOtherMetricsMap(e, same, isMetricsMap, seen); r != nil {
				return r
			}
		}
	case *ssa.Extract:
		switch t := x.Tuple.(type) {
		case *ssa.Next:
			if rg, ok := t.Iter.(*ssa.Range); ok && x.Index == 2 && isMetricsMap(rg.X.Type()) && !same(rg.X) {
				return x
			}
		case *ssa.Lookup:
			if x.Index == 0 && isMetricsMap(t.X.Type()) && !same(t.X) {
				return x
			}
		}
	case *ssa.Lookup:
		if isMetricsMap(x.X.Type()) && !same(x.X) {
			return x
		}
	}
	return nil
}

var versionTag = regexp.MustCompile(`@[0-9a-f]{6}`)

func stripVersions(t string) string { return versionTag.ReplaceAllString(t, "") }
