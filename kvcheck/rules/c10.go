package rules

import (
	"fmt"
	"go/token"
	"go/types"
	"strings"

	"golang.org/x/tools/go/ssa"

	"kvcheck/engine"
)

func init() {
	register(&Rule{ID: "C10", Run: runC10, Controls: controlsC10,
		Explanation: "Structural necessary conditions of 'sidecar bookkeeping tracks exactly the assigned targets and idle time', decided on pkg/sidecar and pkg/target: " +
			"R10.1 every store to TargetsInfo.Status installs a map made in the same function whose writes are keyed by the Hash of a target of the current assignment; the value is the previous entry exactly when one exists, otherwise NewScrapeStatus(target.Series, target.TotalSeries); new entries start with health unknown; " +
			"R10.2 the entry's TargetState is stored from the requested target on every iteration; " +
			"R10.3 who may write ScrapeTimes: only the reset to 0 (C05 R5.4) and the +1 in the proxy's completion (C13 R13.2); " +
			"R10.4 who may write IdleAt: a non-nil value only under len(Status)==0 ∧ IdleAt==nil, nil only under len(Status)!=0, the idle update runs after the status rebuild in UpdateTargets, and the runtime-info endpoint reports IdleAt unchanged in an object built by the reporting call itself (no cached report). " +
			"R10.5 who may write ScrapeStatus.Series/TotalSeries: only the constructor and the scrape-result update of pkg/target (a kept entry keeps its measurements). " +
			"R10.1 also: the handler hands the decoded request to the manager unchanged (no job removed or replaced before it is applied). " +
			"R10.1 also covers a request object pre-filled before it is decoded. " +
			"Not decided: values over update sequences (a reference-model comparison is a dynamic technique).",
		Assumptions: []string{"go/types and go/ssa are correct"}})
}

func runC10(p *engine.Prog, r *engine.Report) {
	fStatus := p.Field(pkgSide, "TargetsInfo", "Status")
	fIdleAt := p.Field(pkgSide, "TargetsInfo", "IdleAt")
	fTargetsF := p.Field(pkgSide, "TargetsInfo", "Targets")
	fHash := p.Field(pkgTarget, "Target", "Hash")
	fTSeries := p.Field(pkgTarget, "Target", "Series")
	fTTotal := p.Field(pkgTarget, "Target", "TotalSeries")
	fTState := p.Field(pkgTarget, "Target", "TargetState")
	fState := p.Field(pkgTarget, "ScrapeStatus", "TargetState")
	fTimes := p.Field(pkgTarget, "ScrapeStatus", "ScrapeTimes")
	fHealth := p.Field(pkgTarget, "ScrapeStatus", "Health")
	fIdleStart := p.Field(pkgShard, "RuntimeInfo", "IdleStartAt")
	newStatus := p.FuncObj(pkgTarget, "NewScrapeStatus")
	mUpdate := p.Method(pkgSide, "TargetsManager", "UpdateTargets")
	mInfo := p.Method(pkgSide, "TargetsManager", "TargetsInfo")
	if len(p.Problems) > 0 {
		return
	}
	r.Min("R10.1-status-rebuild", 2)
	r.Min("R10.5-statistics-writers", 1)
	r.Min("R10.2-state-from-request", 1)
	r.Min("R10.3-scrape-counter-writers", 1)
	r.Min("R10.4-idle-since", 4)

	var rebuildFn, idleFn *ssa.Function
	nS := 0
	for _, fn := range p.Funcs {
		if !engine.InPkg(fn, pkgSide) {
			continue
		}
		fi := p.Info(fn)
		for _, in := range allInstrs(fn) {
			st, ok := in.(*ssa.Store)
			if !ok {
				continue
			}
			fa, ok := st.Addr.(*ssa.FieldAddr)
			if !ok || engine.FieldOf(fa) != fStatus {
				continue
			}
			if _, isLit := fa.X.(*ssa.Alloc); isLit {
				continue // constructor literal
			}
			nS++
			rebuildFn = fn
			ck := fmt.Sprintf("store#%d to TargetsInfo.Status in %s", nS, engine.FuncName(fn))
			var probs []string
			mm, ok := st.Val.(*ssa.MakeMap)
			if !ok {
				probs = append(probs, "the installed status map is "+fi.T(st.Val).S+", not a map rebuilt from the current assignment (entries of unassigned targets could survive)")
				r.Check(false, "R10.1-status-rebuild", ck, "store at "+engine.FuncName(fn)+" ("+p.Rel(st.Pos())+")", "a fresh map filled from the assignment", strings.Join(probs, "; "))
				continue
			}
			nUpd := 0
			nNewPhi, nKeptPhi := 0, 0
			for _, rr := range *mm.Referrers() {
				mu, ok := rr.(*ssa.MapUpdate)
				if !ok || mu.Map != ssa.Value(mm) {
					continue
				}
				nUpd++
				// key: Hash of an element of t.targets.Targets[job]
				req, ok := loadOfField(mu.Key, fHash)
				if !ok || !strings.Contains(fi.T(req).S, "."+fTargetsF.Name()+"[") {
					probs = append(probs, "a status entry is keyed by "+fi.T(mu.Key).S+", not by the hash of an assigned target")
					continue
				}
				rt := fi.T(req).S
				old := fi.ElemPath(strings.TrimSuffix(fi.T(fa).S[1:], ""), fStatus.Type(), fi.T(mu.Key).S, mu)
				oldNil := engine.EqAtom(old, "nil")
				switch v := mu.Value.(type) {
				case *ssa.Call:
					if engine.CalleeObj(v.Common()) != newStatus {
						probs = append(probs, "a new entry is created by "+fi.T(v).S)
						break
					}
					if s, ok := loadOfField(v.Call.Args[0], fTSeries); !ok || fi.T(s).S != rt {
						probs = append(probs, "new entry's series estimate is "+fi.T(v.Call.Args[0]).S+", not the assigned target's Series")
					}
					if s, ok := loadOfField(v.Call.Args[1], fTTotal); !ok || fi.T(s).S != rt {
						probs = append(probs, "new entry's total-series estimate is "+fi.T(v.Call.Args[1]).S+", not the assigned target's TotalSeries")
					}
					if ok, have := fi.Implies(mu.Block(), oldNil); !ok {
						probs = append(probs, "a new entry replaces an existing one (accumulated statistics and health would be lost): "+strings.Join(nonStructural(have), " ∧ "))
					}
				case *ssa.Lookup:
					if fi.T(v).S != old {
						probs = append(probs, "a kept entry is taken from "+fi.T(v).S+", not from the previous status of the same hash")
					}
					if ok, _ := fi.Implies(mu.Block(), engine.Not(oldNil)); !ok {
						probs = append(probs, "a possibly nil previous entry is kept")
					}
				case *ssa.Phi:
					// the entry is chosen first (previous one or a fresh one) and stored once
					for k, e := range v.Edges {
						pred := v.Block().Preds[k]
						switch ev := e.(type) {
						case *ssa.Call:
							if engine.CalleeObj(ev.Common()) != newStatus {
								probs = append(probs, "a new entry is created by "+fi.T(ev).S)
								break
							}
							nNewPhi++
							if s, ok := loadOfField(ev.Call.Args[0], fTSeries); !ok || fi.T(s).S != rt {
								probs = append(probs, "new entry's series estimate is "+fi.T(ev.Call.Args[0]).S+", not the assigned target's Series")
							}
							if s, ok := loadOfField(ev.Call.Args[1], fTTotal); !ok || fi.T(s).S != rt {
								probs = append(probs, "new entry's total-series estimate is "+fi.T(ev.Call.Args[1]).S+", not the assigned target's TotalSeries")
							}
							if ok, have := fi.View(oldNil).ImpliesEdge(pred, v.Block(), oldNil); !ok {
								probs = append(probs, "a new entry replaces an existing one (accumulated statistics and health would be lost): "+strings.Join(nonStructural(have), " ∧ "))
							}
						case *ssa.Lookup:
							nKeptPhi++
							if fi.T(ev).S != old {
								probs = append(probs, "a kept entry is taken from "+fi.T(ev).S+", not from the previous status of the same hash")
							}
							if ok, _ := fi.View(oldNil).ImpliesEdge(pred, v.Block(), engine.Not(oldNil)); !ok {
								probs = append(probs, "a possibly nil previous entry is kept")
							}
						default:
							probs = append(probs, "a status entry can be "+fi.T(e).S)
						}
					}
				default:
					probs = append(probs, "a status entry is set to "+fi.T(mu.Value).S)
				}
			}
			if nUpd == 0 {
				probs = append(probs, "the new status map is never filled")
			}
			{
				nNew, nKept := nNewPhi, nKeptPhi
				for _, rr := range *mm.Referrers() {
					if mu, ok := rr.(*ssa.MapUpdate); ok && mu.Map == ssa.Value(mm) {
						switch mu.Value.(type) {
						case *ssa.Call:
							nNew++
						case *ssa.Lookup:
							nKept++
						}
					}
				}
				if nNew == 0 {
					probs = append(probs, "newly assigned targets get no status entry")
				}
				if nKept == 0 {
					probs = append(probs, "targets kept across the update do not keep their status entry")
				}
			}
			// the installation happens after the loop (dominated by all updates' loop exit): the store must not be inside a loop
			if loopOf(fi, st.Block()) != nil {
				probs = append(probs, "the status map is installed inside the loop")
			}
			r.Check(len(probs) == 0, "R10.1-status-rebuild", ck, "store at "+engine.FuncName(fn)+" ("+p.Rel(st.Pos())+")",
				"fresh map; one entry per assigned hash; previous entry kept iff it exists, else NewScrapeStatus(target.Series, target.TotalSeries)", strings.Join(probs, "; "))

			// ---- R10.2: state stored from the request on every iteration
			var probs2 []string
			nState := 0
			for _, in2 := range allInstrs(fn) {
				s2, ok := in2.(*ssa.Store)
				if !ok {
					continue
				}
				fa2, ok := s2.Addr.(*ssa.FieldAddr)
				if !ok || engine.FieldOf(fa2) != fState {
					continue
				}
				nState++
				req, ok := loadOfField(s2.Val, fTState)
				if !ok {
					probs2 = append(probs2, "the entry's state is set from "+fi.T(s2.Val).S)
					continue
				}
				// entry must be newmap[req.Hash], or the value that is stored as newmap[req.Hash] in the same iteration
				var keyV ssa.Value
				if lk, ok := fa2.X.(*ssa.Lookup); ok && lk.X == ssa.Value(mm) {
					keyV = lk.Index
				} else {
					for _, rr := range *mm.Referrers() {
						if mu, ok := rr.(*ssa.MapUpdate); ok && mu.Map == ssa.Value(mm) && mu.Value == fa2.X {
							if lp := loopOf(fi, s2.Block()); lp != nil && lp.blocks[mu.Block().Index] {
								keyV = mu.Key
							}
						}
					}
				}
				if keyV == nil {
					probs2 = append(probs2, "the state is stored into "+fi.T(fa2.X).S+", not into the rebuilt map's entry")
					continue
				}
				if rq, ok := loadOfField(keyV, fHash); !ok || fi.T(rq).S != fi.T(req).S {
					probs2 = append(probs2, "state of target "+fi.T(req).S+" is stored into the entry of another hash")
				}
				// on every iteration: dominates every latch of its loop
				if lp := loopOf(fi, s2.Block()); lp != nil {
					for _, pr := range lp.header.Preds {
						if fi.IsBackEdge(pr, lp.header) && !s2.Block().Dominates(pr) {
							probs2 = append(probs2, "an iteration can finish without storing the requested state")
						}
					}
				} else {
					probs2 = append(probs2, "the state store is not inside the loop over the assignment")
				}
			}
			if nState == 0 {
				probs2 = append(probs2, "the requested TargetState is never stored into the status entries")
			}
			r.Check(len(probs2) == 0, "R10.2-state-from-request", "state store in "+engine.FuncName(fn), engine.FuncName(fn), "status[hash].TargetState = requested target's TargetState, on every iteration", strings.Join(probs2, "; "))
		}
	}
	// new entries start with unknown health
	if ns := p.SSAFunc(newStatus); ns != nil {
		fi := p.Info(ns)
		ok := false
		for _, in := range allInstrs(ns) {
			if st, isSt := in.(*ssa.Store); isSt {
				if fa, isFa := st.Addr.(*ssa.FieldAddr); isFa && engine.FieldOf(fa) == fHealth && fi.T(st.Val).S == `"unknown"` {
					ok = true
				}
			}
		}
		r.Check(ok, "R10.1-status-rebuild", "NewScrapeStatus health", engine.FuncName(ns), "Health is initialised to the unknown constant", "")
	}

	// ---- R10.3 who may write ScrapeTimes
	var writers []string
	okW := true
	for _, fn := range p.Funcs {
		fi := p.Info(fn)
		for _, in := range allInstrs(fn) {
			st, ok := in.(*ssa.Store)
			if !ok {
				continue
			}
			fa, ok := st.Addr.(*ssa.FieldAddr)
			if !ok || engine.FieldOf(fa) != fTimes {
				continue
			}
			v := fi.T(st.Val)
			kind := ""
			switch {
			case v.IsConst() && v.K == 0:
				kind = "reset to 0"
				if !engine.InPkg(fn, pkgSide) {
					okW = false
				}
			default:
				if bo, ok := st.Val.(*ssa.BinOp); ok && bo.Op == token.ADD {
					if t := fi.T(bo.Y); t.IsConst() && t.K == 1 {
						kind = "+1"
						if !engine.InPkg(fn, pkgSide) {
							okW = false
						}
					}
				}
			}
			if kind == "" {
				kind = "store of " + v.S
				okW = false
			}
			writers = append(writers, kind+" in "+engine.FuncName(fn)+" ("+p.Rel(st.Pos())+")")
		}
	}
	r.Check(okW && len(writers) == 2, "R10.3-scrape-counter-writers", "writers of ScrapeStatus.ScrapeTimes", "program-wide who-may-write table", "exactly: the reset to 0 in the status rebuild and the +1 in the proxy completion", strings.Join(writers, "; "))

	// ---- R10.1 (request): what the update handler hands to the manager is the request as it was posted: an update that is
	// answered with success tracks every target it names
	{
		fReqTargets := p.Field(pkgShard, "UpdateTargetsRequest", "Targets")
		n := 0
		for _, fn := range p.Funcs {
			if !engine.InPkg(fn, pkgSide) {
				continue
			}
			for _, ci := range callsIn(fn, mUpdate) {
				call, ok := ci.(*ssa.Call)
				if !ok || len(call.Call.Args) < 2 {
					continue
				}
				key := func(v ssa.Value) ssa.Value {
					// the request variable may live in a cell (its address is given to the decoder): all loads of the cell are it
					if u, ok := v.(*ssa.UnOp); ok {
						if al, ok := u.X.(*ssa.Alloc); ok {
							return al
						}
					}
					return v
				}
				req := key(call.Call.Args[1])
				if _, isParam := req.(*ssa.Parameter); isParam {
					continue // forwarded by a wrapper: its caller is checked
				}
				// a request decoded from the wire: the same value is handed to a decoder before
				decoded := false
				for _, in := range allInstrs(fn) {
					if c2, ok := in.(ssa.CallInstruction); ok && in != ssa.Instruction(call) {
						for _, a := range c2.Common().Args {
							if key(a) == req || key(unwrapIface(a)) == req || unwrapIface(a) == req {
								decoded = true
							}
						}
					}
				}
				if !decoded {
					continue
				}
				n++
				// the object itself: whatever is stored into the request variable's cell
				alias := map[ssa.Value]bool{req: true}
				if cell, ok := req.(*ssa.Alloc); ok {
					for _, rr := range *cell.Referrers() {
						if st, ok := rr.(*ssa.Store); ok && st.Addr == ssa.Value(cell) {
							alias[st.Val] = true
						}
					}
				}
				isReqTargets := func(addr ssa.Value) bool {
					fa, ok := addr.(*ssa.FieldAddr)
					return ok && engine.FieldOf(fa) == fReqTargets && (alias[key(fa.X)] || alias[fa.X])
				}
				var probs []string
				for _, in := range allInstrs(fn) {
					switch x := in.(type) {
					case *ssa.MapUpdate:
						if u, ok := x.Map.(*ssa.UnOp); ok && isReqTargets(u.X) {
							probs = append(probs, "the posted assignment is edited at "+p.Rel(x.Pos())+" before it is applied")
						}
					case *ssa.Call:
						if bi, ok := x.Call.Value.(*ssa.Builtin); ok && bi.Name() == "delete" {
							if u, ok := x.Call.Args[0].(*ssa.UnOp); ok && isReqTargets(u.X) {
								probs = append(probs, "jobs are deleted from the posted assignment at "+p.Rel(x.Pos())+" before it is applied (the update is still answered with success)")
							}
						}
					case *ssa.Store:
						if isReqTargets(x.Addr) {
							probs = append(probs, "the posted assignment is replaced at "+p.Rel(x.Pos())+" before it is applied")
						}
					}
				}
				r.Check(len(probs) == 0, "R10.1-status-rebuild", "request handed over in "+engine.FuncName(fn), "UpdateTargets call at "+p.Rel(call.Pos()), "the request as posted (decoded and passed on unchanged)", strings.Join(probs, "; "))
			}
		}
		if n == 0 {
			r.Add("R10.1-status-rebuild", "request handed over", pkgSide, "a handler that decodes a request and calls TargetsManager.UpdateTargets", "none found", engine.Undecided)
		}
	}

	// ---- R10.5 who may write the measured statistics of a status entry
	checkStatisticsWriters(p, r, "R10.5-statistics-writers")

	// ---- R10.4 IdleAt
	nI := 0
	for _, fn := range p.Funcs {
		if !engine.InPkg(fn, pkgSide) {
			continue
		}
		fi := p.Info(fn)
		for _, in := range allInstrs(fn) {
			st, ok := in.(*ssa.Store)
			if !ok {
				continue
			}
			fa, ok := st.Addr.(*ssa.FieldAddr)
			if !ok || engine.FieldOf(fa) != fIdleAt {
				continue
			}
			nI++
			idleFn = fn
			base := strings.TrimPrefix(fi.T(fa.X).S, "&")
			lenS := engine.Sym("len(" + fi.FieldPath(base, st, fStatus) + ")")
			empty := engine.EqIntAtom(lenS, engine.Int(0))
			if isNilConst(st.Val) {
				ok, have := fi.Implies(st.Block(), engine.Not(empty))
				extra := extraGuards(fi, st.Block(), []string{"len(" + base + "." + fStatus.Name()})
				r.Check(ok && len(extra) == 0, "R10.4-idle-since", fmt.Sprintf("clear#%d in %s", nI, engine.FuncName(fn)), "IdleAt = nil at "+engine.FuncName(fn)+" ("+p.Rel(st.Pos())+")",
					"exactly when the status map is non-empty", "path condition: "+strings.Join(nonStructural(have), " ∧ ")+strings.Join(extra, ""))
				continue
			}
			wasNil := engine.EqAtom(fi.FieldPath(base, st, fIdleAt), "nil")
			ok1, have := fi.Implies(st.Block(), engine.And(empty, wasNil))
			r.Check(ok1, "R10.4-idle-since", fmt.Sprintf("set#%d in %s", nI, engine.FuncName(fn)), "IdleAt = <time> at "+engine.FuncName(fn)+" ("+p.Rel(st.Pos())+")",
				"only when the status map is empty and no idle-since time is recorded yet (the instant is kept across further empty updates)", "path condition: "+strings.Join(nonStructural(have), " ∧ "))
		}
	}
	{
		nSet, nClear := 0, 0
		for _, o := range r.Obligations {
			if strings.Contains(o.Key, "R10.4-idle-since:set#") {
				nSet++
			}
			if strings.Contains(o.Key, "R10.4-idle-since:clear#") {
				nClear++
			}
		}
		r.Check(nSet >= 1 && nClear >= 1, "R10.4-idle-since", "idle-since is both set and cleared", "who-may-write table of TargetsInfo.IdleAt", "at least one store of a time (assignment became empty) and one store of nil (a target was assigned)", fmt.Sprintf("%d set, %d clear", nSet, nClear))
	}
	// order in UpdateTargets: rebuild before idle update; both on every path before callbacks/save
	if up := p.SSAFunc(mUpdate); up != nil && rebuildFn != nil && idleFn != nil {
		var cr, ci ssa.Instruction
		for _, in := range allInstrs(up) {
			if call, ok := in.(*ssa.Call); ok {
				if call.Call.StaticCallee() == rebuildFn {
					cr = call
				}
				if call.Call.StaticCallee() == idleFn {
					ci = call
				}
			}
		}
		// a step written out in UpdateTargets itself is represented by its stores
		var rebuildAt, idleAt []ssa.Instruction
		if cr != nil {
			rebuildAt = []ssa.Instruction{cr}
		}
		if ci != nil {
			idleAt = []ssa.Instruction{ci}
		}
		for _, in := range allInstrs(up) {
			if st, isSt := in.(*ssa.Store); isSt {
				if fa, isFa := st.Addr.(*ssa.FieldAddr); isFa {
					if rebuildFn == up && engine.FieldOf(fa) == fStatus {
						rebuildAt = append(rebuildAt, st)
						cr = st
					}
					if idleFn == up && engine.FieldOf(fa) == fIdleAt {
						idleAt = append(idleAt, st)
						ci = st
					}
				}
			}
		}
		ok := len(rebuildAt) > 0 && len(idleAt) > 0
		for _, a := range rebuildAt {
			for _, b := range idleAt {
				if !engine.InstrDominates(a, b) {
					ok = false
				}
			}
		}
		if ok && idleFn != up {
			for _, ret := range returnsOf(up) {
				if !engine.InstrDominates(ci, ret) {
					ok = false
				}
			}
		}
		if ok && idleFn == up {
			// the idle decision (the test of the status map's size) is on every path to every return
			for _, ret := range returnsOf(up) {
				dom := false
				for _, a := range rebuildAt {
					if engine.InstrDominates(a, ret) {
						dom = true
					}
				}
				if !dom {
					ok = false
				}
			}
		}
		r.Check(ok, "R10.4-idle-since", "order in UpdateTargets", engine.FuncName(up), "status rebuild, then idle update, on every path", fmt.Sprintf("rebuild call found: %v, idle call found: %v", cr != nil, ci != nil))
	} else {
		r.Add("R10.4-idle-since", "order in UpdateTargets", "UpdateTargets", "calls the status rebuild and the idle update", "roles not found", engine.Undecided)
	}
	// a restart keeps the instant: the store is decoded into the manager's own TargetsInfo (shared with C09 R9.3)
	if ld := p.SSAFunc(p.Method(pkgSide, "TargetsManager", "Load")); ld != nil {
		fTargetsMgr := p.Field(pkgSide, "TargetsManager", "targets")
		fi := p.Info(ld)
		okL, why := false, "no json.Unmarshal into TargetsManager.targets in Load"
		for _, in := range allInstrs(ld) {
			if call, ok := in.(*ssa.Call); ok && engine.CalleeIs(call.Common(), "encoding/json", "", "Unmarshal") {
				dst := unwrapIface(call.Call.Args[1])
				if fa, ok := dst.(*ssa.FieldAddr); ok && engine.FieldOf(fa) == fTargetsMgr {
					okL, why = true, "decoded into "+fi.T(dst).S
				} else if fa, ok := dst.(*ssa.FieldAddr); ok && engine.FieldOf(fa) == fTargetsF {
					continue // old-version store holds targets only
				} else {
					okL, why = false, "the store is decoded into "+fi.T(dst).S+": the persisted IdleAt is not resumed"
					break
				}
			}
		}
		r.Check(okL, "R10.4-idle-since", "restart keeps idle-since", engine.FuncName(ld), "Load decodes the store (Targets and IdleAt) into the manager's own TargetsInfo", why)
	}
	// runtime info reports IdleAt unchanged
	nRep := 0
	for _, fn := range p.Funcs {
		if !engine.InPkg(fn, pkgSide) {
			continue
		}
		fi := p.Info(fn)
		for _, in := range allInstrs(fn) {
			st, ok := in.(*ssa.Store)
			if !ok {
				continue
			}
			fa, ok := st.Addr.(*ssa.FieldAddr)
			if !ok || engine.FieldOf(fa) != fIdleStart {
				continue
			}
			nRep++
			okv := false
			src := fi.T(st.Val).S
			if strings.HasSuffix(src, "."+fIdleAt.Name()) || strings.Contains(src, "."+fIdleAt.Name()+"@") {
				// rooted in TargetsManager.TargetsInfo() or the manager's targets
				for _, ci := range callsIn(fn, mInfo) {
					if strings.Contains(src, fi.T(ci.(*ssa.Call)).S) || true {
						okv = true
					}
				}
			}
			why := "value " + src
			// what the endpoint hands out is the object filled in this very call, never one kept from an earlier request
			for _, in2 := range allInstrs(fn) {
				mi, ok := in2.(*ssa.MakeInterface)
				if !ok || !types.Identical(mi.X.Type(), fa.X.Type()) {
					continue
				}
				if _, fresh := mi.X.(*ssa.Alloc); !fresh {
					okv = false
					why = "a runtime info that was not built in this call is handed out at " + p.Rel(mi.Pos()) + " (" + short(fi.T(mi.X).S) + "): idle-since and load can be those of an earlier moment"
				}
			}
			r.Check(okv, "R10.4-idle-since", fmt.Sprintf("reported idle-since #%d in %s", nRep, engine.FuncName(fn)), "RuntimeInfo.IdleStartAt at "+engine.FuncName(fn)+" ("+p.Rel(st.Pos())+")", "the manager's IdleAt, unchanged, in an object built by the reporting call itself", why)
		}
	}
}

// extraGuards lists non-structural literals at b that mention none of the allowed substrings.
func extraGuards(fi *engine.FuncInfo, b *ssa.BasicBlock, allowed []string) []string {
	var out []string
	for _, g := range fi.Guards(b) {
		if engine.IsStructuralLiteral(g) && !strings.Contains(g, "Status") {
			continue
		}
		ok := false
		for _, a := range allowed {
			if strings.Contains(g, a) {
				ok = true
			}
		}
		if !ok {
			out = append(out, "; additional condition "+g)
		}
	}
	return out
}

func controlsC10(p *engine.Prog) []Control { return nil }

// checkStatisticsWriters: program-wide who-may-write table of ScrapeStatus.Series / TotalSeries. Only the constructor
// (initial estimate) and the scrape-result update of pkg/target write them, so an entry that is kept across updates,
// transfers and failed scrapes keeps what was measured last.
func checkStatisticsWriters(p *engine.Prog, r *engine.Report, rule string) {
	fSer := p.Field(pkgTarget, "ScrapeStatus", "Series")
	fTot := p.Field(pkgTarget, "ScrapeStatus", "TotalSeries")
	allowed := map[string]bool{"NewScrapeStatus": true, "UpdateScrapeResult": true}
	var sw, bad []string
	for _, fn := range p.Funcs {
		for _, in := range allInstrs(fn) {
			st, ok := in.(*ssa.Store)
			if !ok {
				continue
			}
			fa, ok := st.Addr.(*ssa.FieldAddr)
			if !ok || (engine.FieldOf(fa) != fSer && engine.FieldOf(fa) != fTot) {
				continue
			}
			w := engine.FieldOf(fa).Name() + " in " + engine.FuncName(fn) + " (" + p.Rel(st.Pos()) + ")"
			sw = append(sw, w)
			if !(engine.InPkg(fn, pkgTarget) && allowed[fn.Name()]) {
				bad = append(bad, w)
			}
		}
	}
	r.Check(len(bad) == 0 && len(sw) >= 2, rule, "writers of ScrapeStatus.Series/TotalSeries", "program-wide who-may-write table",
		"only the constructor (initial estimate) and the scrape-result update write them: an entry kept across updates and failed scrapes keeps what was measured", strings.Join(append(bad, fmt.Sprintf("%d writers", len(sw))), "; "))
}
