#!/usr/bin/env python3
"""Confirms candidate seeded changes: for each /tmp/wt/<ID>.out/<v>/ (patch.diff, demo/, meta.json)
in a scratch worktree of /repo: demo passes without the patch; with the patch the tree compiles, the
baseline suite still passes (missing 0) and the demo fails. Confirmed ones are copied to /verif/seeded/<ID><v>/."""
import json, os, re, shutil, subprocess, sys, glob
ENV = dict(os.environ, GOFLAGS='-mod=mod', GOPROXY='off', GOSUMDB='off', GOTOOLCHAIN='local', GOWORK='off')
def sh(cmd, cwd=None, timeout=1800):
    p = subprocess.run(cmd, shell=True, cwd=cwd, env=ENV, stdout=subprocess.PIPE, stderr=subprocess.STDOUT, text=True, timeout=timeout)
    return p.returncode, p.stdout
def main():
    cands = sorted(glob.glob('/tmp/wt/C*.out/[a-z]'))
    only = sys.argv[1:]
    out = {}
    for d in cands:
        pid = os.path.basename(os.path.dirname(d)).split('.')[0]
        v = os.path.basename(d)
        sid = pid + v
        if only and sid not in only: continue
        if not os.path.exists(d + '/patch.diff') or not os.path.exists(d + '/meta.json'):
            out[sid] = {'ok': False, 'why': 'incomplete'}; continue
        meta = json.load(open(d + '/meta.json'))
        wt = '/tmp/vs_' + sid
        sh('git -C /repo worktree remove --force %s' % wt)
        rc, o = sh('git -C /repo worktree add -q --detach %s HEAD' % wt)
        res = {'ok': False}
        try:
            shutil.copy('/repo/go.mod', wt + '.mod'); shutil.copy('/repo/go.sum', wt + '.sum')
            for f, rel in meta.get('demo_files', {}).items():
                dst = os.path.join(wt, rel); os.makedirs(os.path.dirname(dst), exist_ok=True)
                shutil.copy(os.path.join(d, 'demo', f), dst)
            cmd = meta['demo_cmd']
            cmd = re.sub(r'-modfile=\S+', '-modfile=%s.mod' % wt, cmd)
            cmd = re.sub(r'^cd \S+ && ', '', cmd)
            rc0, o0 = sh(cmd, cwd=wt)
            res['demo_without_patch'] = 'pass' if rc0 == 0 else 'FAIL'
            rc, o = sh('git apply %s/patch.diff' % d, cwd=wt)
            if rc != 0:
                res['why'] = 'patch does not apply: ' + o[-300:]; out[sid] = res; continue
            rc1, o1 = sh(cmd, cwd=wt)
            res['demo_with_patch'] = 'pass' if rc1 == 0 else 'fail'
            res['demo_tail'] = o1[-600:]
            # baseline without demo files
            for f, rel in meta.get('demo_files', {}).items():
                os.remove(os.path.join(wt, rel))
            rcb, ob = sh('go build -modfile=%s.mod ./pkg/...' % wt, cwd=wt)
            res['build'] = 'ok' if rcb == 0 else 'FAIL ' + ob[-300:]
            rcs, os_ = sh('/verif/tools/baseline.sh %s' % wt)
            res['baseline'] = os_.strip().splitlines()[0] if os_.strip() else ''
            res['ok'] = (rc0 == 0 and rc1 != 0 and rcb == 0 and rcs == 0)
            res['demo_cmd'] = cmd
            if res['ok']:
                dst = '/verif/seeded/' + sid
                shutil.rmtree(dst, ignore_errors=True); os.makedirs(dst)
                shutil.copy(d + '/patch.diff', dst + '/patch.diff')
                shutil.copytree(d + '/demo', dst + '/demo')
                m2 = {'id': sid, 'property': pid, 'origin': 'independent sub-agent given only the property text and a scratch worktree',
                      'summary': meta.get('summary'), 'needs': meta.get('needs'), 'demo_files': meta.get('demo_files'),
                      'demo_cmd': re.sub(r'-modfile=\S+', '-modfile=<copy of go.mod>', cmd),
                      'confirmed': {'demo_without_patch': 'pass', 'demo_with_patch': 'fail', 'build_with_patch': 'ok', 'baseline_with_patch': res['baseline']},
                      'ran': ['scratch worktree of /repo HEAD; ' + cmd + ' (without patch: exit 0; with patch: exit %d)' % rc1, '/verif/tools/baseline.sh <worktree> with patch, demo removed: ' + res['baseline']]}
                json.dump(m2, open(dst + '/meta.json', 'w'), indent=1)
        except Exception as e:
            res['why'] = repr(e)
        finally:
            sh('git -C /repo worktree remove --force %s' % wt)
            for ext in ('.mod', '.sum'):
                try: os.remove(wt + ext)
                except OSError: pass
        out[sid] = res
        print(sid, json.dumps({k: v for k, v in res.items() if k != 'demo_tail'}), flush=True)
    json.dump(out, open('/tmp/wt/verify_results.json', 'w'), indent=1)
main()
