#!/bin/bash
# Runs kvass's pinned test suite on a tree (default /repo) without touching its go.mod,
# and compares the passing set with /root/.vp/BASELINE.json stable_pass.
# usage: baseline.sh [repo-dir]
set -u
REPO=${1:-/repo}
export GOFLAGS=-mod=mod GOPROXY=off GOSUMDB=off GOTOOLCHAIN=local GOWORK=off
T=$(mktemp -d /tmp/kvbase.XXXXXX)
trap 'rm -rf "$T"' EXIT
cp "$REPO/go.mod" "$T/go.mod"; cp "$REPO/go.sum" "$T/go.sum"
(cd "$REPO" && go test -modfile="$T/go.mod" -json -vet=off -count=1 -timeout 25m ./... > "$T/out.json" 2>"$T/err.txt")
python3 - "$T/out.json" <<'PY'
import json,sys
base=json.load(open('/root/.vp/BASELINE.json'))
want=set(base['stable_pass'])
passed=set(); failed=set()
for l in open(sys.argv[1]):
    try: e=json.loads(l)
    except Exception: continue
    if e.get('Test') and e.get('Action') in('pass','fail'):
        k=e['Package']+'::'+e['Test']
        (passed if e['Action']=='pass' else failed).add(k)
missing=sorted(want-passed)
print('passed',len(passed),'failed',len(failed),'baseline',len(want),'missing',len(missing))
for m in missing: print('  MISSING',m)
newfail=sorted(failed-set(base['always_fail']))
for m in newfail: print('  NEWFAIL',m)
sys.exit(1 if missing else 0)
PY
