#!/bin/bash
# usage: benigntest.sh <patch.diff>   -- analyse a behaviour-preserving change as an overlay on /repo (not modified)
# with every claimed check. Prints "silent" when no check reports anything, else the reports (false alarms to be
# fixed in the checks).
set -u
PATCH=$(readlink -f "$1")
BIN=${KVCHECK:-/verif/bin/kvcheck}
V=$(mktemp -d /tmp/benignv.XXXXXX)
cp /verif/known_findings.json "$V"/ 2>/dev/null
bad=0
for P in $(python3 -c "import json;print(' '.join(c['property_id'] for c in json.load(open('/verif/MANIFEST.json'))['checks']))"); do
  OUT=$($BIN -prop "$P" -verif "$V" -nocontrols -patch "$PATCH" 2>&1); RC=$?
  if [ $RC -ne 0 ]; then bad=1; echo "$P ALARM:"; echo "$OUT" | grep -A4 '^VIOLATION' | cut -c1-700; fi
done
[ $bad -eq 0 ] && echo silent
rm -rf "$V"
exit $bad
