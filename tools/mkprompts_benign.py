import json,sys
props={}
for l in open('/verif/properties.jsonl'):
    d=json.loads(l); props[d['id']]=d
tmpl=open('/verif/tools/PROMPT_BENIGN.tmpl').read()
for pid in sys.argv[1:] or sorted(props):
    d=props[pid]; a=d['anchors']
    mech='; '.join('%s (%s)'%(m['name'],m['where']) for m in a.get('mechanism',[]))
    text='%s - %s\n\n%s\n\nIt must hold: %s\n\nWhere it lives in the code: %s. Mechanisms meant to make it hold: %s.'%(pid,d['title'],d['statement'],d['quantifier']['text'],', '.join(a['files']),mech)
    open('/tmp/wt/%s.promptB.txt'%pid,'w').write(tmpl.replace('@ID@',pid).replace('@PROPERTY@',text))
