#!/bin/bash
# runs every claimed check (quick or thorough) and prints one line each; evidence files are rewritten
TIER=${1:-quick}
cd "$(dirname "$0")/.."
rc=0
for P in $(python3 -c "import json;print(' '.join(c['property_id'] for c in json.load(open('MANIFEST.json'))['checks']))"); do
  out=$(./check.sh $P $TIER 2>&1); r=$?
  echo "$out" | grep -v '^KNOWN-FINDING' | tail -1 | cut -c1-200
  if [ $r -ne 0 ]; then rc=1; echo "$out" | grep -A4 '^VIOLATION' | head -20; fi
done
exit $rc
