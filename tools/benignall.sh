#!/bin/bash
# runs every committed behaviour-preserving change (benign/<id>/patch.diff) through all checks, 6 at a time;
# any report is a false alarm. The changes of the one class that is a known limit (DESIGN.md 5.4c: a helper of the
# reference tree inlined away) are listed in benign/KNOWN_ALARMS and expected to alarm.
cd "$(dirname "$0")/.."
one() {
  d=$1; id=$(basename "$d")
  out=$(tools/benigntest.sh "$d/patch.diff" 2>&1)
  if echo "$out" | grep -q '^silent$'; then echo "$id silent"; else echo "$id ALARMS: $(echo "$out" | grep 'rule=' | sed 's/.*rule=//' | sort | uniq -c | tr '\n' ' ')"; fi
}
export -f one
ls -d benign/*/ | sed 's|/$||' | xargs -P 6 -I{} bash -c 'one {}' | sort
