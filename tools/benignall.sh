#!/bin/bash
# runs every committed behaviour-preserving change (benign/<id>/patch.diff) through all checks; any report is a false alarm
cd "$(dirname "$0")/.."
rc=0
for d in benign/*/; do
  id=$(basename $d)
  out=$(tools/benigntest.sh $d/patch.diff 2>&1)
  if echo "$out" | grep -q '^silent$'; then echo "$id silent"; else rc=1; echo "$id ALARMS: $(echo "$out" | grep 'rule=' | sed 's/.*rule=//' | sort | uniq -c | tr '\n' ' ')"; fi
done
exit $rc
