#!/bin/bash
# runs every committed behaviour-preserving change (benign/<id>/patch.diff) through all checks, 6 at a time;
# any report is a false alarm. The changes of the one class that is a known limit (DESIGN.md 5.4c: a helper of the
# reference tree inlined away) are listed in benign/KNOWN_ALARMS and expected to alarm.
# usage: benignall.sh [id...]      exit 1 when a change outside KNOWN_ALARMS is reported
cd "$(dirname "$0")/.."
one() {
  d=$1; id=$(basename "$d")
  out=$(tools/benigntest.sh "$d/patch.diff" 2>&1)
  if echo "$out" | grep -q '^silent$'; then echo "$id silent"
  elif grep -qx "$id" benign/KNOWN_ALARMS 2>/dev/null; then echo "$id alarms (known limit): $(echo "$out" | grep 'rule=' | sed 's/.*rule=//' | sort | uniq -c | tr '\n' ' ')"
  else echo "$id ALARMS: $(echo "$out" | grep 'rule=' | sed 's/.*rule=//' | sort | uniq -c | tr '\n' ' ')"; fi
}
export -f one
if [ $# -gt 0 ]; then list=$(for i in "$@"; do echo benign/$i; done); else list=$(ls -d benign/*/ | sed 's|/$||'); fi
res=$(echo "$list" | xargs -P 6 -I{} bash -c 'one {}' | sort)
echo "$res"
echo "silent: $(echo "$res" | grep -c ' silent$')  known limit: $(echo "$res" | grep -c 'known limit')  unexpected: $(echo "$res" | grep -c ' ALARMS:')"
! echo "$res" | grep -q ' ALARMS:'
