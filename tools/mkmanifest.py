#!/usr/bin/env python3
"""Regenerates /verif/MANIFEST.json from tools/claims.json (one entry per claimed property) and properties.jsonl."""
import json, os
here = os.path.dirname(os.path.abspath(__file__))
root = os.path.dirname(here)
props = [json.loads(l) for l in open(os.path.join(root, 'properties.jsonl'))]
claims = json.load(open(os.path.join(here, 'claims.json')))
checks = []
na = []
for p in props:
    c = claims.get(p['id'])
    if c and c.get('claimed'):
        checks.append({
            "property_id": p['id'],
            "quick_cmd": "./check.sh %s quick" % p['id'],
            "thorough_cmd": "./check.sh %s thorough" % p['id'],
            "evidence_file": "/verif/evidence/%s.json" % p['id'],
            "replay_cmd_template": "./check.sh replay {path}",
            "engine": "kvcheck",
            "level_claimed": {"category": "other", "text": c['level_text'], "design_ref": "DESIGN.md section 3, " + p['id']},
            "level_note": c['level_note'],
            "technique": c['technique'],
        })
    else:
        na.append({"property_id": p['id'], "reason": (c or {}).get('reason', 'checker under construction (see DESIGN.md); not claimed yet')})
m = {
    "version": 1,
    "setup_cmd": "./setup.sh",
    "hooks": {"guard": "verif", "enable": "none: the analyzer reads /repo's sources (go/packages + go/ssa); kvass contains no verif-tagged hooks",
              "baseline_off_cmd": "/verif/tools/baseline.sh /repo", "source_commits": [], "add_only": True},
    "engines": [{"name": "kvcheck", "path": "/verif/kvcheck", "serves_properties": [c['property_id'] for c in checks],
                 "kind_free_text": "repository-specific static analyzer: go/packages + go/types + go/ssa (x/tools v0.29.0); path conditions as truth tables over normalised comparison atoms, memory-versioned access paths, who-may-write tables, provenance, must-pass-through, lock sets, type-graph walks; positive controls through in-memory overlays"}],
    "checks": checks,
    "not_applicable": na,
    "notes": "All claimed checks decide structural necessary conditions statically (level 'other'); nothing is executed. See DESIGN.md.",
}
json.dump(m, open(os.path.join(root, 'MANIFEST.json'), 'w'), indent=1)
print("checks:", [c['property_id'] for c in checks], "na:", len(na))
