#!/bin/bash
# usage: seedtest.sh <patch.diff> <PROP> [PROP...]   -- apply a seeded change to /repo, run the checks, undo.
# Prints for each property: CAUGHT / missed. Never leaves /repo modified.
set -u
PATCH=$(readlink -f "$1"); shift
BIN=${KVCHECK:-/verif/bin/kvcheck}
cd /repo || exit 2
if [ -n "$(git status --porcelain)" ]; then echo "/repo not clean"; exit 2; fi
trap 'git -C /repo checkout -- . >/dev/null 2>&1' EXIT
git apply "$PATCH" || { echo "patch does not apply"; exit 2; }
V=$(mktemp -d /tmp/seedv.XXXXXX)
cp /verif/known_findings.json "$V"/ 2>/dev/null
for P in "$@"; do
  OUT=$($BIN -prop "$P" -verif "$V" -nocontrols 2>&1); RC=$?
  if [ $RC -ne 0 ]; then echo "$P CAUGHT: $(echo "$OUT" | grep -A1 '^VIOLATION' | grep 'rule=' | sort | uniq -c | tr '\n' ' ')"; else echo "$P missed"; fi
  [ -n "${VERBOSE:-}" ] && echo "$OUT"
done
rm -rf "$V"
