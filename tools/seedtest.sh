#!/bin/bash
# usage: seedtest.sh <patch.diff> <PROP> [PROP...]   -- analyse a seeded change as an overlay on /repo (which is not
# modified) and print for each property: CAUGHT / missed.   APPLY=1 applies the patch to /repo instead and undoes it.
set -u
PATCH=$(readlink -f "$1"); shift
BIN=${KVCHECK:-/verif/bin/kvcheck}
V=$(mktemp -d /tmp/seedv.XXXXXX)
cp /verif/known_findings.json "$V"/ 2>/dev/null
ARG=(-patch "$PATCH")
if [ -n "${APPLY:-}" ]; then
  cd /repo || exit 2
  if [ -n "$(git status --porcelain)" ]; then echo "/repo not clean"; exit 2; fi
  trap 'git -C /repo checkout -- . >/dev/null 2>&1; git -C /repo clean -fdq >/dev/null 2>&1' EXIT
  git apply "$PATCH" || { echo "patch does not apply"; exit 2; }
  ARG=()
fi
for P in "$@"; do
  OUT=$($BIN -prop "$P" -verif "$V" -nocontrols "${ARG[@]}" 2>&1); RC=$?
  if [ $RC -ne 0 ]; then echo "$P CAUGHT: $(echo "$OUT" | grep -A1 '^VIOLATION' | grep 'rule=' | sort | uniq -c | tr '\n' ' ')"; else echo "$P missed"; fi
  [ -n "${VERBOSE:-}" ] && echo "$OUT"
done
rm -rf "$V"
