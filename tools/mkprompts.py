#!/usr/bin/env python3
"""Writes the prompts for one round of seeding sub-agents: /tmp/wt/<ID>.prompt<round>.txt.
Each prompt holds the text of ONE property (from properties.jsonl), the sandbox instructions and
one-paragraph summaries of the changes earlier agents produced for that property (so that a new
agent looks elsewhere). Nothing about the checks is included.
usage: mkprompts.py <round> <v1> <v2> [ID...]     e.g. mkprompts.py 3 e f C01 C02"""
import json, sys, os, glob
rnd, v1, v2 = sys.argv[1], sys.argv[2], sys.argv[3]
ids = sys.argv[4:]
props = {}
for l in open('/verif/properties.jsonl'):
    d = json.loads(l); props[d['id']] = d
tmpl = open('/tmp/wt/PROMPT.tmpl').read() if os.path.exists('/tmp/wt/PROMPT.tmpl') else open('/verif/tools/PROMPT.tmpl').read()
for pid in (ids or sorted(props)):
    d = props[pid]
    a = d['anchors']
    mech = '; '.join('%s (%s)' % (m['name'], m['where']) for m in a.get('mechanism', []))
    text = '%s - %s\n\n%s\n\nIt must hold: %s\n\nWhere it lives in the code: %s. Mechanisms meant to make it hold: %s.' % (
        pid, d['title'], d['statement'], d['quantifier']['text'], ', '.join(a['files']), mech)
    used = []
    for m in sorted(glob.glob('/verif/seeded/%s?/meta.json' % pid)):
        s = json.load(open(m)).get('summary') or ''
        used.append('- ' + s[:420].replace('\n', ' '))
    extra = 'Do NOT use `git stash` (it is shared between worktrees); use `git apply`, `git apply -R`, `git checkout -- .`.\n\n'
    if used:
        extra += ('These ideas were already used by earlier attempts - do NOT repeat them or close variations of them; find different code sites and '
                  'different mechanisms (the property has several clauses and several anchored files - prefer clauses and files not touched yet):\n' + '\n'.join(used) + '\n\n')
    t = tmpl.replace('@ID@', pid).replace('@PROPERTY@', text + '\n\n' + extra.rstrip())
    t = t.replace('variant "a" and variant "b"', 'variant "%s" and variant "%s"' % (v1, v2)).replace('X in {a,b}', 'X in {%s,%s}' % (v1, v2))
    open('/tmp/wt/%s.prompt%s.txt' % (pid, rnd), 'w').write(t)
    print(pid, len(t))
