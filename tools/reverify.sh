#!/bin/bash
# usage: reverify.sh <seeded id>...  -- re-confirms committed seeded changes against the current /repo HEAD in a scratch
# worktree (removed afterwards): the demonstration passes without the patch and fails with it.
export GOFLAGS=-mod=mod GOPROXY=off GOSUMDB=off GOTOOLCHAIN=local GOWORK=off
for id in "$@"; do
  d=/verif/seeded/$id; wt=/tmp/rv_$id
  git -C /repo worktree remove --force $wt >/dev/null 2>&1
  git -C /repo worktree add -q --detach $wt HEAD || { echo "$id: no worktree"; continue; }
  cp /repo/go.mod $wt.mod; cp /repo/go.sum $wt.sum
  python3 - "$d" "$wt" <<'PY'
import json,sys,os,shutil
d,wt=sys.argv[1:3]
m=json.load(open(d+'/meta.json'))
for f,rel in m.get('demo_files',{}).items():
    dst=os.path.join(wt,rel); os.makedirs(os.path.dirname(dst),exist_ok=True); shutil.copy(os.path.join(d,'demo',f),dst)
import re
cmd=m['demo_cmd']; cmd=re.sub(r'-modfile=<[^>]*>','-modfile=%s.mod'%wt,cmd); cmd=re.sub(r'-modfile=\S+','-modfile=%s.mod'%wt,cmd); cmd=re.sub(r'^cd \S+ && ','',cmd)
open(wt+'.cmd','w').write(cmd)
PY
  (cd $wt && bash $wt.cmd >/dev/null 2>&1); a=$?
  (cd $wt && git apply $d/patch.diff) || { echo "$id: patch does not apply"; }
  (cd $wt && bash $wt.cmd >/dev/null 2>&1); b=$?
  echo "$id: without=$([ $a -eq 0 ] && echo pass || echo FAIL) with=$([ $b -eq 0 ] && echo PASS || echo fail)"
  git -C /repo worktree remove --force $wt; rm -f $wt.mod $wt.sum $wt.cmd
done
